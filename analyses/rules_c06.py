"""C06 — a failed exchange yields exactly one error, then silence."""
import rules_c05
import rules_c15

LEVEL = "model_checking"
EXPLANATION = (
    "Same event graphs and monitor as C05, restricted to the failure discipline: on every `err` edge of any "
    "transport result (and of any other fallible step inside the stream body) the only events that follow are "
    "one Err item and the end of the stream - no write (in particular no acknowledgement of a packet that could "
    "not be parsed), no read, no second item; an Err item is never produced without a failure; the outcome of "
    "every transport call is examined. In addition: write_packet_with_ack parses the acknowledgement with an "
    "enum whose decision tree accepts exactly 80 00, and read_packet propagates the parser's error.")
RULE = ("after any err edge: Yerr exactly once, then END; no W/R/Wack in phases E/X; no Yerr outside E; every "
        "I/O result switch-tested before the next event; io::Ack decision tree == {80 00}; read_packet returns "
        "zvt_parse's Err on its Break edge.")


def _run_own(ctx, chk):
    rules_c05.run(ctx, chk, prop="C06")
    io_rules(ctx, chk)
    # a connection that ends mid-exchange must surface as an error of read_packet: the source is
    # only read with read_exact (shared rule with C04-a)
    import rules_c04
    rules_c04.source_reads(ctx, chk, "C06/eof")


def io_rules(ctx, chk):
    from mirlite import callee, ty_str
    zvt = ctx.crate("zvt")
    # the acknowledgement enum
    adt = zvt.adts.get("zvt::io::Ack")
    ok = adt is not None and [v["name"] for v in adt["variants"]] == ["Ack"] and \
        ty_str(adt["variants"][0]["fields"][0]["ty"]) == "zvt::packets::Ack"
    chk.require(ok, "C06/ack-enum", "zvt::io::Ack", "the acknowledgement parser accepts more than packets::Ack", "Ack only")
    cf = None
    for im in zvt.impls:
        if im.get("trait") == "zvt_builder::ZvtCommand" and ty_str(im["self"]) == "zvt::packets::Ack":
            c = {x["name"]: x.get("v") for x in im["consts"]}
            cf = (c.get("CLASS"), c.get("INSTR"))
    chk.require(cf == (0x80, 0x00), "C06/ack-control-field", "zvt::packets::Ack",
                "positive acknowledgement is %s, specification says 80 00" % (cf,), "80 00")
    # write_packet_with_ack reads an io::Ack and checks the outcome; read_packet returns parse errors
    for b in zvt.bodies.values():
        r = b.raw
        if r.get("root") == "zvt::io::PacketTransport::<S>::write_packet_with_ack" and r["defkind"] == "Closure" and \
                b.id.count("{closure") == 1:
            reads = [t for _, t in b.calls() if callee(t) == "zvt::io::PacketTransport::<S>::read_packet"]
            tys = [ty_str(t["f"]["a"][-1]) for t in reads]
            chk.require(tys == ["zvt::io::Ack"], "C06/ack-parser", "write_packet_with_ack",
                        "the acknowledgement is parsed as %s instead of io::Ack" % tys, "read_packet::<io::Ack>", b.sp())
            import events
            eg = events.EventGraph(b, zvt.adts)
            # W then R, each result examined; any err edge leads to a return of Err without further I/O
            bad = _helper_discipline(b, eg)
            chk.require(not bad, "C06/helper", "write_packet_with_ack", "; ".join(bad), "write, check, read Ack, check", b.sp())
        if r.get("root") == "zvt::io::PacketTransport::<S>::read_packet_with_ack" and r["defkind"] == "Closure" and \
                b.id.count("{closure") == 1:
            # the mirror helper (read, then acknowledge): read first, Ack written only after a successful read,
            # both outcomes examined, nothing after a failure
            import events
            eg = events.EventGraph(b, zvt.adts)
            rd = [bb for bb, t in b.calls() if callee(t) == "zvt::io::PacketTransport::<S>::read_packet"]
            wr = [(bb, t) for bb, t in b.calls() if callee(t) == "zvt::io::PacketTransport::<S>::write_packet"]
            shape = len(rd) == 1 and len(wr) == 1 and ty_str(wr[0][1]["f"]["a"][-1]) == "zvt::packets::Ack" and \
                b.dominates(rd[0], wr[0][0])
            bad = _helper_discipline(b, eg) if shape else ["expected exactly read_packet then write_packet(Ack)"]
            chk.require(not bad, "C06/helper", "read_packet_with_ack", "; ".join(bad), "read, check, write Ack, check", b.sp())
        if r.get("root") == "zvt::io::PacketTransport::<S>::read_packet" and r["defkind"] == "Closure" and b.id.count("{closure") == 1:
            parses = [(bb, t) for bb, t in b.calls() if callee(t) == "zvt_builder::ZvtParser::zvt_parse"]
            chk.require(len(parses) == 1, "C06/parse-once", "read_packet", "expected one zvt_parse call, found %d" % len(parses),
                        "", b.sp())
            if len(parses) == 1:
                import events
                eg = events.EventGraph(b, zvt.adts)
                bb, t = parses[0]
                # the Result of zvt_parse must be switch-tested and its error edge must reach Return with _0 = Err
                tested = False
                for i in range(b.n):
                    for lab, nb in eg.edges.get(i, []):
                        if lab and lab[0] == "err" and lab[1] and lab[1][3] == bb:
                            tested = True
                tested = tested or eg.propagated(bb)
                chk.require(tested, "C06/parse-error-propagates", "read_packet",
                            "the outcome of zvt_parse is not examined: an undecodable packet would not be an error",
                            "Err edge of zvt_parse tested", t.get("sp"))


def _helper_discipline(b, eg):
    """In a transport helper: after any err edge no further I/O call is reachable."""
    bad = []
    for i in range(b.n):
        for lab, nb in eg.edges.get(i, []):
            if lab and lab[0] == "err":
                # reachable blocks from nb via event-graph edges
                seen = set()
                st = [nb]
                while st:
                    x = st.pop()
                    if x in seen:
                        continue
                    seen.add(x)
                    ev = eg.event.get(x)
                    if ev and ev[0] == "io":
                        bad.append("after a failed step the helper performs %s(%s)" % (ev[1], ev[2]))
                    st.extend(n2 for _, n2 in eg.edges.get(x, []))
    # each I/O call's result must be tested
    for i, ev in eg.event.items():
        if ev[0] == "io":
            tested = any(lab and lab[0] in ("ok", "err") and lab[1] and lab[1][3] == i
                         for j in range(b.n) for lab, _ in eg.edges.get(j, []))
            if not tested and not eg.propagated(i):
                bad.append("outcome of %s(%s) is never examined" % (ev[1], ev[2]))
    return bad


def run(ctx, chk):
    _run_own(ctx, chk)
    # "a malformed body ... is a failure of the exchange": a reply whose tagged field is cut short must fail to parse. The
    # generated decoders read a tagged field through deserialize_tagged(.., Some(tag)) - with `None` an optional field
    # swallows its own decoding error (C13-a/dispatch, C13-a/tag-source)
    import rules_c13
    from report import Sub
    sub = Sub(chk, "C06/parse", lambda r: r in ("C13-a/dispatch", "C13-a/tag-source", "C13-a/arm-tag"))
    rules_c13.run(ctx, sub)
    chk.floor("tagged-field dispatch obligations (shared with C13-a)", sub.count, 30)
    # "a packet that cannot be decoded" must come out as one error item: a decoder that panics on it unwinds through the
    # stream poll instead - zero items, the stream never ends (the C02-a/b site discharge over every decoder)
    import rules_c02
    sub2 = Sub(chk, "C06/parse", lambda r: r in ("C06p-a/no-panic", "C06p-b/no-wrap", "C06p-b/no-truncation"))
    rules_c02.run(ctx, sub2, only=lambda b: True, prop="C06p")
    chk.floor("decoder panic-site obligations (shared with C02-a/b)", sub2.count, 100)
    # "a packet outside the command's reply set" is an error only if the enum the sequence parses *is* that reply set: a
    # command that is given a wider (shared) enum accepts, acknowledges and yields the foreign packet (C15/reply-set)
    import rules_c15
    sub3 = Sub(chk, "C06/parse", lambda r: r == "C15/reply-set")
    rules_c15.run(ctx, sub3)
    chk.floor("reply-set obligations (shared with C15)", sub3.count, 17)
