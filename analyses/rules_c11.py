"""C11 — firmware upload sends exactly the requested bytes of the right file."""
import seqcheck
from mirlite import callee, ty_str
from expr import Ex, show, walk, strip_ref

EXPLANATION = (
    "Bit-identity with the file on disk for every content, short reads of read_at and the id table against Feig's manual "
    "are NOT decided (I/O semantics / no independent copy of the table). Decided from the MIR of convert_dir and of the "
    "WriteFile stream coroutine (expression trees by def-use): (a) the path->id table has pairwise distinct ids and paths, "
    "an entry is announced only if its file exists, and id and path of one entry come from the same table row; (b) "
    "manifest wiring: one tlv::File per map entry with file_id <- key, file_size <- seek(End(0)) of the file opened from "
    "that entry's path, offset and payload absent, all pushed into the vector that is sent as the WriteFile packet "
    "(password <- caller's); (c) answer wiring in the data-request arm: the WriteData packet echoes request.file_id and "
    "request.file_offset and carries buf[..n].to_vec() where n is the result of read_at(file, &mut buf, "
    "request.file_offset as u64), file is opened from files.get(request.file_id) - the same map the manifest was built "
    "from - and buf has the configured block size; (d) the five refusal points (no tlv / no file / no id / no offset / "
    "unknown id) are `ok_or(..)?` steps whose failure edge yields one error and ends the stream without any write "
    "(protocol monitor of C05/C06 on this sequence); (e) the raw payload encoding is the identity in both directions "
    "and is framed tag || BER length || bytes (rules of C01).")
RULE = ("expression provenance of every field of the manifest entries and of the WriteData answer; constant table "
        "distinctness; monitor findings for the WriteFile sequence; identity of the Custom encoder/decoder.")

WF = "zvt::feig::sequences::WriteFile::into_stream::{closure#0}"
CD = "zvt::feig::sequences::convert_dir"
TFILE = "zvt::feig::packets::tlv::File::File"


def fields_of(e):
    f = []
    base = e
    while base[0] == "proj":
        f = list(base[2]) + f
        base = base[1]
    if base[0] == "path":
        f = list(base[2]) + f
    return f, base


WRAPPERS = ("core::option::Option::<T>::ok_or", "core::option::Option::<T>::as_ref", "core::ops::deref::Deref::deref",
            "core::option::Option::<T>::unwrap", "core::clone::Clone::clone", "core::option::Option::<T>::copied",
            "core::option::Option::<T>::cloned")


def deep_fields(e):
    """Field chain of an access path that goes through Option plumbing:
    ok_or(as_ref(&X.a)).@Ok.0.b  ==>  fields of X + [a, @Ok, 0, b]."""
    e = strip_ref(e)
    f, base = fields_of(e)
    guard = 0
    while base[0] == "call" and base[1] in WRAPPERS and base[2] and guard < 16:
        guard += 1
        f2, base = fields_of(strip_ref(base[2][0]))
        f = f2 + f
    return f, base


def agg_named(e, name):
    return [x for x in walk(e) if x[0] == "agg" and x[1] == name]


def fld(agg, name):
    return agg[2][agg[3].index(name)] if name in agg[3] else None


def unwrap_some(e):
    if e is not None and e[0] == "agg" and e[1].endswith("Option::Some"):
        return e[2][0]
    return None


def is_none(e):
    return e is not None and e[0] == "agg" and e[1].endswith("Option::None")


def calls_in(e, name):
    return [x for x in walk(e) if x[0] == "call" and x[1] == name]


def run(ctx, chk):
    zvt = ctx.crate("zvt")
    table(chk, zvt)
    b = zvt.bodies.get(WF)
    if not chk.require(b is not None, "C11/anchor", "WriteFile::into_stream", "stream body not found", "", nontrivial=False):
        return
    ex = Ex(b)
    import pathsym as ps
    pe = ps.PathEval(b)
    # the parameters of into_stream(path, password, adpu_size, src), under whatever names the source gives them
    outer = zvt.bodies.get(b.raw.get("root") or WF.split("::{closure")[0])
    P_PASSWORD = (outer.local_name(2) if outer is not None else None) or "password"
    P_ADPU = (outer.local_name(3) if outer is not None else None) or "adpu_size"

    def pre_expr(e):
        """Ex expression (path-insensitive) of a value defined before the evaluated path."""
        e = ps.strip(e)
        if e[0] == "pre":
            return ex.operand({"c": {"l": e[1], "p": []}})
        return None

    def aggs(e, suffix):
        return [x for x in ps.walk(e) if x[0] == "agg" and str(x[1]).endswith(suffix)]

    def fld2(agg, name):
        return agg[2][agg[3].index(name)] if name in agg[3] else None

    def is_none2(e):
        e = ps.strip(e)
        return e[0] == "agg" and str(e[1]).endswith("Option::None")

    def from_dir_map(e):
        """e denotes (a reference to) the id -> path map returned by convert_dir."""
        pexp = pre_expr(e)
        return pexp is not None and bool(calls_in(pexp, CD))
    # ---------------- (b) manifest: evaluated symbolically along the loop body (iterator step -> push)
    pushes = [(bb, t) for bb, t in b.calls() if callee(t) == "alloc::vec::Vec::<T, A>::push"]
    nexts = [(bb, t) for bb, t in b.calls() if callee(t).endswith("Iterator::next")]
    cand = []
    for pbb, pt in pushes:
        for nbb, nt in nexts:
            for path in ps.simple_paths(b, nbb, pbb):
                env, _ = pe.run(path)
                v = ps.norm(pe.operand(pt["args"][1], env))
                fa = aggs(v, "tlv::File::File")
                if fa:
                    cand.append((pbb, pt, nbb, nt, env, fa[0]))
    if chk.require(len(cand) == 1, "C11-b/manifest-entry", "WriteFile", "expected one manifest push of tlv::File per directory entry, found %d" % len(cand), "", b.sp()):
        bb, t, nbb, nt, env, f = cand[0]
        # the loop runs over the directory map
        it = pe.operand(nt["args"][0], env)
        itx = pre_expr(it)
        over_map = itx is not None and bool(calls_in(itx, CD)) and \
            any(c[0] == "call" and (c[1].endswith("HashMap::<K, V, S, A>::iter") or c[1].endswith("IntoIterator::into_iter")) for c in walk(itx))
        root, names = ps.field_chain(fld2(f, "file_id"))
        is_entry = root[0] == "call" and root[1].endswith("Iterator::next") and [n for n in names if isinstance(n, int)][-1:] == [0]
        chk.require(over_map and is_entry, "C11-b/manifest-id", "tlv::File.file_id",
                    "announced id is %s, not the key of the directory map entry" % ps.show(ps.core(fld2(f, "file_id")))[:100], "= map key", t.get("sp"))
        sz = ps.core(fld2(f, "file_size"))
        while sz[0] == "cast":
            sz = ps.core(sz[1])
        ok = False
        if sz[0] == "call" and sz[1] == "std::io::Seek::seek" and len(sz[2]) == 2:
            whence = ps.strip(sz[2][1])
            fh = ps.core(sz[2][0])
            if fh[0] == "call" and fh[1] == "std::fs::File::open":
                r2, n2 = ps.field_chain(fh[2][0])
                same_entry = r2[0] == "call" and r2[1].endswith("Iterator::next") and [n for n in n2 if isinstance(n, int)][-1:] == [1]
                ok = whence[0] == "agg" and str(whence[1]).endswith("SeekFrom::End") and whence[2][0] == ("const", 0) and same_entry
        chk.require(ok, "C11-b/manifest-size", "tlv::File.file_size",
                    "announced size is %s, not seek(End(0)) of the file opened from that entry's path" % ps.show(sz)[:120],
                    "= seek(End(0)) of entry's file", t.get("sp"))
        chk.require(is_none2(fld2(f, "file_offset")) and is_none2(fld2(f, "payload")), "C11-b/manifest-bare", "tlv::File",
                    "manifest entries carry an offset or payload", "offset/payload absent", t.get("sp"), nontrivial=False)
        vec_arg = ex.operand(t["args"][0])
        wacks = [(b2, t2) for b2, t2 in b.calls() if callee(t2) == "zvt::io::PacketTransport::<S>::write_packet_with_ack"]
        if chk.require(len(wacks) == 1, "C11-b/manifest-sent", "WriteFile", "expected one write_packet_with_ack", "", b.sp()):
            pk = ex.operand(wacks[0][1]["args"][1])
            wf = agg_named(pk, "zvt::feig::packets::WriteFile::WriteFile")
            inner = agg_named(pk, "zvt::feig::packets::tlv::WriteFile::WriteFile")
            from discharge import unq as _unq
            files_e = strip_ref(ex.select_variant(_unq(fld(inner[0], "files")))) if inner else None       # (`Ok(vec)` of a helper + `?`)
            good = bool(wf) and bool(inner) and (show(strip_ref(fld(inner[0], "files"))) == show(strip_ref(vec_arg)) or
                                                 show(files_e) == show(strip_ref(vec_arg))) and \
                strip_ref(fld(wf[0], "password"))[0] == "path" and strip_ref(fld(wf[0], "password"))[1] == P_PASSWORD
            chk.require(good, "C11-b/manifest-sent", "WriteFile", "the packet sent does not carry the manifest vector / the caller's password",
                        "WriteFile{password, files}", wacks[0][1].get("sp"))
            chk.require(b.dominates(bb, wacks[0][0]) or wacks[0][0] in b.reachable(bb), "C11-b/manifest-complete", "WriteFile",
                        "the command is sent before the manifest is built", "", b.sp(), nontrivial=False)
    # ---------------- (c) answer: evaluated symbolically along every path read_packet -> write_packet(WriteData)
    wr = [(bb, t) for bb, t in b.calls() if callee(t) == "zvt::io::PacketTransport::<S>::write_packet" and
          ty_str(t["f"]["a"][-1]) == "zvt::feig::packets::WriteData"]
    rd = [(bb, t) for bb, t in b.calls() if callee(t) in ("zvt::io::PacketTransport::<S>::read_packet",
                                                          "zvt::io::PacketTransport::<S>::read_packet_with_ack")]
    if chk.require(len(wr) == 1 and len(rd) == 1, "C11-c/answer", "WriteFile",
                   "expected one read of the request and one write of WriteData, found %d/%d" % (len(rd), len(wr)), "", b.sp()):
        bb, t = wr[0]
        paths = ps.simple_paths(b, rd[0][0], bb)
        chk.require(0 < len(paths) < 512, "C11-c/answer", "paths", "could not enumerate the paths from the request to the answer (%d)" % len(paths),
                    "", t.get("sp"), nontrivial=False)

        def req_chain(e, name):
            """e is the field `name` of the tlv::File inside the RequestForData packet that was read."""
            root, names = ps.field_chain(e)
            strs = [n for n in names if isinstance(n, str)]
            plain = [n for n in strs if not n.startswith("@")]
            from_read = bool(ps.calls_in(root, "::read_packet")) or bool(ps.calls_in(root, "::read_packet_with_ack"))
            return from_read and "@RequestForData" in strs and plain[-3:] == ["tlv", "file", name]
        for path in paths:
            env, _ = pe.run(path)
            pk = ps.norm(pe.operand(t["args"][1], env))
            fa = aggs(pk, "tlv::File::File")
            if not chk.require(len(fa) == 1, "C11-c/answer", "WriteData", "answer does not contain one tlv::File", "", t.get("sp")):
                continue
            f = fa[0]
            chk.require(req_chain(fld2(f, "file_id"), "file_id"), "C11-c/echo-id", "WriteData.file.file_id",
                        "answer id is %s, not the requested id" % ps.show(ps.core(fld2(f, "file_id")))[:100], "= request.file_id", t.get("sp"))
            chk.require(req_chain(fld2(f, "file_offset"), "file_offset"), "C11-c/echo-offset", "WriteData.file.file_offset",
                        "answer offset is %s, not the requested offset" % ps.show(ps.core(fld2(f, "file_offset")))[:100],
                        "= request.file_offset", t.get("sp"))
            chk.require(is_none2(fld2(f, "file_size")), "C11-c/no-size", "WriteData.file.file_size", "answer carries a size", "absent",
                        t.get("sp"), nontrivial=False)
            pay = ps.core(fld2(f, "payload"))
            ok = False
            why = ps.show(pay)[:160]
            # buf[..n] copied: `<[T]>::to_vec(&buf[..n])` (to_owned / Vec::from are stripped as transparent)
            sl = pay
            if sl[0] == "call" and sl[1] in ("alloc::slice::<impl [T]>::to_vec",) and sl[2]:
                sl = ps.core(sl[2][0])
            if sl[0] == "call" and sl[1] == "core::ops::index::Index::index" and len(sl[2]) == 2:
                base, rng = ps.core(sl[2][0]), ps.strip(sl[2][1])
                if rng[0] == "agg" and str(rng[1]).endswith("RangeTo::RangeTo"):
                    n = ps.core(rng[2][0])
                    if n[0] == "call" and n[1].endswith("FileExt::read_at") and len(n[2]) == 3:
                        file_e, buf_e, off_e = (ps.core(x) for x in n[2])
                        key_ok = path_ok = False
                        if file_e[0] == "call" and file_e[1] == "std::fs::File::open":
                            g = ps.core(file_e[2][0])
                            if g[0] == "call" and g[1].endswith("HashMap::<K, V, S, A>::get") and len(g[2]) == 2:
                                path_ok = from_dir_map(g[2][0])
                                key_ok = req_chain(g[2][1], "file_id")
                        bx = pre_expr(base)
                        buf_ok = base == buf_e and bx is not None and strip_ref(bx)[0] == "call" and strip_ref(bx)[1] == "alloc::vec::from_elem" and \
                            any(x[0] == "path" and x[1] == P_ADPU for x in walk(strip_ref(bx)[2][1]))
                        o = off_e
                        while o[0] == "cast":
                            o = ps.core(o[1])
                        off_ok = req_chain(o, "file_offset") and (off_e[0] != "cast" or off_e[2] == "u64")
                        ok = key_ok and path_ok and buf_ok and off_ok
                        why = "file key ok=%s map ok=%s buffer ok=%s offset ok=%s" % (key_ok, path_ok, buf_ok, off_ok)
            chk.require(ok, "C11-c/payload", "WriteData.file.payload",
                        "payload is not buf[..read_at(file_of(request.file_id), &mut buf, request.file_offset)]: %s" % why,
                        "buf[..n], n = read_at(files[request.file_id], buf, request.file_offset)", t.get("sp"))
    # ---------------- (d) refusals
    # sanity floor, not a count of a spelling: the places where a missing request field becomes an error (that each
    # value used in the answer is reached only past its refusal is what the C11-b/c wiring rules decide)
    okors = [(bb, t) for bb, t in b.calls() if callee(t) in ("core::option::Option::<T>::ok_or", "core::option::Option::<T>::ok_or_else")]
    n_ref = len(okors) + sum(1 for i in b.reachable(0) for st in b.blocks[i]["stmts"]
                             if st.get("lowered") and st["s"] == "assign" and st["rv"]["r"] == "agg" and st["rv"].get("vname") == "Err")
    chk.require(n_ref >= 3, "C11-d/refusal-points", "WriteFile", "expected at least three refusal points (None -> Err), found %d" % n_ref,
                "%d refusal steps" % n_ref, b.sp())
    results, _ = seqcheck.run_all(ctx)
    res = results.get("zvt::feig::sequences::WriteFile")
    if chk.require(res is not None and not res.get("skipped"), "C11-d/monitor", "WriteFile", "sequence not analysed by the protocol monitor", "",
                   nontrivial=False):
        for f in res["findings"]:
            chk.fail("C11-d/" + f.rule, "WriteFile", f.msg, f.bb, path=f.trace)
        if not res["findings"]:
            chk.ok("C11-d/monitor", "WriteFile", "no write after any failed step; product states %s" % res["stats"].get("product_states"), b.sp())
    # ---------------- (e) raw payload identity
    for nm, want in (("encode", "core::clone::Clone::clone"), ("decode", "alloc::slice::<impl [T]>::to_vec")):
        cb = [x for x in zvt.bodies.values() if x.raw.get("impl_trait") == "zvt_builder::encoding::Encoding" and
              ty_str(x.raw.get("impl_self")) == "zvt::feig::packets::tlv::Custom" and x.raw.get("name") == nm]
        ok = len(cb) == 1
        if ok:
            calls = [callee(t) for _, t in cb[0].calls()]
            # one copying call on the whole input (clone / to_vec / to_owned / Vec::from are the same copy), nothing else
            COPY = ("core::clone::Clone::clone", "alloc::slice::<impl [T]>::to_vec", "alloc::borrow::ToOwned::to_owned",
                    "core::convert::From::from", "core::convert::Into::into")
            plumbing = ("core::ops::deref::Deref::deref", "core::convert::AsRef::as_ref", "alloc::vec::Vec::<T, A>::as_slice")
            # (calls that only look at the input - a log statement, `len()` - do not make the copy something else: what counts
            # is the one call that defines the returned value)
            OBSERVERS = ("log::", "core::fmt::", "alloc::fmt::", "core::cmp::PartialOrd::", "core::slice::<impl [T]>::len",
                         "alloc::vec::Vec::<T, A>::len", "core::slice::<impl [T]>::is_empty", "alloc::vec::Vec::<T, A>::is_empty")
            real = [c_ for c_ in calls if c_ not in plumbing and not c_.startswith(OBSERVERS)]
            ok = len(real) == 1 and real[0] in COPY
            if ok:
                from discharge import VEx as _V
                vx_ = _V(cb[0])
                cbb, ct = [(bb_, t_) for bb_, t_ in cb[0].calls() if callee(t_) == real[0]][0]
                a_ = strip_ref(vx_.operand(ct["args"][0], cbb))
                while a_[0] == "call" and a_[1] in plumbing and a_[2]:
                    a_ = strip_ref(a_[2][0])
                ok = a_[0] == "path" and a_[1] == vx_.root_name(1) and not a_[2]
        chk.require(ok, "C11-e/raw-identity", "Custom::" + nm, "raw payload %s is not the identity copy" % nm, want.rsplit("::", 1)[-1],
                    cb[0].sp() if cb else None)
    # the raw block travels in the hand-written Tlv framing of `Vec<u8>` (tag 1C): tag || Tlv::serialize(len) || bytes, decided
    # by the C01-d frame clauses on that impl (a length prefix written by hand is refused there)
    import rules_c01
    from report import Sub
    sub1 = Sub(chk, "C11-e", lambda r: r.startswith("C01-d/"), instance_filter=lambda i: "feig::packets::tlv" in str(i))
    rules_c01._run_own(ctx, sub1)
    chk.floor("raw payload framing obligations (shared with C01-d)", sub1.count, 3)
    # a data block reaches the terminal as an APDU: a body of exactly 255 bytes must take the extended form (C16-b / C04-d)
    import rules_c16
    import rules_c04
    sub16 = Sub(chk, "C11-e", lambda r: r.startswith("C16-b/"), instance_filter=lambda i: str(i).startswith("Adpu"))
    rules_c16.run(ctx, sub16)
    sub4 = Sub(chk, "C11-e", lambda r: r.startswith("C04-d/"))
    rules_c04.run(ctx, sub4)
    chk.floor("APDU length-form obligations (shared with C16-b / C04-d)", sub16.count + sub4.count, 6)
    chk.floor("C11 obligations", len(chk.obligations), 14)


def pipeline_form(chk, b, zvt):
    """convert_dir written as one iterator chain over the table:
        table.iter().map(|(path, id)| (*id, dir.join(path))).filter(|(_, full)| full.exists()).map(|(id, full)| (id, <string of full>)).collect()
    The same three obligations as for the loop: one entry per row (collect into the map), id and path of one row stay paired
    through every stage, only existing files are kept (the filter sits between the join and the collect).  -> True when the
    body has this form (obligations recorded), False to fall back to the loop rules."""
    from flow import Tracer
    tr = Tracer(b)
    coll = [(bb, t) for bb, t in b.calls() if callee(t).endswith("Iterator::collect") and
            any(ty_str(g).startswith("std::collections::hash::map::HashMap<u8, alloc::string::String") for g in (t["f"].get("a") or []))]
    if len(coll) != 1:
        return False
    # walk the receiver chain back from collect
    stages = []
    v = tr.value(coll[0][1]["args"][0])
    hops = 0
    while v.kind == "call" and hops < 8:
        hops += 1
        n = callee(v.term)
        if n.endswith(("Iterator::map", "Iterator::filter", "Iterator::filter_map")):
            stages.append((n.rsplit("::", 1)[-1], v.term, v.bb))
            v = tr.value(v.term["args"][0])
            continue
        break
    stages.reverse()
    src_ok = v.kind == "call" and callee(v.term).endswith(("<impl [T]>::iter", "IntoIterator::into_iter"))
    kinds = [k for k, _, _ in stages]
    if not src_ok or kinds.count("filter") != 1 or "filter_map" in kinds or kinds.count("map") < 1:
        return False

    def closure_of(t):
        cv = tr.value(t["args"][1])
        if cv.kind == "agg" and cv.rv.get("kind") == "closure":
            return zvt.bodies.get(cv.rv.get("n")) or getattr(zvt, "absorbed", {}).get(cv.rv.get("n"))
        return None

    def arg_field(e, k):
        """e mentions field k of the closure's (tuple) argument - parameter 2, through refs / pattern bindings"""
        return any(x[0] == "path" and x[1] in ("_2",) and tuple(y for y in x[2] if not str(y).startswith("@"))[:1] == (str(k),) for x in walk(e))

    def ret_tuple(cb):
        cex = Ex(cb)
        outs = []
        for i in sorted(cb.reachable(0)):
            for st in cb.blocks[i]["stmts"]:
                if st["s"] == "assign" and st["p"]["l"] == 0 and not st["p"]["p"]:
                    outs.append(cex.rvalue(st["rv"]))
            t = cb.blocks[i]["term"]
            if t["t"] == "call" and t["dest"]["l"] == 0 and not t["dest"]["p"]:
                outs.append(("call", callee(t), tuple(cex.operand(a) for a in t["args"]), i))
        return cex, outs
    joined = False
    filtered_after_join = False
    paired = True
    why = []
    for kind, t, bb in stages:
        cb = closure_of(t)
        if cb is None:
            return False
        cex, outs = ret_tuple(cb)
        if kind == "map":
            if len(outs) != 1 or not (outs[0][0] == "agg" and outs[0][1] == "tuple" and len(outs[0][2]) == 2):
                return False
            k_, v_ = outs[0][2]
            if not joined:
                has_join = any(x[0] == "call" and x[1] == "std::path::Path::join" for x in walk(v_))
                if not has_join:
                    return False
                joined = True
                jn = [x for x in walk(v_) if x[0] == "call" and x[1] == "std::path::Path::join"][0]
                pure_key = not any(x[0] in ("bin", "un", "const") or (x[0] == "call" and not x[1].endswith(("Deref::deref", "Clone::clone")))
                                   for x in walk(k_))
                ok = pure_key and arg_field(k_, 1) and not arg_field(k_, 0) and arg_field(jn[2][1], 0) and not arg_field(jn[2][1], 1) and \
                    not any(x[0] == "call" and x[1] != "std::path::Path::join" and not x[1].endswith(("Deref::deref", "AsRef::as_ref", "Clone::clone"))
                            for x in walk(v_))
                if not ok:
                    paired = False
                    why.append("first stage yields (%s, %s)" % (show(k_)[:40], show(v_)[:60]))
            else:
                ok = arg_field(k_, 0) and not arg_field(k_, 1) and arg_field(v_, 1) and not arg_field(v_, 0) and \
                    not any(x[0] in ("bin", "un", "const") or (x[0] == "call" and not x[1].endswith(("Deref::deref", "Clone::clone")))
                            for x in walk(k_))
                if not ok:
                    paired = False
                    why.append("a later stage yields (%s, %s)" % (show(k_)[:40], show(v_)[:60]))
        else:
            cexp = [x for o in outs for x in walk(o)]
            ex_calls = [x for x in cexp if x[0] == "call" and x[1] == "std::path::Path::exists"]
            other = [x for x in cexp if x[0] == "call" and x[1] != "std::path::Path::exists" and
                     not x[1].endswith(("Deref::deref", "AsRef::as_ref", "PathBuf::as_path"))]
            if len(ex_calls) == 1 and not other and arg_field(ex_calls[0][2][0], 1) and joined:
                filtered_after_join = True
            else:
                why.append("the filter does not test exists() of the joined path")
    chk.ok("C11-a/insert", "convert_dir", "one entry per table row: the chain is collected into the map", coll[0][1].get("sp"))
    chk.require(joined and paired, "C11-a/row-pairing", "convert_dir",
                "id and path do not stay paired through the iterator chain: %s" % "; ".join(why)[:160], "(row.id, dir.join(row.path))", coll[0][1].get("sp"))
    chk.require(filtered_after_join, "C11-a/only-existing", "convert_dir", "a file is announced without checking that it exists", "filter(exists)",
                coll[0][1].get("sp"))
    return True


def table(chk, zvt):
    b = zvt.bodies.get(CD)
    if not chk.require(b is not None, "C11-a/anchor", "convert_dir", "not found", "", nontrivial=False):
        return
    ex = Ex(b)
    rows = None
    for i in sorted(b.reachable(0)):
        for st in b.blocks[i]["stmts"]:
            if st["s"] == "assign" and st["rv"]["r"] == "agg" and st["rv"]["kind"] == "array":
                e = ex.rvalue(st["rv"])
                r = []
                for tup in e[2]:
                    if tup[0] == "agg" and tup[1] == "tuple" and len(tup[2]) == 2:
                        p = [x for x in walk(tup[2][0]) if x[0] == "const" and isinstance(x[1], str)]
                        idv = tup[2][1]
                        if p and idv[0] == "const":
                            r.append((p[0][1], idv[1]))
                if r and (rows is None or len(r) > len(rows)):
                    rows = r
    if rows is None:
        # the table as a named constant (`const VALID_PATHS: [(&str, u8); 21] = [..]`) that convert_dir iterates
        import json as _json
        names = set()
        for i in sorted(b.reachable(0)):
            for m_ in __import__("re").finditer(r'"uneval": "([^"]+)"', _json.dumps(b.blocks[i])):
                names.add(m_.group(1))
        for cb_ in list(zvt.bodies.values()):
            if cb_.raw.get("parent") == b.id or cb_.id.startswith(b.id + "::{closure"):
                for blk_ in cb_.blocks:
                    for m_ in __import__("re").finditer(r'"uneval": "([^"]+)"', _json.dumps(blk_)):
                        names.add(m_.group(1))
        for nm_ in sorted(names):
            kb = zvt.bodies.get(nm_)
            if kb is None:
                continue
            kex = Ex(kb)
            for i in sorted(kb.reachable(0)):
                for st in kb.blocks[i]["stmts"]:
                    if st["s"] == "assign" and st["rv"]["r"] == "agg" and st["rv"]["kind"] == "array":
                        e = kex.rvalue(st["rv"])
                        r = []
                        for tup in e[2]:
                            if tup[0] == "agg" and tup[1] == "tuple" and len(tup[2]) == 2:
                                p = [x for x in walk(tup[2][0]) if x[0] == "const" and isinstance(x[1], str)]
                                idv = tup[2][1]
                                if p and idv[0] == "const":
                                    r.append((p[0][1], idv[1]))
                        if r and (rows is None or len(r) > len(rows)):
                            rows = r
    if not chk.require(rows is not None, "C11-a/table", "convert_dir", "path/id table not found", "", b.sp()):
        return
    ids = [r[1] for r in rows]
    paths = [r[0] for r in rows]
    chk.require(len(set(ids)) == len(ids), "C11-a/distinct-ids", "convert_dir", "two files share an id: %s" % sorted(ids), "%d distinct ids" % len(ids), b.sp())
    chk.require(len(set(paths)) == len(paths), "C11-a/distinct-paths", "convert_dir", "a path is listed twice", "%d distinct paths" % len(paths), b.sp())
    chk.floor("recognised files", len(rows), 21)
    ins = [(bb, t) for bb, t in b.calls() if callee(t) == "std::collections::hash::map::HashMap::<K, V, S, A>::insert"]
    if not ins and pipeline_form(chk, b, zvt):
        return
    if chk.require(len(ins) == 1, "C11-a/insert", "convert_dir", "expected one insert", "", b.sp()):
        bb, t = ins[0]
        k, v = ex.operand(t["args"][1]), ex.operand(t["args"][2])
        kf, _ = fields_of(strip_ref(k))
        nk = [c for c in walk(k) if c[0] == "call" and c[1].endswith("Iterator::next")]
        nv = [c for c in walk(v) if c[0] == "call" and c[1].endswith("Iterator::next")]
        vf = [fields_of(x)[0] for x in walk(v) if x[0] == "proj" and x[1][0] == "call" and x[1][1].endswith("Iterator::next")]
        good = kf[-3:] == ["@Some", "0", "1"] and nk and nv and nk[0][3] == nv[0][3] and any(f_[-3:] == ["@Some", "0", "0"] for f_ in vf) and \
            bool([c for c in walk(v) if c[0] == "call" and c[1] == "std::path::Path::join"])
        chk.require(good, "C11-a/row-pairing", "convert_dir", "id and path inserted do not come from the same table row: %s -> %s" % (show(k)[:60], show(v)[:80]),
                    "(row.id, dir.join(row.path))", t.get("sp"))
        ex_sw = [i for i in sorted(b.reachable(0)) if b.blocks[i]["term"]["t"] == "switch" and
                 any(c[0] == "call" and c[1] == "std::path::Path::exists" for c in walk(ex.operand(b.blocks[i]["term"]["d"])))]
        ok = False
        if len(ex_sw) == 1:
            tt = b.blocks[ex_sw[0]]["term"]
            true_t = tt["else"]
            seen = set()
            st = [0]
            reach_wo = False
            while st:
                x = st.pop()
                if x in seen:
                    continue
                seen.add(x)
                if x == bb:
                    reach_wo = True
                    break
                for s_ in b.succ[x]:
                    if x == ex_sw[0] and s_ == true_t:
                        continue
                    st.append(s_)
            ok = not reach_wo
        chk.require(ok, "C11-a/only-existing", "convert_dir", "a file is announced without checking that it exists", "under exists()", t.get("sp"))
