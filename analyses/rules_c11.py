"""C11 — firmware upload sends exactly the requested bytes of the right file."""
import seqcheck
from mirlite import callee, ty_str
from expr import Ex, show, walk, strip_ref

EXPLANATION = (
    "Bit-identity with the file on disk for every content, short reads of read_at and the id table against Feig's manual "
    "are NOT decided (I/O semantics / no independent copy of the table). Decided from the MIR of convert_dir and of the "
    "WriteFile stream coroutine (expression trees by def-use): (a) the path->id table has pairwise distinct ids and paths, "
    "an entry is announced only if its file exists, and id and path of one entry come from the same table row; (b) "
    "manifest wiring: one tlv::File per map entry with file_id <- key, file_size <- seek(End(0)) of the file opened from "
    "that entry's path, offset and payload absent, all pushed into the vector that is sent as the WriteFile packet "
    "(password <- caller's); (c) answer wiring in the data-request arm: the WriteData packet echoes request.file_id and "
    "request.file_offset and carries buf[..n].to_vec() where n is the result of read_at(file, &mut buf, "
    "request.file_offset as u64), file is opened from files.get(request.file_id) - the same map the manifest was built "
    "from - and buf has the configured block size; (d) the five refusal points (no tlv / no file / no id / no offset / "
    "unknown id) are `ok_or(..)?` steps whose failure edge yields one error and ends the stream without any write "
    "(protocol monitor of C05/C06 on this sequence); (e) the raw payload encoding is the identity in both directions "
    "and is framed tag || BER length || bytes (rules of C01).")
RULE = ("expression provenance of every field of the manifest entries and of the WriteData answer; constant table "
        "distinctness; monitor findings for the WriteFile sequence; identity of the Custom encoder/decoder.")

WF = "zvt::feig::sequences::WriteFile::into_stream::{closure#0}"
CD = "zvt::feig::sequences::convert_dir"
TFILE = "zvt::feig::packets::tlv::File::File"


def fields_of(e):
    f = []
    base = e
    while base[0] == "proj":
        f = list(base[2]) + f
        base = base[1]
    if base[0] == "path":
        f = list(base[2]) + f
    return f, base


WRAPPERS = ("core::option::Option::<T>::ok_or", "core::option::Option::<T>::as_ref", "core::ops::deref::Deref::deref",
            "core::option::Option::<T>::unwrap", "core::clone::Clone::clone", "core::option::Option::<T>::copied",
            "core::option::Option::<T>::cloned")


def deep_fields(e):
    """Field chain of an access path that goes through Option plumbing:
    ok_or(as_ref(&X.a)).@Ok.0.b  ==>  fields of X + [a, @Ok, 0, b]."""
    e = strip_ref(e)
    f, base = fields_of(e)
    guard = 0
    while base[0] == "call" and base[1] in WRAPPERS and base[2] and guard < 16:
        guard += 1
        f2, base = fields_of(strip_ref(base[2][0]))
        f = f2 + f
    return f, base


def agg_named(e, name):
    return [x for x in walk(e) if x[0] == "agg" and x[1] == name]


def fld(agg, name):
    return agg[2][agg[3].index(name)] if name in agg[3] else None


def unwrap_some(e):
    if e is not None and e[0] == "agg" and e[1].endswith("Option::Some"):
        return e[2][0]
    return None


def is_none(e):
    return e is not None and e[0] == "agg" and e[1].endswith("Option::None")


def calls_in(e, name):
    return [x for x in walk(e) if x[0] == "call" and x[1] == name]


def run(ctx, chk):
    zvt = ctx.crate("zvt")
    table(chk, zvt)
    b = zvt.bodies.get(WF)
    if not chk.require(b is not None, "C11/anchor", "WriteFile::into_stream", "stream body not found", "", nontrivial=False):
        return
    ex = Ex(b)
    # ---------------- (b) manifest
    pushes = [(bb, t) for bb, t in b.calls() if callee(t) == "alloc::vec::Vec::<T, A>::push"]
    mf = [(bb, t) for bb, t in pushes if agg_named(ex.operand(t["args"][1]), TFILE)]
    if chk.require(len(mf) == 1, "C11-b/manifest-entry", "WriteFile", "expected one manifest push of tlv::File, found %d" % len(mf), "", b.sp()):
        bb, t = mf[0]
        e = ex.operand(t["args"][1])
        f = agg_named(e, TFILE)[0]
        fid = unwrap_some(fld(f, "file_id"))
        fsz = unwrap_some(fld(f, "file_size"))

        def from_map_entry(x, comp):
            fl, base = fields_of(strip_ref(x))
            nx = [c for c in walk(x) if c[0] == "call" and c[1].endswith("Iterator::next")]
            it = [c for c in walk(x) if c[0] == "call" and c[1].endswith("HashMap::<K, V, S, A>::iter")]
            cd = calls_in(x, CD)
            return bool(nx and it and cd) and fl[-3:] == ["@Some", "0", comp]
        chk.require(fid is not None and from_map_entry(fid, "0"), "C11-b/manifest-id", "tlv::File.file_id",
                    "announced id is %s, not the key of the directory map entry" % (show(fid)[:100] if fid else None), "= map key", t.get("sp"))
        ok = False
        if fsz is not None:
            x = strip_ref(fsz)
            while x[0] == "cast":
                x = strip_ref(x[1])
            seeks = calls_in(x, "std::io::Seek::seek")
            if seeks and x[0] == "proj" and x[1] is seeks[0] or (seeks and x[0] == "proj" and x[1][0] == "call" and x[1][1] == "std::io::Seek::seek"):
                s_ = x[1]
                whence = s_[2][1]
                opened = calls_in(s_[2][0], "std::fs::File::open")
                ok = whence[0] == "agg" and whence[1].endswith("SeekFrom::End") and whence[2][0] == ("const", 0) and \
                    bool(opened) and from_map_entry(opened[0][2][0], "1")
        chk.require(ok, "C11-b/manifest-size", "tlv::File.file_size",
                    "announced size is %s, not seek(End(0)) of the file opened from that entry's path" % (show(fsz)[:120] if fsz else None),
                    "= seek(End(0)) of entry's file", t.get("sp"))
        chk.require(is_none(fld(f, "file_offset")) and is_none(fld(f, "payload")), "C11-b/manifest-bare", "tlv::File",
                    "manifest entries carry an offset or payload", "offset/payload absent", t.get("sp"), nontrivial=False)
        vec_arg = ex.operand(t["args"][0])
        wacks = [(b2, t2) for b2, t2 in b.calls() if callee(t2) == "zvt::io::PacketTransport::<S>::write_packet_with_ack"]
        if chk.require(len(wacks) == 1, "C11-b/manifest-sent", "WriteFile", "expected one write_packet_with_ack", "", b.sp()):
            pk = ex.operand(wacks[0][1]["args"][1])
            wf = agg_named(pk, "zvt::feig::packets::WriteFile::WriteFile")
            inner = agg_named(pk, "zvt::feig::packets::tlv::WriteFile::WriteFile")
            good = bool(wf) and bool(inner) and show(strip_ref(fld(inner[0], "files"))) == show(strip_ref(vec_arg)) and \
                strip_ref(fld(wf[0], "password"))[0] == "path" and strip_ref(fld(wf[0], "password"))[1] == "password"
            chk.require(good, "C11-b/manifest-sent", "WriteFile", "the packet sent does not carry the manifest vector / the caller's password",
                        "WriteFile{password, files}", wacks[0][1].get("sp"))
            # the push loop iterates the whole map and precedes the send
            chk.require(b.dominates(bb, wacks[0][0]) or wacks[0][0] in b.reachable(bb), "C11-b/manifest-complete", "WriteFile",
                        "the command is sent before the manifest is built", "", b.sp(), nontrivial=False)
    # ---------------- (c) answer
    wr = [(bb, t) for bb, t in b.calls() if callee(t) == "zvt::io::PacketTransport::<S>::write_packet" and
          ty_str(t["f"]["a"][-1]) == "zvt::feig::packets::WriteData"]
    if chk.require(len(wr) == 1, "C11-c/answer", "WriteFile", "expected one write of WriteData, found %d" % len(wr), "", b.sp()):
        bb, t = wr[0]
        pk = ex.operand(t["args"][1])
        f = agg_named(pk, TFILE)
        if chk.require(len(f) == 1, "C11-c/answer", "WriteData", "answer does not contain one tlv::File", "", t.get("sp")):
            f = f[0]

            def req_field(x, name):
                fl, base = deep_fields(x)
                while len(fl) >= 2 and fl[-2] in ("@Ok", "@Some", "@Continue") and fl[-1] == "0":
                    fl = fl[:-2]
                return "@RequestForData" in fl and fl[-1:] == [name] and bool(calls_in(x, "zvt::io::PacketTransport::<S>::read_packet"))
            chk.require(req_field(fld(f, "file_id"), "file_id"), "C11-c/echo-id", "WriteData.file.file_id",
                        "answer id is %s, not the requested id" % show(fld(f, "file_id"))[:100], "= request.file_id", t.get("sp"))
            chk.require(req_field(fld(f, "file_offset"), "file_offset"), "C11-c/echo-offset", "WriteData.file.file_offset",
                        "answer offset is %s, not the requested offset" % show(fld(f, "file_offset"))[:100], "= request.file_offset", t.get("sp"))
            chk.require(is_none(fld(f, "file_size")), "C11-c/no-size", "WriteData.file.file_size", "answer carries a size", "absent", t.get("sp"),
                        nontrivial=False)
            pay = unwrap_some(fld(f, "payload"))
            ok = False
            why = show(pay)[:140] if pay else None
            if pay is not None and pay[0] == "call" and pay[1] == "alloc::slice::<impl [T]>::to_vec":
                sl = strip_ref(pay[2][0])
                if sl[0] == "call" and sl[1] == "core::ops::index::Index::index":
                    base, rng = strip_ref(sl[2][0]), strip_ref(sl[2][1])
                    if rng[0] == "agg" and rng[1].endswith("RangeTo::RangeTo"):
                        n = strip_ref(rng[2][0])
                        ra = calls_in(n, "std::os::unix::fs::FileExt::read_at")
                        if ra and n[0] == "proj" and n[1][0] == "call" and n[1][1].endswith("read_at"):
                            r = n[1]
                            file_e, buf_e, off_e = r[2]
                            opened = calls_in(file_e, "std::fs::File::open")
                            key_ok = path_ok = False
                            if opened:
                                gets = calls_in(opened[0][2][0], "std::collections::hash::map::HashMap::<K, V, S, A>::get")
                                if gets:
                                    path_ok = bool(calls_in(gets[0][2][0], CD))
                                    key_ok = req_field(gets[0][2][1], "file_id")
                            buf_ok = show(strip_ref(base)) in show(buf_e) and base[0] == "call" and base[1] == "alloc::vec::from_elem" and \
                                any(x[0] == "path" and x[1] == "adpu_size" for x in walk(base[2][1]))
                            o = strip_ref(off_e)
                            off_ok = o[0] == "cast" and o[2] == "u64" and req_field(o[1], "file_offset")
                            ok = key_ok and path_ok and buf_ok and off_ok
                            why = "file key ok=%s map ok=%s buffer ok=%s offset ok=%s" % (key_ok, path_ok, buf_ok, off_ok)
            chk.require(ok, "C11-c/payload", "WriteData.file.payload",
                        "payload is not buf[..read_at(file_of(request.file_id), &mut buf, request.file_offset)]: %s" % why,
                        "buf[..n], n = read_at(files[request.file_id], buf, request.file_offset)", t.get("sp"))
    # ---------------- (d) refusals
    okors = [(bb, t) for bb, t in b.calls() if callee(t) == "core::option::Option::<T>::ok_or"]
    chk.require(len(okors) >= 5, "C11-d/refusal-points", "WriteFile", "expected five ok_or refusal points, found %d" % len(okors),
                "%d ok_or(..)? steps" % len(okors), b.sp())
    results, _ = seqcheck.run_all(ctx)
    res = results.get("zvt::feig::sequences::WriteFile")
    if chk.require(res is not None and not res.get("skipped"), "C11-d/monitor", "WriteFile", "sequence not analysed by the protocol monitor", "",
                   nontrivial=False):
        for f in res["findings"]:
            chk.fail("C11-d/" + f.rule, "WriteFile", f.msg, f.bb, path=f.trace)
        if not res["findings"]:
            chk.ok("C11-d/monitor", "WriteFile", "no write after any failed step; product states %s" % res["stats"].get("product_states"), b.sp())
    # ---------------- (e) raw payload identity
    for nm, want in (("encode", "core::clone::Clone::clone"), ("decode", "alloc::slice::<impl [T]>::to_vec")):
        cb = [x for x in zvt.bodies.values() if x.raw.get("impl_trait") == "zvt_builder::encoding::Encoding" and
              ty_str(x.raw.get("impl_self")) == "zvt::feig::packets::tlv::Custom" and x.raw.get("name") == nm]
        ok = len(cb) == 1
        if ok:
            calls = [callee(t) for _, t in cb[0].calls()]
            ok = calls == [want]
        chk.require(ok, "C11-e/raw-identity", "Custom::" + nm, "raw payload %s is not the identity copy" % nm, want.rsplit("::", 1)[-1],
                    cb[0].sp() if cb else None)
    chk.floor("C11 obligations", len(chk.obligations), 14)


def table(chk, zvt):
    b = zvt.bodies.get(CD)
    if not chk.require(b is not None, "C11-a/anchor", "convert_dir", "not found", "", nontrivial=False):
        return
    ex = Ex(b)
    rows = None
    for i in sorted(b.reachable(0)):
        for st in b.blocks[i]["stmts"]:
            if st["s"] == "assign" and st["rv"]["r"] == "agg" and st["rv"]["kind"] == "array":
                e = ex.rvalue(st["rv"])
                r = []
                for tup in e[2]:
                    if tup[0] == "agg" and tup[1] == "tuple" and len(tup[2]) == 2:
                        p = [x for x in walk(tup[2][0]) if x[0] == "const" and isinstance(x[1], str)]
                        idv = tup[2][1]
                        if p and idv[0] == "const":
                            r.append((p[0][1], idv[1]))
                if r and (rows is None or len(r) > len(rows)):
                    rows = r
    if not chk.require(rows is not None, "C11-a/table", "convert_dir", "path/id table not found", "", b.sp()):
        return
    ids = [r[1] for r in rows]
    paths = [r[0] for r in rows]
    chk.require(len(set(ids)) == len(ids), "C11-a/distinct-ids", "convert_dir", "two files share an id: %s" % sorted(ids), "%d distinct ids" % len(ids), b.sp())
    chk.require(len(set(paths)) == len(paths), "C11-a/distinct-paths", "convert_dir", "a path is listed twice", "%d distinct paths" % len(paths), b.sp())
    chk.floor("recognised files", len(rows), 21)
    ins = [(bb, t) for bb, t in b.calls() if callee(t) == "std::collections::hash::map::HashMap::<K, V, S, A>::insert"]
    if chk.require(len(ins) == 1, "C11-a/insert", "convert_dir", "expected one insert", "", b.sp()):
        bb, t = ins[0]
        k, v = ex.operand(t["args"][1]), ex.operand(t["args"][2])
        kf, _ = fields_of(strip_ref(k))
        nk = [c for c in walk(k) if c[0] == "call" and c[1].endswith("Iterator::next")]
        nv = [c for c in walk(v) if c[0] == "call" and c[1].endswith("Iterator::next")]
        vf = [fields_of(x)[0] for x in walk(v) if x[0] == "proj" and x[1][0] == "call" and x[1][1].endswith("Iterator::next")]
        good = kf[-3:] == ["@Some", "0", "1"] and nk and nv and nk[0][3] == nv[0][3] and any(f_[-3:] == ["@Some", "0", "0"] for f_ in vf) and \
            bool([c for c in walk(v) if c[0] == "call" and c[1] == "std::path::Path::join"])
        chk.require(good, "C11-a/row-pairing", "convert_dir", "id and path inserted do not come from the same table row: %s -> %s" % (show(k)[:60], show(v)[:80]),
                    "(row.id, dir.join(row.path))", t.get("sp"))
        ex_sw = [i for i in sorted(b.reachable(0)) if b.blocks[i]["term"]["t"] == "switch" and
                 any(c[0] == "call" and c[1] == "std::path::Path::exists" for c in walk(ex.operand(b.blocks[i]["term"]["d"])))]
        ok = False
        if len(ex_sw) == 1:
            tt = b.blocks[ex_sw[0]]["term"]
            true_t = tt["else"]
            seen = set()
            st = [0]
            reach_wo = False
            while st:
                x = st.pop()
                if x in seen:
                    continue
                seen.add(x)
                if x == bb:
                    reach_wo = True
                    break
                for s_ in b.succ[x]:
                    if x == ex_sw[0] and s_ == true_t:
                        continue
                    st.append(s_)
            ok = not reach_wo
        chk.require(ok, "C11-a/only-existing", "convert_dir", "a file is announced without checking that it exists", "under exists()", t.get("sp"))
