import os, sys, facts, mirlite
out, idx = facts.build()
crate = sys.argv[1]; pat = sys.argv[2]
d = facts.load(out, idx, crate)
c = mirlite.Crate(d, lower=bool(os.environ.get("ZVT_LOWER")))
for b in c.bodies.values():
    if pat in b.id:
        print(mirlite.dump_body(b.raw)); print()
