"""Layout-table extraction from struct codec bodies (`impl Encoding<S> for Default`).

For every such impl we extract, *separately* for the encoder and the decoder, the list of
rows (field, FieldTy, L, E, TE, tag).  Nothing here matches source text: rows are the
generic arguments and constant operands of resolved calls to
`ZvtSerializerImpl::{serialize_tagged,deserialize_tagged}`, and the field a value belongs
to is established by def-use (encoder: the `&input.field` argument; decoder: the local that
ends up in the struct aggregate).
"""
from mirlite import ty_str, callee, op_place
from flow import Tracer, NPlace

SER = "zvt_builder::ZvtSerializerImpl::serialize_tagged"
DESER = "zvt_builder::ZvtSerializerImpl::deserialize_tagged"
ENCODING = "zvt_builder::encoding::Encoding"
DEFAULT = "zvt_builder::encoding::Default"


class ShapeError(Exception):
    """The body does not have a shape the extractor understands (fail closed)."""

    def __init__(self, body, msg):
        super().__init__("%s: %s" % (body.id, msg))
        self.body = body
        self.msg = msg


def codec_impl_bodies(crate):
    """struct name -> {'encode': Body, 'decode': Body, 'ty': T} for impls of
    Encoding<S> for Default where S is an ADT defined in this crate."""
    out = {}
    for b in crate.bodies.values():
        r = b.raw
        if r.get("impl_trait") != ENCODING or r["defkind"] != "AssocFn":
            continue
        if ty_str(r.get("impl_self")) != DEFAULT:
            continue
        ta = r["impl_trait_args"]
        if len(ta) < 2:
            continue
        s = ta[1]
        if s.get("k") != "adt" or s["n"] not in crate.adts:
            continue
        if crate.adts[s["n"]]["kind"] != "struct":
            continue
        out.setdefault(s["n"], {"ty": s})[r["name"]] = b
    return out


def row_key(row):
    return (row["field"], ty_str(row["ty"]), ty_str(row["L"]), ty_str(row["E"]), ty_str(row["TE"]),
            row["tag"])


def _ser_args(t):
    a = t["f"]["a"]
    # [Self, L, E, TE]
    return a[0], a[1], a[2], a[3]


def extract_encode(body):
    """Ordered rows of the encoder.  Requires: loop-free straight-line normal flow, the
    returned vector is `output`, every serialize_tagged result is appended to `output`
    exactly once and nothing else is."""
    tr = Tracer(body)
    if body.back_edges():
        raise ShapeError(body, "encoder contains a loop")
    rows = []
    appended = []  # (bb, src local normalised)
    order = body.rpo()
    pos = {b: i for i, b in enumerate(order)}
    ser_calls = {}
    for bb, t in body.calls():
        n = callee(t)
        if n == SER:
            ty, L, E, TE = _ser_args(t)
            v = tr.value(t["args"][0])
            field = None
            if v.kind == "ref":
                np = v.place.strip_deref()
                fs = np.fields()
                if np.l == 1 and len(fs) == 1:
                    field = fs[0]
            if field is None:
                raise ShapeError(body, "serialize_tagged argument is not `&input.<field>` at bb%d" % bb)
            tag = tr.tag_option(t["args"][1])
            if tag is None or tag[0] not in ("none", "some") or (tag[0] == "some" and tag[1] is None):
                raise ShapeError(body, "tag operand of serialize_tagged is not a constant at bb%d" % bb)
            ser_calls[t["dest"]["l"]] = dict(field=field, ty=ty, L=L, E=E, TE=TE,
                                             tag=(None if tag[0] == "none" else tag[1]), bb=bb)
        elif n == "alloc::vec::Vec::<T, A>::append":
            dst = tr.value(t["args"][0])
            src = tr.value(t["args"][1])
            if dst.kind != "ref" or src.kind != "ref":
                raise ShapeError(body, "append operands not traceable at bb%d" % bb)
            appended.append((bb, dst.place.strip_deref(), src.place.strip_deref()))
    # returned vector
    ret_defs = tr.whole_defs(0)
    if len(ret_defs) != 1 or ret_defs[0][2] != "assign":
        raise ShapeError(body, "return place has %d definitions" % len(ret_defs))
    out_np = tr.nplace(op_place(ret_defs[0][3]["rv"]["o"])) if ret_defs[0][3]["rv"]["r"] == "use" and \
        op_place(ret_defs[0][3]["rv"]["o"]) else None
    if out_np is None or out_np.p:
        raise ShapeError(body, "returned value is not a local vector")
    used = set()
    for bb, dst, src in sorted(appended, key=lambda x: pos.get(x[0], 1 << 30)):
        if dst != out_np:
            raise ShapeError(body, "append into a vector that is not the returned one (bb%d)" % bb)
        if src.p or src.l not in ser_calls:
            raise ShapeError(body, "appended value is not a serialize_tagged result (bb%d)" % bb)
        if src.l in used:
            raise ShapeError(body, "a serialize_tagged result is appended twice (bb%d)" % bb)
        used.add(src.l)
        rows.append(ser_calls[src.l])
    missing = set(ser_calls) - used
    if missing:
        raise ShapeError(body, "serialize_tagged result never appended: fields %s" %
                         [ser_calls[m]["field"] for m in missing])
    # straight line: every row call dominates the return
    for r in rows:
        rets = [i for i in body.reachable(0) if body.blocks[i]["term"]["t"] == "return"]
        for rt in rets:
            if not body.dominates(r["bb"], rt):
                raise ShapeError(body, "row %s is emitted conditionally" % r["field"])
    return rows


class DecodeInfo:
    pass


def extract_decode(body):
    """Returns DecodeInfo with:
       positional: ordered rows (tag None)
       tagged:     rows with tag (from arms of the dispatch switch)
       switch_bb, loop header, arm facts for C13, required set, struct field wiring."""
    tr = Tracer(body)
    info = DecodeInfo()
    info.body = body
    info.tr = tr
    order = body.rpo()
    pos = {b: i for i, b in enumerate(order)}
    # --- all deserialize_tagged calls
    calls = []
    for bb, t in body.calls():
        if callee(t) == DESER:
            ty, L, E, TE = _ser_args(t)
            tag = tr.tag_option(t["args"][1])
            if tag is None or tag[0] not in ("none", "some") or (tag[0] == "some" and tag[1] is None):
                raise ShapeError(body, "tag operand of deserialize_tagged is not a constant at bb%d" % bb)
            src = tr.value(t["args"][0])
            if src.kind != "ref":
                raise ShapeError(body, "input of deserialize_tagged not traceable at bb%d" % bb)
            calls.append(dict(bb=bb, term=t, ty=ty, L=L, E=E, TE=TE,
                              tag=(None if tag[0] == "none" else tag[1]),
                              src=src.place.strip_deref(), dest=t["dest"]["l"]))
    info.calls = calls
    # --- struct aggregate feeding the Ok return
    struct_ty = body.raw["impl_trait_args"][1]
    aggs = []
    for i in sorted(body.reachable(0)):
        for j, st in enumerate(body.blocks[i]["stmts"]):
            if st["s"] == "assign" and st["rv"]["r"] == "agg" and st["rv"]["kind"] == "adt" \
                    and st["rv"]["n"] == struct_ty["n"]:
                aggs.append((i, j, st))
    if len(aggs) != 1:
        raise ShapeError(body, "expected exactly one construction of the struct, found %d" % len(aggs))
    info.agg_bb = aggs[0][0]
    agg = aggs[0][2]["rv"]
    by_bb = {c["bb"]: c for c in calls}
    for c in calls:
        c["field"] = None
        c["rem_to"] = None
    info.field_sources = {}     # field -> list of ('deser', bb) | ('default', callee) | ('other', desc)
    info.field_locals = {}
    for fname, o in zip(agg["fields"], agg["ops"]):
        srcs = []
        p = op_place(o)
        if p is None:
            srcs.append(("other", "constant"))
            info.field_sources[fname] = srcs
            continue
        r = comp_of_operand(body, tr, o)
        if r is not None:
            srcs.append(("deser", r[0], r[1]))
        else:
            np = tr.nplace(p)
            if np.p:
                srcs.append(("other", "projection %r" % (np,)))
            else:
                info.field_locals[fname] = np.l
                for d in tr.defs.get(np.l, []):
                    if d[2] == "call":
                        srcs.append(("default", callee_res_name(d[3])))
                    elif d[2] == "assign" and not d[3]["p"]["p"]:
                        rv = d[3]["rv"]
                        if rv["r"] == "use":
                            r2 = comp_of_operand(body, tr, rv["o"])
                            srcs.append(("deser", r2[0], r2[1]) if r2 else ("other", "assign"))
                        else:
                            srcs.append(("other", rv["r"]))
                    else:
                        srcs.append(("other", "partial write"))
                # values merged into the field through a `&mut field` call (e.g. Vec::extend / push)
                for (wbb, wt) in tr.mut_writers().get(np.l, []):
                    hit = False
                    for a in wt["args"]:
                        r3 = comp_of_operand(body, tr, a)
                        if r3 is not None:
                            srcs.append(("deser", r3[0], r3[1]))
                            hit = True
                    if not hit:
                        srcs.append(("other", "mutated by %s" % callee(wt)))
        info.field_sources[fname] = srcs
        for s_ in srcs:
            if s_[0] == "deser" and s_[2] == 0 and s_[1] in by_bb:
                if by_bb[s_[1]]["field"] is not None and by_bb[s_[1]]["field"] != fname:
                    raise ShapeError(body, "one decoded value feeds two fields")
                by_bb[s_[1]]["field"] = fname
    # remainder threading: which named local receives component 1 of each call
    for l in range(len(body.locals)):
        for d in tr.whole_defs(l):
            if d[2] != "assign":
                continue
            rv = d[3]["rv"]
            r = None
            if rv["r"] == "use":
                r = comp_of_operand(body, tr, rv["o"])
            elif rv["r"] == "ref":
                np = tr.nplace(rv["p"])
                r = trace_to_deser(body, tr, NPlace(np.l, [e for e in np.p if e != "deref"]))
            if r is not None and r[1] == 1 and r[0] in by_bb and \
                    (body.local_name(l) is not None or l <= body.raw["arg_count"]):
                by_bb[r[0]]["rem_to"] = l
    for c in calls:
        if c["field"] is None:
            raise ShapeError(body, "result of deserialize_tagged at bb%d does not reach a struct field"
                             % c["bb"])
    # --- dispatch switch: SwitchInt on the .0 of a Tag decoded by Default from the input
    info.switch_bb = None
    info.arms = {}
    switches = []
    for i in sorted(body.reachable(0)):
        t = body.blocks[i]["term"]
        if t["t"] != "switch":
            continue
        p = op_place(t["d"])
        if p is None:
            continue
        np = tr.nplace(p)
        if not p["p"] or not isinstance(p["p"][-1], dict) or p["p"][-1].get("f") != 0:
            continue
        # type of the value the final `.0` is applied to
        base_ty = body.local_ty(p["l"])
        for e in p["p"][:-1]:
            if e == "deref":
                base_ty = base_ty["t"] if base_ty and base_ty.get("k") in ("ref", "ptr") else None
            elif isinstance(e, dict) and "f" in e:
                base_ty = e.get("ty")
            elif isinstance(e, dict) and "dc" in e:
                pass
            else:
                base_ty = None
        if ty_str(base_ty) == "zvt_builder::Tag":
            switches.append((i, t, NPlace(p["l"], [])))
    info.switches = switches
    tagged_calls = [c for c in calls if c["tag"] is not None]
    info.positional = sorted([c for c in calls if c["tag"] is None], key=lambda c: pos[c["bb"]])
    info.tagged = tagged_calls
    return info


def trace_to_deser(body, tr, np, depth=0):
    """Backward: which deserialize_tagged call (bb) and which tuple component (0 value /
    1 remainder) does the normalised place `np` denote?  Looks through `?` (Try::branch)
    and `match`/`if let` payload projections.  Returns (bb, comp) or None."""
    if depth > 8:
        return None
    d = tr.single_def(np.l)
    if d is None or d[2] != "call":
        return None
    t = d[3]
    n = callee(t)
    fields = [e[1] for e in np.p if isinstance(e, tuple) and e[0] == "f"]
    if n == "core::ops::try_trait::Try::branch":
        p = op_place(t["args"][0])
        if p is None:
            return None
        inner = tr.nplace(p)
        # drop the `.0` that selects the Continue payload
        if not fields:
            return None
        rest = fields[1:]
        np2 = NPlace(inner.l, list(inner.p) + [("f", x, None) for x in rest])
        # mark that the Ok payload has already been selected
        return _deser_comp(body, tr, np2, payload_selected=True, depth=depth + 1)
    return _deser_comp(body, tr, np, payload_selected=False, depth=depth)


def _deser_comp(body, tr, np, payload_selected, depth):
    d = tr.single_def(np.l)
    if d is None or d[2] != "call":
        return None
    t = d[3]
    n = callee(t)
    fields = [e[1] for e in np.p if isinstance(e, tuple) and e[0] == "f"]
    if n == DESER:
        if not payload_selected:
            if not fields:
                return None
            fields = fields[1:]          # `(r as Ok).0`
        if len(fields) != 1:
            return None
        return (d[0], fields[0])
    if n == "core::ops::try_trait::Try::branch":
        return trace_to_deser(body, tr, np, depth + 1)
    return None


def comp_of_operand(body, tr, o):
    """(bb of deserialize_tagged call, tuple component) an operand denotes, or None."""
    v = tr.value(o)
    if v.kind == "place":
        return trace_to_deser(body, tr, v.place)
    if v.kind == "ref":
        np = v.place
        return trace_to_deser(body, tr, NPlace(np.l, [e for e in np.p if e != "deref"]))
    if v.kind == "call":
        return None
    return None


def callee_res_name(t):
    f = t.get("f")
    if not f:
        return "?"
    return (f.get("res") or f)["n"]


# ------------------------------------------------------------------ wire descriptors

INT_SIZES = {"u8": 1, "u16": 2, "u32": 4, "u64": 8, "usize": 8}
LEN = "zvt_builder::length::"
ENC = "zvt_builder::encoding::"


def unwrap_card(ty):
    n = ty_str(ty)
    if ty.get("k") == "adt" and ty["n"] == "core::option::Option":
        return "optional", ty["a"][0]
    if ty.get("k") == "adt" and ty["n"] == "alloc::vec::Vec":
        inner = ty["a"][0]
        return "repeated", inner
    return "one", ty


def descriptor(row, ptr_bytes=8):
    """Canonical wire descriptor of a layout row, independent of attribute spelling."""
    card, inner = unwrap_card(row["ty"])
    L = ty_str(row["L"])
    E = ty_str(row["E"])
    TE = ty_str(row["TE"])
    it = ty_str(inner)
    # raw byte payload: Option<Vec<u8>> / Vec<u8> with a non-default encoding keeps Vec<u8>
    if it == "u8" and card == "repeated" and not E.startswith(ENC):
        card, it = "one", "alloc::vec::Vec<u8, alloc::alloc::Global>"
    if card == "optional":
        c2, inner2 = unwrap_card(inner)
        if c2 == "repeated" and ty_str(inner2) == "u8" and not E.startswith(ENC):
            it = "bytes"
    if it == "alloc::vec::Vec<u8, alloc::alloc::Global>":
        it = "bytes"
    # value
    if it in INT_SIZES:
        size = INT_SIZES[it] if it != "usize" else ptr_bytes
        if E == ENC + "Default":
            value = "int%d" % size if size == 1 else "le%d" % size
        elif E == ENC + "BigEndian":
            value = "int%d" % size if size == 1 else "be%d" % size
        elif E == ENC + "Bcd":
            value = "bcd"
        else:
            value = "custom:%s:%s" % (E, it)
    elif it == "alloc::string::String":
        value = {ENC + "Default": "cp437", ENC + "Hex": "hex", ENC + "Utf8": "utf8"}.get(E, "custom:%s:string" % E)
    elif it == "bytes":
        value = "raw" if not E.startswith(ENC) else "custom:%s:bytes" % E
        if value == "raw":
            value = "raw:" + E
    elif it == "chrono::naive::datetime::NaiveDateTime":
        value = "datetime" if E == ENC + "Default" else "custom:%s:datetime" % E
    elif inner.get("k") == "adt":
        value = "struct:" + inner["n"] if E == ENC + "Default" else "custom:%s:%s" % (E, it)
    else:
        value = "custom:%s:%s" % (E, it)
    # prefix
    if L == LEN + "Empty":
        prefix = "none"
    elif L.startswith(LEN + "Fixed<"):
        n = int(L[len(LEN + "Fixed<"):-1]) if L[len(LEN + "Fixed<"):-1].isdigit() else None
        prefix = "fixed%s" % n
        if value.startswith(("int", "le", "be")) and n is not None and \
                int(value.lstrip("intleb")) == n:
            prefix = "none"
    elif L == LEN + "LlvImpl<2>":
        prefix = "LL"
    elif L == LEN + "LlvImpl<3>":
        prefix = "LLL"
    elif L.startswith(LEN + "LlvImpl<"):
        prefix = "L*" + L[len(LEN + "LlvImpl<"):-1]
    elif L == LEN + "Tlv":
        prefix = "BER"
    elif L == LEN + "Adpu":
        prefix = "APDU"
    else:
        prefix = "custom:" + L
    tagenc = {ENC + "Default": "bmp", ENC + "BigEndian": "be16"}.get(TE, "custom:" + TE)
    return dict(field=row["field"], tag=row["tag"], tagenc=tagenc if row["tag"] is not None else "-",
                prefix=prefix, value=value, card=card)


def desc_key(d):
    return (d["field"], d["tag"], d["tagenc"], d["prefix"], d["value"], d["card"])
