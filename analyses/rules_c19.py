"""C19 — going idle triggers clean-up; end-of-day never runs over open transactions."""
from mirlite import switch_target, callee, ty_str
from client import emptiness_switches, Fn, FEIG, STREAM, HM, NEXT, variant_switches, follow, is_call, mentions_path
from expr import show, walk, strip_ref
from rules_c07 import field_of_agg

EXPLANATION = (
    "Dominance / reachability rules over commit_transaction, cancel_transaction, end_of_day, cancel_pending and "
    "get_pending. Decided: every call of end_of_day from commit/cancel is edge-dominated by the TRUE edge of "
    "HashMap::is_empty(&self.transactions) (never with open transactions); every successful return of commit/cancel is "
    "dominated by that test and, on its true edge, cannot be reached without passing the end_of_day call, whose "
    "failure is propagated; end_of_day runs cancel_pending (propagating its failure) before the End-of-Day exchange; "
    "cancel_pending asks get_pending and reverses exactly the receipts it reports; get_pending queries with receipt "
    "number 0xFFFF and treats an absent / 0xFFFF answer as 'nothing pending'; the End-of-Day abort is tolerated only "
    "for code 0xA0 (tied to C20). Who-may-call: the EndOfDay exchange is started only by end_of_day, and end_of_day "
    "is called only by configure, commit_transaction and cancel_transaction.")
RULE = ("edge-dominance(is_empty true edge -> end_of_day call); cut-reachability(Ok return without end_of_day on the "
        "true edge); call-order dominance in end_of_day/cancel_pending; constant 0xFFFF in get_pending; who-may-call tables.")


def run(ctx, chk):
    crate = ctx.crate("zvt_feig_terminal")
    zvt = ctx.crate("zvt")
    for name in ("commit_transaction", "cancel_transaction"):
        f = Fn(crate, name)
        eod = f.calls(lambda n, t: n == FEIG + "end_of_day")
        # `is_empty()` or any equivalent comparison of `len()` with 0 / 1
        tests = emptiness_switches(f, lambda x: mentions_path(x, "self", ("transactions",)),
                                   len_suffixes=("HashMap::<K, V, S, A>::len",), empty_suffixes=("HashMap::<K, V, S, A>::is_empty",))
        if not chk.require(len(tests) == 1, "C19/idle-test", name,
                           "expected one is_empty() test of the token map, found %d" % len(tests), "", f.sp()):
            continue
        if not chk.require(len(eod) == 1, "C19/eod-call", name, "expected one end_of_day call, found %d" % len(eod), "", f.sp()):
            continue
        tbb, e, true_t, false_t = tests[0]
        ebb, et = eod[0]
        chk.require(f.edge_dominates((tbb, true_t), ebb), "C19/never-over-open", name,
                    "end_of_day can be reached while transactions are still open (not guarded by the is_empty true edge)",
                    "end_of_day only when idle", f.sp(ebb))
        # the test happens after the reversal exchange completed
        traffic = [(bb, t) for bb, t, k in f.traffic_calls() if bb != ebb]
        chk.require(all(tbb in f.reach_from(bb) and bb not in f.reach_from(tbb) for bb, t in traffic), "C19/after-exchange", name,
                    "the idle test is not placed after the reversal exchange", "", f.sp(tbb), nontrivial=False)
        oks = [(bb, x) for bb, x in f.ret_writes() if f.classify_ret(x) == "ok"]
        chk.require(oks and all(f.b.dominates(tbb, bb) for bb, _ in oks), "C19/idle-test-on-success", name,
                    "a successful return does not pass the idle test", "Ok dominated by is_empty test", f.sp(tbb))
        # on the true edge, Ok is unreachable when the end_of_day call is cut
        cut = f.reach_from(true_t, cut_blocks=[ebb])
        chk.require(not [bb for bb, _ in oks if bb in cut], "C19/eod-when-idle", name,
                    "the call can succeed with an empty token map without having run end_of_day", "end_of_day on every idle path",
                    f.sp(true_t))
        # every path from the point where the terminal has completed the reversal exchange to a return
        # (successful or not) passes the idle test
        P = completion_point(f, name)
        if chk.require(P is not None, "C19/completion-point", name, "could not locate where the reversal exchange completes", "",
                       f.sp(), nontrivial=False):
            rets = [i for i in f.reach if f.b.blocks[i]["term"]["t"] == "return"]
            cut = f.reach_from(P, cut_blocks=[tbb])
            chk.require(not [r for r in rets if r in cut] or tbb == P, "C19/cleanup-on-every-exit", name,
                        "after the terminal completed the exchange the call can return without the idle test (and hence without "
                        "clean-up / end-of-day), e.g. through an early error return", "every exit after completion passes the idle test",
                        f.sp(P))
        # failure of end_of_day is propagated
        prop = [(bb, x) for bb, x in f.ret_writes() if (f.classify_ret(x) in ("propagate", "err") and
                any(y[0] == "call" and y[1] == FEIG + "end_of_day" for y in walk(x))) or f.hands_on(x, FEIG + "end_of_day")]
        chk.require(len(prop) >= 1, "C19/eod-failure-reported", name,
                    "a failing end_of_day is not reported to the caller", "`?` on end_of_day", f.sp(ebb))
        # the false edge never reaches an EndOfDay exchange
        fr = f.reach_from(false_t, cut_edges=[(tbb, true_t)])
        chk.require(ebb not in fr, "C19/never-over-open-2", name, "false edge of the idle test reaches end_of_day", "",
                    f.sp(false_t), nontrivial=False)
    # ---- end_of_day
    f = Fn(crate, "end_of_day")
    cp = f.calls(lambda n, t: n == FEIG + "cancel_pending")
    st = [(bb, t) for bb, t in f.stream_calls() if f.seq_of(t) == "zvt::sequences::EndOfDay"]
    # the clean-up may live in its own helper (cancel_pending, as on the pinned tree) or be written out in end_of_day
    has_cp = (FEIG + "cancel_pending::{closure#0}") in crate.bodies
    if not has_cp:
        gp_e = f.calls(lambda n, t: n == FEIG + "get_pending")
        cr_e = f.calls(lambda n, t: n == FEIG + "cancel_transaction_by_receipt_no")
        if chk.require(len(gp_e) == 1 and len(cr_e) == 1 and len(st) == 1, "C19/eod-shape", "end_of_day",
                       "expected the pending query, one reversal call and one EndOfDay exchange, found %d/%d/%d" % (len(gp_e), len(cr_e), len(st)),
                       "", f.sp()):
            chk.require(f.b.dominates(gp_e[0][0], st[0][0]) and cr_e[0][0] not in f.reach_from(st[0][0]), "C19/cleanup-first", "end_of_day",
                        "End-of-Day is requested before dangling pre-authorisations were reversed", "clean-up before EndOfDay", f.sp(st[0][0]))
            prop = [x for bb, x in f.ret_writes() if f.classify_ret(x) in ("propagate", "err") and
                    any(y[0] == "call" and y[1] in (FEIG + "get_pending", FEIG + "cancel_transaction_by_receipt_no") for y in walk(x))]
            chk.require(len(prop) >= 2, "C19/cleanup-failure-reported", "end_of_day",
                        "a failing clean-up is ignored and End-of-Day still runs", "`?` on the query and on the reversal", f.sp(gp_e[0][0]))
            req = f.ex.operand(st[0][1]["args"][0])
            chk.require(any(x[0] == "agg" and x[1] == "zvt::packets::EndOfDay::EndOfDay" for x in walk(req)), "C19/eod-request",
                        "end_of_day", "request is not packets::EndOfDay", "", f.sp(st[0][0]), nontrivial=False)
    elif chk.require(len(cp) == 1 and len(st) == 1, "C19/eod-shape", "end_of_day",
                   "expected one cancel_pending call and one EndOfDay exchange, found %d/%d" % (len(cp), len(st)), "", f.sp()):
        chk.require(f.b.dominates(cp[0][0], st[0][0]) and cp[0][0] != st[0][0], "C19/cleanup-first", "end_of_day",
                    "End-of-Day is requested before dangling pre-authorisations were reversed", "cancel_pending dominates EndOfDay",
                    f.sp(st[0][0]))
        prop = [x for bb, x in f.ret_writes() if f.classify_ret(x) in ("propagate", "err") and
                any(y[0] == "call" and y[1] == FEIG + "cancel_pending" for y in walk(x))]
        chk.require(len(prop) >= 1, "C19/cleanup-failure-reported", "end_of_day",
                    "a failing clean-up is ignored and End-of-Day still runs", "`?` on cancel_pending", f.sp(cp[0][0]))
        # EndOfDay is cut off when cancel_pending failed: stream call is on the Continue edge
        req = f.ex.operand(st[0][1]["args"][0])
        chk.require(any(x[0] == "agg" and x[1] == "zvt::packets::EndOfDay::EndOfDay" for x in walk(req)), "C19/eod-request",
                    "end_of_day", "request is not packets::EndOfDay", "", f.sp(st[0][0]), nontrivial=False)
    # ---- cancel_pending
    f = Fn(crate, "cancel_pending" if has_cp else "end_of_day")
    gp = f.calls(lambda n, t: n == FEIG + "get_pending")
    cr = f.calls(lambda n, t: n == FEIG + "cancel_transaction_by_receipt_no")
    if chk.require(len(gp) == 1 and len(cr) == 1, "C19/pending-shape", "cancel_pending",
                   "expected get_pending and one reversal call, found %d/%d" % (len(gp), len(cr)), "", f.sp()):
        chk.require(f.b.dominates(gp[0][0], cr[0][0]), "C19/query-first", "cancel_pending",
                    "reversal is attempted before the terminal was asked for dangling pre-authorisations", "", f.sp(cr[0][0]))
        arg = f.ex.operand(cr[0][1]["args"][1])
        from_query = any(x[0] == "call" and x[1] == FEIG + "get_pending" for x in walk(arg)) or \
            any(x[0] in ("path", "var") and x[1] == "p" for x in walk(arg))
        srcs = f.tr.sources(cr[0][1]["args"][1], through_calls=lambda n, t: True)
        from_query = from_query and any(s[0] == "call" and s[1] == FEIG + "get_pending" for s in
                                        f.tr.sources(cr[0][1]["args"][1], through_calls=lambda n, t: n != FEIG + "get_pending"))
        pure = not [x for x in walk(arg) if x[0] in ("bin", "un", "cast")]
        chk.require(from_query and pure and not [s for s in srcs if s[0] == "const" and isinstance(s[1], int) and s[1] not in (0, 1)],
                    "C19/reverse-reported", "cancel_pending",
                    "the reversed receipt number does not come from the pending query: %s" % show(arg)[:120],
                    "receipt from get_pending", f.sp(cr[0][0]))
        # every receipt the query reports is reversed: from the point where the loop has taken an item, neither the next item
        # nor a successful return is reachable without passing the reversal call (no `continue` / `break` past it)
        from mirlite import feasible_reach
        nx = [(bb, t) for bb, t in f.b.calls() if callee(t) == "core::iter::traits::iterator::Iterator::next" and bb in f.reach]
        skipped = None
        if len(nx) == 1:
            nbb, nt = nx[0]
            sw = f.b.blocks[nt["to"]]["term"] if nt.get("to") is not None else None
            some_t = None
            if sw is not None and sw["t"] == "switch":
                some_t = dict((v_, tb) for v_, tb in sw["targets"]).get(1, sw["else"])
            if some_t is not None:
                region = feasible_reach(f.b, some_t, cut_blocks=[cr[0][0]])
                ok_rets = {rb for rb, e_ in f.ret_writes() if f.classify_ret(e_) == "ok"}
                skipped = (nbb in region) or bool(ok_rets & region)
        chk.require(skipped is False, "C19/reverse-every-reported", "cancel_pending",
                    "a receipt reported by the pending query can be passed over: the loop reaches its next item or a successful return "
                    "without the reversal" if skipped else "the loop over the reported receipts was not recognised",
                    "each item -> reversal", f.sp(cr[0][0]))
        prop = [x for bb, x in f.ret_writes() if f.classify_ret(x) in ("propagate", "err")]
        chk.require(len(prop) >= 2, "C19/pending-failures-reported", "cancel_pending",
                    "failures of the pending query / reversal are not propagated", "", f.sp(), nontrivial=False)
    # ---- get_pending
    f = Fn(crate, "get_pending")
    st = [(bb, t) for bb, t in f.stream_calls() if f.seq_of(t) == "zvt::sequences::PartialReversal"]
    if chk.require(len(st) == 1, "C19/query-shape", "get_pending", "expected one PartialReversal query", "", f.sp()):
        req = f.ex.operand(st[0][1]["args"][0])
        rn = field_of_agg(req, "zvt::packets::PartialReversal::PartialReversal", "receipt_no")
        chk.require(rn == ("const", 0xFFFF), "C19/query-receipt", "get_pending",
                    "the pending query uses receipt number %s instead of FFFF" % (show(rn) if rn else None), "0xFFFF", f.sp(st[0][0]))
        # other request fields default
        for x in walk(req):
            if x[0] == "agg" and x[1] == "zvt::packets::PartialReversal::PartialReversal":
                for nm, v in zip(x[3], x[2]):
                    if nm == "receipt_no":
                        continue
                    chk.require(any(y[0] == "call" and y[1] == "core::default::Default::default" for y in walk(v)),
                                "C19/query-fields", "get_pending." + nm, "query field %s is set to %s" % (nm, show(v)[:60]),
                                "default", f.sp(st[0][0]), nontrivial=False)
        # the answer: per path through the abort arm (symbolic evaluation), "nothing pending" is reported exactly
        # when the terminal sent no receipt number or the sentinel FFFF, otherwise the reported number is handed on
        pending_answer(chk, f, zvt)
    # ---- who may call
    callers_eod_stream = set()
    callers_eod = set()
    for b in crate.bodies.values():
        root = b.raw.get("root", "")
        for bb, t in b.calls():
            n = callee(t)
            if n.startswith(STREAM) and ty_str(t["f"]["a"][0]) == "zvt::sequences::EndOfDay":
                callers_eod_stream.add(root)
            if n == FEIG + "end_of_day":
                callers_eod.add(root)
    chk.require(callers_eod_stream == {FEIG + "end_of_day"}, "C19/who-may-call", "EndOfDay exchange",
                "EndOfDay exchange is started from %s" % sorted(callers_eod_stream), "only end_of_day")
    allowed = {FEIG + "configure", FEIG + "commit_transaction", FEIG + "cancel_transaction"}
    chk.require(callers_eod <= allowed and len(callers_eod) >= 3, "C19/who-may-call", "end_of_day",
                "end_of_day is called from %s, allowed %s" % (sorted(callers_eod), sorted(allowed)), "configure/commit/cancel")
    # "a 'receiver not ready' refusal of end-of-day is tolerated and any other refusal is reported": the abort arm
    # of end_of_day (clauses shared with C20)
    import rules_c20
    from report import Sub
    sub = Sub(chk, "C19/eod-refusal", lambda r: r.startswith("C20/") and r != "C20/nested-abort-propagates",
              instance_filter=lambda i: str(i).startswith("end_of_day"))
    rules_c20.run(ctx, sub)
    chk.floor("end-of-day refusal obligations (shared with C20)", sub.count, 3)
    # "while other transactions are still open ...": the idle test is only as good as the token map - who may
    # write it and how an entry is removed (by its token, once) are the C07-a / C07-b clauses
    import rules_c07
    # (an entry recorded before its reservation has succeeded - C07-c/ok-after-insert - makes the map non-empty for good)
    sub7 = Sub(chk, "C19/token-map", lambda r: r in ("C07-a/who-may-write", "C07-b/remove", "C07-b/remove-args", "C07-c/ok-after-insert",
                                                     "C07-c/insert"))
    rules_c07.run(ctx, sub7)
    chk.floor("token-map obligations (shared with C07)", sub7.count, 4)
    chk.floor("C19 obligations", len(chk.obligations), 25)


def completion_point(f, name):
    """Block reached when the terminal has completed the reversal exchange: the exit of the reply
    loop (commit) / the success edge of the `?` on cancel_transaction_by_receipt_no (cancel)."""
    if name == "commit_transaction":
        for i in sorted(f.reach):
            t = f.b.blocks[i]["term"]
            if t["t"] != "switch":
                continue
            v = f.tr.value(t["d"])
            if v.kind != "rv" or v.rv["r"] != "discr" or not ty_str(v.rv["of"]).startswith("core::option::Option<"):      # (Option<Result<R>>; Option<R> behind `filter_map(Result::ok)`)
                continue
            e = f.ex.operand(t["d"])
            if any(x[0] == "call" and x[1] == NEXT for x in walk(e)):
                some = switch_target(t, 1)
                others = [switch_target(t, 0)] if switch_target(t, 0) != some else []
                for o in others:
                    if f.b.blocks[o]["term"]["t"] != "unreachable":
                        return o
        return None
    for i in sorted(f.reach):
        t = f.b.blocks[i]["term"]
        if t["t"] != "switch":
            continue
        e = f.ex.operand(t["d"])
        # the `?` applied to the awaited reversal: discr(Try::branch(<.. cancel_transaction_by_receipt_no(..) ..>))
        inner = strip_ref(e[1]) if e[0] == "discr" else None
        if inner is not None and inner[0] == "call" and inner[1] == "core::ops::try_trait::Try::branch" and inner[2] and \
                any(x[0] == "call" and x[1] == FEIG + "cancel_transaction_by_receipt_no" for x in walk(inner[2][0])):
            return switch_target(t, 0)
    return None


def pending_answer(chk, f, zvt):
    import pathsym as ps
    arm = None
    for (bb, enum, targets, else_t, rest, pexpr) in variant_switches(f, zvt.adts):
        if "PartialReversalAbort" in targets:
            arm = targets["PartialReversalAbort"]
    if not chk.require(arm is not None, "C19/sentinel", "get_pending", "abort arm (the answer of the query) not found", "", f.sp()):
        return
    pe = ps.PathEval(f.b)
    polls = [bb for bb, t in f.b.calls() if callee(t) == NEXT]
    rets = [i for i in f.reach if f.b.blocks[i]["term"]["t"] == "return"]

    def on_receipt(e):
        return any(x[0] == "field" and x[2] == "receipt_no" for x in ps.walk(e))
    n = 0
    for r in rets:
        for path in ps.simple_paths(f.b, arm, r, avoid=polls):
            env, conds = pe.run(path)
            ret = env.get(0)
            if ret is None:
                continue
            ret = ps.norm(ret)
            if not (ret[0] == "agg" and str(ret[1]).endswith("Result::Ok")):
                continue                    # error exits are C20's business
            n += 1
            present = None      # True: Some, False: None
            is_ffff = None      # True / False / "other"
            for cbb, ce, taken, listed in conds:
                c = ps.norm(ce)
                if c[0] == "discr" and on_receipt(c[1]):
                    # Some / None of the optional receipt number (discriminant 1 / 0)
                    if taken == 0:
                        present = False
                    elif taken == 1:
                        present = True
                    else:                      # fall-through edge: the value that is not listed
                        present = (1 not in listed) if 0 in listed else False
                    continue
                if c[0] == "bin" and c[1] in ("Eq", "Ne", "Lt", "Le", "Gt", "Ge") and (on_receipt(c[2]) or on_receipt(c[3])):
                    k = c[3] if on_receipt(c[2]) else c[2]
                    truth = (taken == "else") if listed == [0] else (taken != 0)
                    if c[1] in ("Eq", "Ne") and k == ("const", 0xFFFF):
                        is_ffff = truth if c[1] == "Eq" else not truth
                    else:
                        is_ffff = "other"
                    continue
                if on_receipt(c) and c[0] == "field" and listed and all(isinstance(v, int) for v in listed) and c[0] != "discr":
                    # `match receipt { 0xFFFF => .., r => .. }`: a switch on the number itself
                    if listed == [0xFFFF]:
                        is_ffff = (taken == 0xFFFF)
                    else:
                        is_ffff = "other"
            reports = on_receipt(ret)
            inst = "path .." + "-".join(str(x) for x in path[-3:])
            if present is False or is_ffff is True:
                chk.require(not reports, "C19/sentinel", inst,
                            "'nothing pending' (no receipt number / FFFF) is answered with a receipt to reverse: %s" % ps.show(ret)[:100],
                            "empty answer", f.sp(path[-1]))
            elif is_ffff is False:
                chk.require(reports, "C19/sentinel", inst,
                            "a dangling pre-authorisation reported by the terminal is dropped (empty answer although the receipt number is "
                            "not FFFF)", "receipt handed on", f.sp(path[-1]))
            else:
                chk.fail("C19/sentinel", inst,
                         "the answer does not distinguish the 'nothing pending' sentinel FFFF from a real receipt number by an "
                         "equality test (tests on this path: present=%s, sentinel=%s)" % (present, is_ffff), f.sp(path[-1]))
    chk.floor("get_pending answer paths", n, 2)
