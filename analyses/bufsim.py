"""Symbolic execution of byte-buffer code along the acyclic paths of one body (used by C04: read_packet).

The shape rules of C04 read the receive routine as "one Vec, three read_exact calls into slices of it".  A routine that
is split into helpers, keeps the header in an array and appends it, or names its constants is the same routine; this
module decides the *read plan* from what the code does to its buffers instead:

  * every owned byte container (Vec<u8>, [u8; N]) is an object with a list of segments - `zero(n)` (fill bytes) or
    `read k` (the bytes that the k-th read_exact of the path delivered) - and a symbolic length (linear form over the
    byte values read so far);
  * references are (object, from, to) views; `resize`, `extend_from_slice`, `to_vec`, `Vec::new`, `vec![0; n]`,
    `[0; N]`, slicing by ranges, `split_at`, `len()`, indexing, `from_le_bytes` / `from_be_bytes`, `try_into().unwrap()`,
    widening casts / `From`, checked arithmetic, Ok/Err/Poll aggregates and `?` are interpreted; anything else yields an
    unknown value (and an unknown *buffer* once it touches one: fail closed);
  * a `read_exact(src, dst)` call is an event (k, dst view); it overwrites exactly that view with `read k`.

Nothing is executed: values are symbols, paths are enumerated from the CFG (await poll loops are left at their Ready
edge; a path that contradicts a known variant is dropped as infeasible).
"""
from mirlite import callee, ty_str, op_place
from flow import proj_key

READ_EXACT = "tokio::io::util::async_read_ext::AsyncReadExt::read_exact"


class L:
    """linear form: const + sum coef*atom"""
    __slots__ = ("c", "t")

    def __init__(self, c=0, t=None):
        self.c = c
        self.t = {k: v for k, v in (t or {}).items() if v != 0}

    def add(self, o, k=1):
        t = dict(self.t)
        for a, v in o.t.items():
            t[a] = t.get(a, 0) + k * v
        return L(self.c + k * o.c, t)

    def is_const(self):
        return not self.t

    def __eq__(self, o):
        return isinstance(o, L) and self.c == o.c and self.t == o.t

    def __hash__(self):
        return hash((self.c, tuple(sorted(self.t.items(), key=str))))

    def __repr__(self):
        parts = ([str(self.c)] if self.c or not self.t else []) + ["%s%s" % ("" if v == 1 else "%d*" % v, show_atom(a)) for a, v in self.t.items()]
        return " + ".join(parts)


def show_atom(a):
    if a[0] == "byte":
        return "byte %d of read #%d" % (a[2], a[1])
    if a[0] in ("le16", "be16"):
        return "%s-endian u16 at byte %d of read #%d" % ("little" if a[0] == "le16" else "big", a[2], a[1])
    return str(a)


UNK = ("?",)


class Infeasible(Exception):
    pass


class Sim:
    def __init__(self, body):
        self.b = body
        self.heap = {}
        self.env = {}
        self.reads = []          # (k, obj, lo L, hi L)
        self.conds = []          # (("cmp", op, a L, b L), truth)
        self.notes = []
        self.n_obj = 0

    # ---------------------------------------------------------------- heap
    def new_obj(self, segs):
        self.n_obj += 1
        self.heap[self.n_obj] = {"segs": list(segs), "unknown": False}
        return self.n_obj

    def obj_len(self, oid):
        o = self.heap[oid]
        if o["unknown"]:
            return None
        n = L(0)
        for _, ln in o["segs"]:
            n = n.add(ln)
        return n

    def spoil(self, oid, why):
        if oid in self.heap and not self.heap[oid]["unknown"]:
            self.heap[oid]["unknown"] = True
            self.notes.append(why)

    def view_bounds(self, v):
        """(oid, lo L, hi L) of a ref / buf value, or None"""
        if v[0] == "buf":
            n = self.obj_len(v[1])
            return (v[1], L(0), n) if n is not None else None
        if v[0] == "ref":
            hi = v[3] if v[3] is not None else self.obj_len(v[1])
            return (v[1], v[2], hi) if hi is not None else None
        return None

    def segs_between(self, oid, lo, hi):
        """segments of the object covering exactly [lo, hi), or None when the bounds do not fall on segment borders"""
        o = self.heap[oid]
        if o["unknown"]:
            return None
        pos = L(0)
        out = []
        started = lo == pos
        if lo == hi:
            return []
        for seg in o["segs"]:
            if pos == lo:
                started = True
            if started:
                out.append(seg)
            pos = pos.add(seg[1])
            if started and pos == hi:
                return out
            if started and pos.is_const() and hi.is_const() and pos.c > hi.c:
                # the view ends inside a constant-length segment: split it
                kind, ln = out[-1]
                if ln.is_const() and kind[0] in ("zero", "read"):
                    keep = ln.c - (pos.c - hi.c)
                    out[-1] = (self._sub(kind, 0), L(keep))
                    return out
                return None
        return None

    @staticmethod
    def _sub(kind, off):
        if kind[0] == "read":
            return ("read", kind[1], kind[2] + off)
        return kind

    def replace(self, oid, lo, hi, new):
        o = self.heap[oid]
        if o["unknown"]:
            return False
        pos = L(0)
        out, i = [], 0
        segs = o["segs"]
        # split constant segments at constant bounds first
        for bound in (lo, hi):
            if not bound.is_const():
                continue
            p, res = 0, []
            ok = True
            for kind, ln in segs:
                if ok and ln.is_const() and p < bound.c < p + ln.c:
                    res.append((kind, L(bound.c - p)))
                    res.append((self._sub(kind, bound.c - p), L(p + ln.c - bound.c)))
                else:
                    res.append((kind, ln))
                if ln.is_const():
                    p += ln.c
                else:
                    ok = False
            segs = res
        state = 0
        for kind, ln in segs:
            if state == 0 and pos == lo:
                state = 1
                out.extend(new)
                if lo == hi:
                    state = 2
            if state == 1:
                pos = pos.add(ln)
                if pos == hi:
                    state = 2
                continue
            out.append((kind, ln))
            pos = pos.add(ln)
        if state == 0 and pos == lo and lo == hi:
            out.extend(new)
            state = 2
        if state != 2:
            return False
        o["segs"] = [s for s in out if not (s[1].is_const() and s[1].c == 0)]
        return True

    def byte_at(self, oid, idx):
        o = self.heap.get(oid)
        if o is None or o["unknown"] or not idx.is_const():
            return UNK
        p = 0
        for kind, ln in o["segs"]:
            if not ln.is_const():
                return UNK
            if p <= idx.c < p + ln.c:
                if kind[0] == "read":
                    return ("int", L(0, {("byte", kind[1], kind[2] + idx.c - p): 1}))
                if kind[0] == "zero":
                    return ("int", L(0))
                return UNK
            p += ln.c
        return UNK

    # ---------------------------------------------------------------- values
    def const(self, k):
        if "v" in k and isinstance(k["v"], int):
            return ("int", L(k["v"]))
        return UNK

    def operand(self, o):
        if "k" in o:
            return self.const(o["k"])
        p = op_place(o)
        if p is None:
            return UNK
        return self.read_place(p)

    def read_place(self, p):
        v = self.env.get(p["l"], UNK)
        for e in p["p"]:
            k = proj_key(e)
            if k == "deref":
                if v[0] == "rl":
                    v = self.env.get(v[1], UNK)
                # a reference to a buffer denotes the buffer view itself
                continue
            if k[0] == "f":
                if v[0] in ("tup", "adt") and k[1] < len(v[-1]):
                    v = v[-1][k[1]]
                else:
                    v = UNK
            elif k[0] == "dc":
                if v[0] == "adt":
                    if v[2] != k[1]:
                        raise Infeasible()
                else:
                    v = UNK
            elif k[0] == "cidx" and not k[2]:
                vb = self.view_bounds(v) if v[0] in ("buf", "ref") else None
                if vb is not None:
                    v = self.byte_at(vb[0], vb[1].add(L(k[1])))
                elif v[0] == "bytes" and k[1] < len(v[1]):
                    v = v[1][k[1]]
                else:
                    v = UNK
            elif k[0] == "idx":
                iv = self.env.get(k[1], UNK)
                vb = self.view_bounds(v) if v[0] in ("buf", "ref") else None
                if vb is not None and iv[0] == "int":
                    v = self.byte_at(vb[0], vb[1].add(iv[1]))
                elif v[0] == "bytes" and iv[0] == "int" and iv[1].is_const() and iv[1].c < len(v[1]):
                    v = v[1][iv[1].c]
                else:
                    v = UNK
            else:
                v = UNK
        return v

    def write_place(self, p, val):
        if not p["p"]:
            self.env[p["l"]] = val
            return
        # writes into a buffer through a place are not part of any analysed routine: give up on that buffer
        base = self.env.get(p["l"], UNK)
        if base[0] == "box":
            # `vec![a, b]`: the array is written into a fresh box, which then becomes the vector
            self.env[p["l"]] = ("box", val)
            return
        if base[0] in ("buf", "ref"):
            self.spoil(base[1], "element write into a buffer")
        elif all(proj_key(e) == "deref" for e in p["p"]) and base[0] == "rl":
            self.env[base[1]] = val
        else:
            self.env[p["l"]] = UNK

    def ref_of(self, p):
        """value of `&place` / `&mut place`"""
        base = self.env.get(p["l"], UNK)
        projs = [proj_key(e) for e in p["p"]]
        if not [k for k in projs if k != "deref"]:
            if base[0] == "buf":
                return ("ref", base[1], L(0), None)
            if base[0] == "ref":
                return base
            if base[0] == "rl" and projs:
                inner = self.env.get(base[1], UNK)
                if inner[0] == "buf":
                    return ("ref", inner[1], L(0), None)
                if inner[0] in ("ref", "rl"):
                    return inner
                return base
            return ("rl", p["l"])
        # a field of something (`(*self).source`): an opaque reference
        return UNK

    def rvalue(self, rv):
        r = rv["r"]
        if r == "use":
            return self.operand(rv["o"])
        if r in ("ref", "rawptr"):
            return self.ref_of(rv["p"])
        if r == "cfd":
            return self.read_place(rv["p"])
        if r == "cast":
            v = self.operand(rv["o"])
            if rv.get("kind", "").startswith("PointerCoercion") or rv.get("kind") in ("IntToInt", "Transmute", "PtrToPtr"):
                return v
            return v
        if r == "repeat":
            n = rv.get("n")
            cnt = None
            if isinstance(n, dict):
                for key in ("v", "val"):
                    if isinstance(n.get(key), int):
                        cnt = n[key]
            if cnt is None:
                try:
                    cnt = int(str(ty_str(n)).split("_")[0])
                except Exception:
                    cnt = None
            fill = self.operand(rv["o"])
            if cnt is not None and fill[0] == "int" and fill[1] == L(0):
                return ("buf", self.new_obj([(("zero",), L(cnt))]))
            if cnt is not None:
                return ("buf", self.new_obj([(("other",), L(cnt))]))
            return UNK
        if r == "bin":
            a, b_ = self.operand(rv["a"]), self.operand(rv["b"])
            op = rv["op"]
            if a[0] == "int" and b_[0] == "int":
                base = op.replace("WithOverflow", "")
                res = None
                if base == "Add":
                    res = ("int", a[1].add(b_[1]))
                elif base == "Sub":
                    res = ("int", a[1].add(b_[1], -1))
                elif base in ("Eq", "Ne", "Lt", "Le", "Gt", "Ge"):
                    return ("cmp", base, a[1], b_[1])
                elif base == "Mul" and (a[1].is_const() or b_[1].is_const()):
                    k_, x = (a[1].c, b_[1]) if a[1].is_const() else (b_[1].c, a[1])
                    res = ("int", L(x.c * k_, {t: v * k_ for t, v in x.t.items()}))
                if res is not None:
                    return ("tup", [res, ("int", L(0))]) if op.endswith("WithOverflow") else res
            return ("tup", [UNK, UNK]) if op.endswith("WithOverflow") else UNK
        if r == "un":
            if rv["op"] == "PtrMetadata":
                v = self.operand(rv["a"])
                vb = self.view_bounds(v) if v[0] in ("buf", "ref") else None
                if vb is not None:
                    return ("int", vb[2].add(vb[1], -1))
            return UNK
        if r == "discr":
            v = self.read_place(rv["p"])
            if v[0] == "adt":
                return ("int", L(v[2]))
            return UNK
        if r == "agg":
            ops = [self.operand(o) for o in rv["ops"]]
            kind = rv.get("kind")
            if kind == "adt":
                nm = "%s::%s" % (rv["n"], rv.get("vname"))
                if nm.endswith(("RangeFrom::RangeFrom",)):
                    return ("range", ops[0][1] if ops[0][0] == "int" else None, None, "from")
                if nm.endswith(("RangeTo::RangeTo",)):
                    return ("range", L(0), ops[0][1] if ops[0][0] == "int" else None, "to")
                if nm.endswith(("Range::Range",)):
                    return ("range", ops[0][1] if ops[0][0] == "int" else None, ops[1][1] if ops[1][0] == "int" else None, "range")
                if nm.endswith("RangeFull::RangeFull"):
                    return ("range", L(0), None, "full")
                return ("adt", rv.get("vname"), rv.get("variant", 0), ops)
            if kind == "tuple":
                return ("tup", ops)
            if kind == "array":
                return ("bytes", ops)
            return UNK
        return UNK

    # ---------------------------------------------------------------- calls
    def slice_of(self, v, rng):
        vb = self.view_bounds(v)
        if vb is None or rng[0] != "range":
            return UNK
        oid, lo, hi = vb
        a = rng[1]
        b_ = rng[2]
        if rng[3] in ("from", "full"):
            if a is None:
                return UNK
            return ("ref", oid, lo.add(a), v[3] if v[0] == "ref" else None) if (v[0] == "buf" or v[3] is None) else ("ref", oid, lo.add(a), hi)
        if a is None or b_ is None:
            return UNK
        return ("ref", oid, lo.add(a), lo.add(b_))

    def call(self, t):
        n = callee(t) or ""
        raw = (t.get("f") or {}).get("n") or n
        args = [self.operand(a) for a in t["args"]]
        short = n.rsplit("::", 1)[-1]
        if n == READ_EXACT and len(args) == 2:
            dst = args[1]
            vb = self.view_bounds(dst) if dst[0] in ("buf", "ref") else None
            k = len(self.reads) + 1
            if vb is None:
                self.reads.append((k, None, None, None))
                for a in args:
                    if a[0] in ("buf", "ref"):
                        self.spoil(a[1], "read into a view that could not be followed")
                return UNK
            oid, lo, hi = vb
            self.reads.append((k, oid, lo, hi))
            if not self.replace(oid, lo, hi, [(("read", k, 0), hi.add(lo, -1))]):
                self.spoil(oid, "read #%d does not land on whole segments of its buffer" % k)
            return UNK
        if n == "alloc::vec::from_elem" and len(args) == 2:
            if args[1][0] == "int":
                zero = args[0][0] == "int" and args[0][1] == L(0)
                return ("buf", self.new_obj([((("zero",) if zero else ("other",)), args[1][1])]))
            return UNK
        if n in ("alloc::vec::Vec::<T>::new", "alloc::vec::Vec::<T>::with_capacity"):
            return ("buf", self.new_obj([]))
        if n == "alloc::vec::Vec::<T, A>::resize" and len(args) == 3:
            v = args[0]
            if v[0] == "ref" and args[1][0] == "int":
                cur = self.obj_len(v[1])
                zero = args[2][0] == "int" and args[2][1] == L(0)
                if cur is not None:
                    grow = args[1][1].add(cur, -1)
                    if grow.is_const() and grow.c < 0:
                        self.spoil(v[1], "resize shrinks the buffer")
                    else:
                        self.heap[v[1]]["segs"].append(((("zero",) if zero else ("other",)), grow))
                        self.heap[v[1]]["segs"] = [s for s in self.heap[v[1]]["segs"] if not (s[1].is_const() and s[1].c == 0)]
                return ("tup", [])
            if v[0] in ("ref", "buf"):
                self.spoil(v[1], "resize to an unknown length")
            return UNK
        if n in ("alloc::vec::Vec::<T, A>::extend_from_slice", "alloc::vec::Vec::<T, A>::append") and len(args) == 2:
            v, src = args
            sb = self.view_bounds(src) if src[0] in ("buf", "ref") else None
            if v[0] == "ref" and sb is not None and self.obj_len(v[1]) is not None:
                segs = self.segs_between(sb[0], sb[1], sb[2])
                if segs is not None:
                    self.heap[v[1]]["segs"].extend(segs)
                    return ("tup", [])
            if v[0] == "ref" and src[0] == "bytes" and self.obj_len(v[1]) is not None:
                segs = self.bytes_segs(src)
                if segs is not None:
                    self.heap[v[1]]["segs"].extend(segs)
                    return ("tup", [])
            if v[0] in ("ref", "buf"):
                self.spoil(v[1], "appended bytes could not be followed")
            return UNK
        if n == "alloc::vec::Vec::<T, A>::push" and len(args) == 2:
            v = args[0]
            if v[0] == "ref" and self.obj_len(v[1]) is not None:
                segs = self.bytes_segs(("bytes", [args[1]]))
                if segs is not None:
                    self.heap[v[1]]["segs"].extend(segs)
                    return ("tup", [])
                self.spoil(v[1], "pushed byte could not be followed")
            return UNK
        if short in ("to_vec", "to_owned", "into_vec") or n in ("core::convert::From::from", "core::convert::Into::into", "core::clone::Clone::clone",
                                                                   "alloc::slice::<impl [T]>::to_vec", "alloc::borrow::ToOwned::to_owned"):
            if args and args[0][0] in ("buf", "ref"):
                vb = self.view_bounds(args[0])
                if vb is not None:
                    segs = self.segs_between(*vb)
                    if segs is not None:
                        return ("buf", self.new_obj(segs))
                return UNK
            if args and args[0][0] == "bytes":
                segs = self.bytes_segs(args[0])
                if segs is not None and short in ("to_vec", "to_owned", "into_vec"):
                    return ("buf", self.new_obj(segs))
            if args and args[0][0] == "int":
                return args[0]            # widening conversion
            return UNK
        if short == "len" and args and args[0][0] in ("buf", "ref"):
            vb = self.view_bounds(args[0])
            return ("int", vb[2].add(vb[1], -1)) if vb is not None else UNK
        if n in ("core::ops::index::Index::index", "core::ops::index::IndexMut::index_mut") and len(args) == 2:
            v, ix = args
            if v[0] in ("buf", "ref") and ix[0] == "range":
                return self.slice_of(v, ix)
            if v[0] in ("buf", "ref") and ix[0] == "int":
                vb = self.view_bounds(v)
                return self.byte_at(vb[0], vb[1].add(ix[1])) if vb is not None else UNK
            return UNK
        if n in ("core::ops::deref::Deref::deref", "core::ops::deref::DerefMut::deref_mut", "alloc::vec::Vec::<T, A>::as_mut_slice",
                 "alloc::vec::Vec::<T, A>::as_slice", "core::convert::AsRef::as_ref", "core::convert::AsMut::as_mut",
                 "core::borrow::Borrow::borrow", "core::borrow::BorrowMut::borrow_mut") and args:
            return args[0] if args[0][0] in ("ref",) else (("ref", args[0][1], L(0), None) if args[0][0] == "buf" else UNK)
        if short in ("split_at", "split_at_mut") and len(args) == 2 and args[0][0] in ("buf", "ref") and args[1][0] == "int":
            vb = self.view_bounds(args[0])
            if vb is not None:
                oid, lo, hi = vb
                mid = lo.add(args[1][1])
                return ("tup", [("ref", oid, lo, mid), ("ref", oid, mid, hi if args[0][0] == "ref" and args[0][3] is not None else None)])
            return UNK
        if short in ("first_chunk", "split_first_chunk") and args and args[0][0] in ("buf", "ref"):
            return UNK
        if n in ("core::convert::TryInto::try_into", "core::convert::TryFrom::try_from") and args:
            v = args[0]
            if v[0] in ("buf", "ref"):
                return ("adt", "Ok", 0, [v])       # (a failing conversion panics in `unwrap`: not a path to the parser)
            if v[0] == "int":
                return ("adt", "Ok", 0, [v])
            return UNK
        if short in ("unwrap", "expect", "unwrap_or_default") and args and args[0][0] == "adt" and args[0][1] in ("Ok", "Some"):
            return args[0][3][0] if args[0][3] else UNK
        if short in ("from_le_bytes", "from_be_bytes") and args:
            bs = self.byte_values(args[0])
            if bs is not None and len(bs) == 2:
                b0, b1 = bs
                a0 = list(b0[1].t.items()) if b0[0] == "int" else []
                a1 = list(b1[1].t.items()) if b1[0] == "int" else []
                if len(a0) == 1 and len(a1) == 1 and a0[0][1] == 1 and a1[0][1] == 1 and b0[1].c == 0 and b1[1].c == 0 and \
                        a0[0][0][0] == "byte" and a1[0][0][0] == "byte" and a0[0][0][1] == a1[0][0][1] and a1[0][0][2] == a0[0][0][2] + 1:
                    return ("int", L(0, {("le16" if short == "from_le_bytes" else "be16", a0[0][0][1], a0[0][0][2]): 1}))
            return UNK
        if short in ("to_be_bytes", "to_le_bytes") and args and args[0][0] == "int":
            w = {"u8": 1, "u16": 2, "u32": 4, "u64": 8, "usize": 8}.get(n.split("<impl ")[-1].split(">")[0])
            if w:
                order = "be" if short == "to_be_bytes" else "le"
                return ("bytes", [("int", L(0, {("eb", order, w, i_, args[0][1]): 1})) for i_ in range(w)])
            return UNK
        if n == "zvt_builder::encoding::Encoding::encode" and args:
            ga = [ty_str(x) for x in (t.get("f") or {}).get("a", [])]
            v = args[0]
            if v[0] == "rl":
                v = self.env.get(v[1], UNK)
            w = {"u8": 1, "u16": 2, "u32": 4, "u64": 8}.get(ga[1]) if len(ga) > 1 else None
            order = {"zvt_builder::encoding::Default": "le", "zvt_builder::encoding::BigEndian": "be"}.get(ga[0]) if ga else None
            if v[0] == "int" and w and order:
                return ("buf", self.new_obj([(("enc", order, w, v[1]), L(w))]))
            return UNK
        if n in ("alloc::boxed::box_new", "alloc::boxed::Box::<T>::new") and args:
            return args[0]
        if n.endswith("Box::<T>::new_uninit"):
            return ("box", UNK)
        if n.endswith("box_assume_init_into_vec_unsafe") and args and args[0][0] == "box":
            v = args[0][1]
            if v[0] == "bytes":
                segs = self.bytes_segs(v)
                return ("buf", self.new_obj(segs)) if segs is not None else UNK
            return UNK
        if n in ("alloc::slice::<impl [T]>::into_vec",) and args:
            v = args[0]
            if v[0] == "bytes":
                segs = self.bytes_segs(v)
                return ("buf", self.new_obj(segs)) if segs is not None else UNK
            return v if v[0] == "buf" else UNK
        if short in ("concat",) and args:
            v = args[0]
            if v[0] == "rl":
                v = self.env.get(v[1], UNK)
            if v[0] == "bytes" and all(x[0] == "buf" and not self.heap[x[1]]["unknown"] for x in v[1]):
                segs = []
                for x in v[1]:
                    segs.extend(self.heap[x[1]]["segs"])
                return ("buf", self.new_obj(segs))
            return UNK
        if n == "core::iter::traits::collect::Extend::extend" and len(args) == 2:
            v, src = args
            if v[0] == "ref" and src[0] in ("buf", "ref") and self.obj_len(v[1]) is not None:
                sb = self.view_bounds(src)
                segs = self.segs_between(*sb) if sb is not None else None
                if segs is not None:
                    self.heap[v[1]]["segs"].extend(segs)
                    return ("tup", [])
            if v[0] in ("ref", "buf"):
                self.spoil(v[1], "extended with bytes that could not be followed")
            return UNK
        if n == "core::ops::try_trait::Try::branch" and args:
            v = args[0]
            if v[0] == "adt" and v[1] in ("Ok", "Some"):
                return ("adt", "Continue", 0, list(v[3]))
            if v[0] == "adt" and v[1] in ("Err", "None"):
                return ("adt", "Break", 1, [v])
            return UNK
        if n.endswith("FromResidual::from_residual"):
            return ("adt", "Err", 1, [UNK])
        if n in ("core::mem::drop",):
            return ("tup", [])
        # an unknown callee that receives a mutable view of a buffer may change it
        muts = [a for a, o in zip(args, t["args"]) if a[0] == "ref" and self._is_mut_arg(o)]
        for a in muts:
            if not (n.startswith(("core::fmt", "log::", "pretty_hex::")) or "poll" in short or "Pin" in n or "into_future" in n):
                self.spoil(a[1], "buffer handed to %s" % n.rsplit("::", 2)[-1])
        return UNK

    def _is_mut_arg(self, o):
        p = op_place(o)
        if p is None or p["p"]:
            return True
        ty = ty_str(self.b.locals[p["l"]].get("ty")) or ""
        return ty.startswith("&mut")

    def byte_values(self, v):
        if v[0] == "bytes":
            return v[1]
        if v[0] in ("buf", "ref"):
            vb = self.view_bounds(v)
            if vb is None:
                return None
            oid, lo, hi = vb
            n = hi.add(lo, -1)
            if not n.is_const() or n.c > 8:
                return None
            return [self.byte_at(oid, lo.add(L(i))) for i in range(n.c)]
        return None

    def bytes_segs(self, v):
        """segments for a small array of byte values: bytes of a read (consecutive ones merged), constants, the bytes of
        an encoded integer, or single value bytes"""
        out = []
        for x in v[1]:
            if x[0] != "int":
                return None
            items = list(x[1].t.items())
            if not items:
                out.append((("zero",) if x[1].c == 0 else ("const", x[1].c), L(1)))
            elif len(items) == 1 and items[0][1] == 1 and x[1].c == 0 and items[0][0][0] == "byte":
                out.append((("read", items[0][0][1], items[0][0][2]), L(1)))
            elif len(items) == 1 and items[0][1] == 1 and x[1].c == 0 and items[0][0][0] == "eb":
                out.append((("ebyte",) + tuple(items[0][0][1:]), L(1)))
            else:
                out.append((("val", x[1]), L(1)))
        merged = []
        for kind, ln in out:
            if merged and kind[0] == "read" and merged[-1][0][0] == "read" and merged[-1][0][1] == kind[1] and \
                    merged[-1][0][2] + merged[-1][1].c == kind[2]:
                merged[-1] = (merged[-1][0], L(merged[-1][1].c + 1))
            elif merged and kind[0] == "zero" and merged[-1][0][0] == "zero":
                merged[-1] = (merged[-1][0], L(merged[-1][1].c + 1))
            else:
                merged.append((kind, ln))
        # the w bytes of one encoded integer, in order: one segment
        res, k = [], 0
        while k < len(merged):
            kind = merged[k][0]
            if kind[0] == "ebyte" and kind[3] == 0:
                order, w, _, key = kind[1:]
                grp = merged[k:k + w]
                if len(grp) == w and all(g[0][0] == "ebyte" and g[0][1:3] == (order, w) and g[0][3] == n_ and g[0][4] == key
                                         for n_, g in enumerate(grp)):
                    res.append((("enc", order, w, key), L(w)))
                    k += w
                    continue
            res.append(merged[k])
            k += 1
        return res

    # ---------------------------------------------------------------- paths
    def run(self, path, stop_before_term_of=None):
        b = self.b
        for i, bb in enumerate(path):
            blk = b.blocks[bb]
            for st in blk["stmts"]:
                if st["s"] == "assign":
                    self.write_place(st["p"], self.rvalue(st["rv"]))
            t = blk["term"]
            last = i + 1 >= len(path)
            if last:
                return t
            nxt = path[i + 1]
            if t["t"] == "call":
                val = self.call(t)
                self.write_place(t["dest"], val)
            elif t["t"] == "switch":
                d = self.operand(t["d"])
                listed = dict((v, tb) for v, tb in t["targets"])
                if d[0] == "int" and d[1].is_const():
                    want = listed.get(d[1].c, t["else"])
                    if want != nxt:
                        raise Infeasible()
                elif d[0] == "cmp":
                    # bool: 0 = false
                    truth = None
                    if nxt == listed.get(0) and nxt != t["else"]:
                        truth = False
                    elif nxt == t["else"] and nxt != listed.get(0):
                        truth = True
                    if truth is not None:
                        op, a, c = d[1], d[2], d[3]
                        diff = a.add(c, -1)
                        if diff.is_const():
                            actual = {"Eq": diff.c == 0, "Ne": diff.c != 0, "Lt": diff.c < 0, "Le": diff.c <= 0, "Gt": diff.c > 0,
                                      "Ge": diff.c >= 0}[op]
                            if actual != truth:
                                raise Infeasible()
                        else:
                            self.conds.append((d, truth))
                elif d[0] == "int":
                    # switch on a symbolic integer (`match byte { 0xff => .., n => .. }`)
                    vals = [v for v, tb in listed.items() if tb == nxt]
                    if nxt != t["else"] and len(vals) == 1:
                        self.conds.append((("cmp", "Eq", d[1], L(vals[0])), True))
                    elif nxt == t["else"]:
                        for v in listed:
                            self.conds.append((("cmp", "Eq", d[1], L(v)), False))
        return None


def show_segs(segs):
    out = []
    for kind, ln in segs:
        if kind[0] == "read":
            out.append("read #%d%s [%r]" % (kind[1], "" if kind[2] == 0 else "+%d" % kind[2], ln))
        else:
            out.append("%s [%r]" % (kind[0], ln))
    return ", ".join(out) or "empty"
