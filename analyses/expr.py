"""Expression reconstruction over MIR-lite: turns an operand into a small expression tree by
inlining single-definition temporaries.  Used by the client-logic rules (C07..C11, C18..C20).

Expr forms (tuples):
  ('const', value)                      integers, strings; ('const', None) for opaque constants
  ('path', root, (field,...))           root = user variable / captured variable name or '_N'
  ('var', name, local)                  multiply-assigned user variable (leaf)
  ('call', callee, (args...), bb)       resolved callee name (unresolved trait path), argument exprs
  ('ref', e) ('bin', op, a, b) ('un', op, a) ('cast', e, ty) ('discr', e)
  ('agg', 'path::Variant', (args...), (fieldnames...))
  ('proj', e, (field,...))              projection applied to a call/aggregate result
  ('?',)
"""
from mirlite import op_place, callee, ty_str, widening_conversion
from flow import Tracer, NPlace


class Ex:
    def __init__(self, body, tracer=None):
        self.b = body
        self.tr = tracer or Tracer(body)
        self.upvars = {}
        for u in body.raw.get("upvars", []):
            p = u["p"]
            if p["l"] == 1:
                fs = [e["f"] for e in p["p"] if isinstance(e, dict) and "f" in e]
                if len(fs) == 1:
                    self.upvars[fs[0]] = u["name"]

    # ---- names
    def root_name(self, l):
        nm = self.b.local_name(l)
        return nm if nm else "_%d" % l

    def fields_of(self, proj):
        out = []
        for e in proj:
            if e == "deref":
                continue
            if isinstance(e, tuple):
                if e[0] == "f":
                    out.append(str(e[2]) if e[2] is not None else str(e[1]))
                elif e[0] == "dc":
                    out.append("@" + str(e[2] if e[2] is not None else e[1]))
                elif e[0] == "idx":
                    out.append("[_%d]" % e[1])
                elif e[0] == "cidx":
                    out.append("[%d]" % e[1])
                elif e[0] == "sub":
                    out.append("[%d..%d]" % (e[1], e[2]))
                else:
                    out.append("?")
        return tuple(out)

    def place(self, np, depth=0):
        """Expression for a normalised place."""
        l, proj = np.l, list(np.p)
        # closure captures: _1.<i> is the captured variable
        if l == 1 and self.upvars:
            fs = [e for e in proj if e != "deref"]
            if fs and isinstance(fs[0], tuple) and fs[0][0] == "f" and fs[0][1] in self.upvars:
                rest = proj[proj.index(fs[0]) + 1:]
                return ("path", self.upvars[fs[0][1]], self.fields_of(rest))
        d = self.tr.single_def(l) or self.variant_def(l, proj)
        fields = self.fields_of(proj)
        if d is not None and depth < 80:
            base = self.of_def(d, depth + 1)
            if base is not None:
                if not fields:
                    return base
                if base[0] == "path":
                    return ("path", base[1], base[2] + fields)
                if base[0] == "agg" and proj:
                    # select aggregate component
                    fs = [e for e in proj if e != "deref"]
                    if fs and isinstance(fs[0], tuple) and fs[0][0] == "dc":
                        fs = fs[1:]                 # the variant of this aggregate; later downcasts stay
                    if fs and isinstance(fs[0], tuple) and fs[0][0] == "f" and fs[0][1] < len(base[2]):
                        inner = base[2][fs[0][1]]
                        rest = self.fields_of(fs[1:])
                        if not rest:
                            return inner
                        if inner[0] == "path":
                            return ("path", inner[1], inner[2] + rest)
                        return ("proj", inner, rest)
                if base[0] == "ref" and proj and proj[0] == "deref":
                    inner = base[1]
                    rest = self.fields_of(proj[1:])
                    if not rest:
                        return inner
                    if inner[0] == "path":
                        return ("path", inner[1], inner[2] + rest)
                    return ("proj", inner, rest)
                return ("proj", base, fields)
        if self.b.local_name(l) is not None and len(self.tr.defs.get(l, [])) > 1:
            if fields:
                return ("proj", ("var", self.b.local_name(l), l), fields)
            return ("var", self.b.local_name(l), l)
        return ("path", self.root_name(l), fields)

    def variant_def(self, l, proj):
        """`(x as V).k` where x has several whole definitions: only a definition that builds variant V can be
        the one read (the others build a sibling variant, or are the `Err`/`None` made by `?`).  Returns that
        definition when it is unique - e.g. the return slot of an inlined helper with several `bail!` exits."""
        ds = self.tr.defs.get(l, [])
        if len(ds) < 2 or l <= self.b.raw["arg_count"]:
            return None
        first = next((e for e in proj if e != "deref"), None)
        if not (isinstance(first, tuple) and first[0] == "dc"):
            return None
        keep = []
        for d in ds:
            lhs = d[3]["p"] if d[2] == "assign" else (d[3]["dest"] if d[2] == "call" else None)
            if lhs is None or lhs["p"]:
                return None
            if d[2] == "assign" and d[3]["rv"]["r"] == "agg" and d[3]["rv"].get("kind") == "adt":
                if d[3]["rv"].get("variant") == first[1]:
                    keep.append(d)
                continue
            if d[2] == "call" and ((d[3].get("f") or {}).get("n") or "").endswith("FromResidual::from_residual") \
                    and first[2] in ("Ok", "Some"):
                continue
            return None
        return keep[0] if len(keep) == 1 else None

    def select_variant(self, e, depth=0):
        """Rewrite `(_N).@V.k...` (as produced by undoing a `?`) where _N has several definitions of which one
        builds variant V: the k-th operand of that aggregate (see variant_def)."""
        if not isinstance(e, tuple) or not e or depth > 40:
            return e
        if e[0] in ("proj", "path"):
            base, flds = (e[1], tuple(e[2])) if e[0] == "proj" else (("path", e[1], ()), tuple(e[2]))
            if e[0] == "proj":
                base = self.select_variant(base, depth + 1)
                if base[0] == "path" and base[2]:
                    base, flds = ("path", base[1], ()), tuple(base[2]) + flds
            l = None
            if base[0] == "var":
                l = base[2]
            elif base[0] == "path" and not base[2] and isinstance(base[1], str) and base[1][:1] == "_" and base[1][1:].isdigit():
                l = int(base[1][1:])
            if l is not None and len(flds) >= 2 and flds[0][:1] == "@" and flds[1].isdigit():
                vname = flds[0][1:]
                # the definitions that can be read here; a plain copy of another carrier (`x = move slot`, possibly once per
                # copy of a threaded path) stands for that carrier's definitions
                ds, work, seen_l = [], [l], set()
                ok = l > self.b.raw["arg_count"]
                while work and ok:
                    l_ = work.pop()
                    if l_ in seen_l:
                        continue
                    seen_l.add(l_)
                    for d in self.tr.defs.get(l_, []):
                        lhs = d[3]["p"] if d[2] == "assign" else (d[3]["dest"] if d[2] == "call" else None)
                        if lhs is None or lhs["p"]:
                            ok = False
                            break
                        if d[2] == "assign" and d[3]["rv"]["r"] == "use" and op_place(d[3]["rv"]["o"]) is not None and \
                                not op_place(d[3]["rv"]["o"])["p"] and len(seen_l) < 6:
                            work.append(op_place(d[3]["rv"]["o"])["l"])
                            continue
                        ds.append(d)
                ok = ok and len(ds) >= 1
                keep = []
                for d in ds:
                    lhs = d[3]["p"] if d[2] == "assign" else (d[3]["dest"] if d[2] == "call" else None)
                    if lhs is None or lhs["p"]:
                        ok = False
                        break
                    if d[2] == "assign" and d[3]["rv"]["r"] == "agg" and d[3]["rv"].get("kind") == "adt":
                        if d[3]["rv"].get("vname") == vname:
                            keep.append(d)
                        continue
                    if d[2] == "call" and ((d[3].get("f") or {}).get("n") or "").endswith("FromResidual::from_residual") \
                            and vname in ("Ok", "Some"):
                        continue
                    ok = False
                    break
                k = int(flds[1])
                if ok and len(keep) == 1 and k < len(keep[0][3]["rv"]["ops"]):
                    inner = self.select_variant(simplify(self._operand(keep[0][3]["rv"]["ops"][k], 1)), depth + 1)
                    rest = flds[2:]
                    if not rest:
                        return inner
                    if inner[0] == "path":
                        return ("path", inner[1], tuple(inner[2]) + rest)
                    return ("proj", inner, rest)
            if e[0] == "proj":
                return ("proj", self.select_variant(e[1], depth + 1), e[2]) + tuple(e[3:])
            return e
        if e[0] == "ref":
            return ("ref", self.select_variant(e[1], depth + 1)) + tuple(e[2:])
        if e[0] == "call":
            return ("call", e[1], tuple(self.select_variant(a, depth + 1) for a in e[2])) + tuple(e[3:])
        if e[0] == "cast":
            return ("cast", self.select_variant(e[1], depth + 1)) + tuple(e[2:])
        if e[0] == "agg":
            return ("agg", e[1], tuple(self.select_variant(a, depth + 1) for a in e[2])) + tuple(e[3:])
        return e

    def of_def(self, d, depth):
        if d[2] == "call":
            t = d[3]
            w = widening_conversion(t)
            if w:
                return ("cast", self._operand(t["args"][0], depth), w[0], "IntToInt", w[1])
            return ("call", callee(t) or "?", tuple(self._operand(a, depth) for a in t["args"]), d[0])
        if d[2] != "assign":
            return None
        rv = d[3]["rv"]
        return self._rvalue(rv, depth)

    def rvalue(self, rv, depth=0):
        return simplify(self._rvalue(rv, depth))

    def _rvalue(self, rv, depth=0):
        r = rv["r"]
        if r == "use":
            return self._operand(rv["o"], depth)
        if r in ("ref", "rawptr"):
            # (`&raw const *slice` is how slice patterns take the length: PtrMetadata of it)
            return ("ref", self.place(self.tr.nplace(rv["p"]), depth))
        if r == "cfd":
            return self.place(self.tr.nplace(rv["p"]), depth)
        if r == "bin":
            return ("bin", rv["op"], self._operand(rv["a"], depth), self._operand(rv["b"], depth))
        if r == "un":
            return ("un", rv["op"], self._operand(rv["a"], depth))
        if r == "cast":
            return ("cast", self._operand(rv["o"], depth), ty_str(rv["ty"]), rv["kind"], ty_str(rv.get("from")))
        if r == "discr":
            return ("discr", self.place(self.tr.nplace(rv["p"]), depth))
        if r == "agg":
            name = rv.get("n", rv["kind"])
            if rv["kind"] == "adt":
                name = rv["n"] + "::" + rv["vname"]
            return ("agg", name, tuple(self._operand(o, depth) for o in rv["ops"]), tuple(rv.get("fields", [])))
        return ("?",)

    def operand(self, o, depth=0):
        return simplify(self._operand(o, depth))

    def _operand(self, o, depth=0):
        if depth > 80:
            return ("?",)
        if "k" in o:
            k = o["k"]
            if "v" in k:
                return ("const", k["v"])
            if "str" in k:
                return ("const", k["str"])
            if "fn" in k:
                return ("const", "fn " + k["fn"]["n"])
            if "constparam" in k:
                return ("constparam", k["constparam"])
            if "uneval" in k:
                return ("const", "const " + k["uneval"])
            return ("const", None)
        p = op_place(o)
        if p is None:
            return ("?",)
        return self.place(self.tr.nplace(p), depth)

    # ---- switch conditions
    def switch_cond(self, bb):
        """(expr, {target_bb: set(values) | 'else'}) for a switch terminator."""
        t = self.b.blocks[bb]["term"]
        if t["t"] != "switch":
            return None
        return self.operand(t["d"]), t


_OPS = {"Eq": lambda a, b: int(a == b), "Ne": lambda a, b: int(a != b), "Lt": lambda a, b: int(a < b),
        "Le": lambda a, b: int(a <= b), "Gt": lambda a, b: int(a > b), "Ge": lambda a, b: int(a >= b),
        "Add": lambda a, b: a + b, "Sub": lambda a, b: a - b, "Mul": lambda a, b: a * b,
        "BitAnd": lambda a, b: a & b, "BitOr": lambda a, b: a | b, "Shl": lambda a, b: a << b,
        "Shr": lambda a, b: a >> b}


def simplify(e):
    """Constant folding of the few shapes rustc leaves unfolded in mir_built
    (`Enum::Variant as u8` becomes `(discr + 0) as u8`)."""
    if not isinstance(e, tuple) or not e:
        return e
    k = e[0]
    if k == "proj":
        inner = simplify(e[1])
        if inner[0] == "bin" and inner[1].endswith("WithOverflow") and e[2] == ("0",):
            a, b = simplify(inner[2]), simplify(inner[3])
            op = inner[1][:-len("WithOverflow")]
            if a[0] == "const" and b[0] == "const" and isinstance(a[1], int) and isinstance(b[1], int) and op in _OPS:
                return ("const", _OPS[op](a[1], b[1]))
            return ("bin", op, a, b) + tuple(inner[4:])
        return ("proj", inner, e[2])
    if k == "bin":
        a, b = simplify(e[2]), simplify(e[3])
        if a[0] == "const" and b[0] == "const" and isinstance(a[1], int) and isinstance(b[1], int) and e[1] in _OPS:
            return ("const", _OPS[e[1]](a[1], b[1]))
        return ("bin", e[1], a, b) + tuple(e[4:])
    if k == "cast":
        a = simplify(e[1])
        if a[0] == "const" and isinstance(a[1], int) and e[3] == "IntToInt":
            return a
        return ("cast", a) + tuple(e[2:])
    if k in ("call", "agg"):
        return (k, e[1], tuple(simplify(a) for a in e[2])) + tuple(e[3:])
    if k in ("ref", "discr"):
        return (k, simplify(e[1])) + tuple(e[2:])
    if k == "un":
        return ("un", e[1], simplify(e[2]))
    return e


def show(e, depth=0):
    if e is None:
        return "?"
    k = e[0]
    if k == "const":
        return repr(e[1]) if not isinstance(e[1], int) else ("0x%X" % e[1] if e[1] > 9 else str(e[1]))
    if k == "constparam":
        return e[1]
    if k == "upvar":
        return "^" + e[1]
    if k == "len":
        return "len(%s)" % show(e[1])
    if k == "constbytes":
        return "<%d bytes>" % e[1]
    if k == "repeat":
        return "[%s; _]" % show(e[1])
    if k == "path":
        return ".".join((str(e[1]),) + tuple(str(x) for x in e[2]))
    if k == "var":
        return e[1]
    if k == "call":
        short = e[1].replace("std::collections::hash::map::", "").replace("core::option::Option::<T>::", "Option::")
        return "%s(%s)" % (short, ", ".join(show(a) for a in e[2]))
    if k == "ref":
        return "&" + show(e[1])
    if k == "bin":
        return "(%s %s %s)" % (show(e[2]), e[1], show(e[3]))
    if k == "un":
        return "%s(%s)" % (e[1], show(e[2]))
    if k == "cast":
        return "(%s as %s)" % (show(e[1]), e[2])
    if k == "discr":
        return "discr(%s)" % show(e[1])
    if k == "agg":
        return "%s{%s}" % (e[1], ", ".join(show(a) for a in e[2]))
    if k == "proj":
        return "%s.%s" % (show(e[1]), ".".join(x if isinstance(x, str) else str(x) for x in e[2]))
    return "?"


def walk(e):
    """All sub-expressions."""
    yield e
    k = e[0]
    if k in ("call", "agg"):
        for a in e[2]:
            yield from walk(a)
    elif k in ("ref", "discr", "proj"):
        yield from walk(e[1])
    elif k == "bin":
        yield from walk(e[2])
        yield from walk(e[3])
    elif k in ("un",):
        yield from walk(e[2])
    elif k == "cast":
        yield from walk(e[1])


def strip_ref(e):
    while e and e[0] == "ref":
        e = e[1]
    return e


def is_path(e, root, fields=None):
    e = strip_ref(e)
    if e[0] != "path" or e[1] != root:
        return False
    return fields is None or tuple(e[2]) == tuple(fields)
