"""C17 — scalar, text and tag encodings round-trip over their whole domain."""
import rules_c01
import rules_c02
from mirlite import callee, callee_res, ty_str, op_place, op_local
from expr import show, walk, strip_ref
from discharge import make_prover, VEx, INDEX

EXPLANATION = (
    "The value-level round trip (digit arithmetic of BCD, every CP437 byte) is NOT decided. Decided from MIR: (a) digits "
    "that do not fit are an error - every Overflow / truncation site of the BCD decoders, the receipt-number decoder and "
    "the LLVAR reader is discharged as in C02, and the BCD accumulator is only ever advanced through checked_mul / "
    "checked_add whose None is turned into Err (no plain * or + on it); (b) the ten integral encode/decode pairs use "
    "inverse primitives of one flavour and `Default` is little-endian, `BigEndian` big-endian; (c) tag pages: the set of "
    "high bytes for which the writer emits the two-byte form equals the set of first bytes for which the reader reads two "
    "bytes and equals the specification's {0x1F, 0xFF}; the two-byte form is big-endian on both sides and its read is "
    "guarded by len >= 2; (d) the receipt-number sentinel 0xFFFF is recognised on both sides and routed to the same "
    "(Default, u16) codec, everything else to BCD; (e) hex and CP437 text use inverse primitives on the same code page.")
RULE = ("C17-a = C02 rule restricted to the digit decoders + checked-arithmetic shape; C17-b/e inverse-primitive table; "
        "C17-c/d constant-set agreement between writer and reader switch conditions and the constants table.")

ENC = "zvt_builder::encoding::Encoding"
TAG_PAGES = {0x1F, 0xFF}
SENTINEL = 0xFFFF
INTS = ("u8", "u16", "u32", "u64", "usize")


def find(crates, E, T):
    return rules_c01.find_encoding_impl(crates, E, T)


def op_local_of_dest(t):
    d = t.get("dest")
    return d["l"] if isinstance(d, dict) and not d.get("p") else None


def eq_consts(body, vx, pred):
    """(c, switch block, target) for every edge that is taken exactly when X == c, where pred(X):
    `if X == c`, `if X != c` (the other edge), and `match X { c1 | c2 => .. }` / `matches!(X, ..)`
    (a switch on X itself with one target per constant)."""
    out = []
    for i in sorted(body.reachable(0)):
        t = body.blocks[i]["term"]
        if t["t"] != "switch":
            continue
        c = vx.operand(t["d"], i)
        if c[0] == "bin" and c[1] in ("Eq", "Ne"):
            for a, b in ((c[2], c[3]), (c[3], c[2])):
                if b[0] == "const" and isinstance(b[1], int) and pred(a):
                    zero_t = dict((v, tb) for v, tb in t["targets"]).get(0)
                    true_t = t["else"] if c[1] == "Eq" else zero_t
                    if true_t is not None:
                        out.append((b[1], i, true_t))
        elif pred(c):
            for v, tb in t["targets"]:
                if tb != t["else"]:
                    out.append((v, i, tb))
    return out


def run(ctx, chk):
    zb, zvt = ctx.crate("zvt_builder"), ctx.crate("zvt")
    crates = [zb, zvt]

    # (a)
    def digit_decoder(b):
        r = b.raw
        root = r.get("root", b.id)
        for c in crates:
            rb = c.bodies.get(root)
            if rb is not None:
                r = rb.raw
                break
        if r.get("impl_trait") == ENC and r.get("name") == "decode":
            E = ty_str(r.get("impl_self"))
            return E in ("zvt_builder::encoding::Bcd", "zvt::packets::PartialReversalReceiptNo")
        if r.get("impl_trait") == "zvt_builder::length::Length" and r.get("name") == "deserialize":
            return ty_str(r.get("impl_self")).startswith("zvt_builder::length::LlvImpl")
        return False
    rules_c02.run(ctx, chk, only=digit_decoder, prop="C17")
    n_bcd = 0
    for T in INTS:
        enc, dec = find(crates, "zvt_builder::encoding::Bcd", T)
        inst = "<Bcd as Encoding<%s>>::decode" % T
        if not chk.require(dec is not None, "C17-a/present", inst, "decoder not found", "", nontrivial=False):
            continue
        n_bcd += 1
        pr = make_prover(dec, crates)
        # the accumulator: the local returned as the value (first component of the Ok tuple), whatever it is called
        acc_locals = set()
        for i in sorted(dec.reachable(0)):
            for st in dec.blocks[i]["stmts"]:
                if st["s"] == "assign" and st["p"]["l"] == 0 and not st["p"]["p"]:
                    e = pr.vx.rvalue(st["rv"], i)
                    if e[0] == "agg" and str(e[1]).endswith("Result::Ok") and e[2] and e[2][0][0] == "agg" and e[2][0][1] == "tuple" and e[2][0][2]:
                        v0 = e[2][0][2][0]
                        while v0[0] == "cast":
                            v0 = v0[1]
                        if v0[0] == "var":
                            acc_locals.add(v0[2])
        is_acc = lambda x: x[0] == "var" and (x[2] in acc_locals if acc_locals else x[1] == "rv")
        plain = []
        checked = set()
        for i in sorted(dec.reachable(0)):
            for st in dec.blocks[i]["stmts"]:
                if st["s"] == "assign" and st["rv"]["r"] == "bin" and st["rv"]["op"].replace("WithOverflow", "") in ("Mul", "Add"):
                    e = pr.vx.rvalue(st["rv"], i)
                    if any(is_acc(x) for x in walk(e)):
                        plain.append(show(e)[:60])
            t = dec.blocks[i]["term"]
            if t["t"] == "call" and callee(t).endswith(("::checked_mul", "::checked_add")):
                checked.add(callee(t).rsplit("::", 1)[-1])
        closures = [c_ for c_ in zb.bodies.values() if c_.raw.get("parent") == dec.id or c_.id.startswith(dec.id + "::{closure")]
        for cb in closures:
            for _, t in cb.calls():
                if callee(t).endswith(("::checked_mul", "::checked_add")):
                    checked.add(callee(t).rsplit("::", 1)[-1])
        # every call that consumes the accumulator (or, in the helper closures, the running product)
        # must be a checked operation
        for i in sorted(dec.reachable(0)):
            t = dec.blocks[i]["term"]
            if t["t"] == "call":
                for a in t["args"]:
                    e = pr.vx.operand(a, i)
                    if is_acc(e) and not callee(t).endswith(("::checked_mul", "::checked_add")):
                        plain.append("%s(rv)" % callee(t).rsplit("::", 1)[-1])
        for cb in closures:
            cvx = VEx(cb)
            for i in sorted(cb.reachable(0)):
                t = cb.blocks[i]["term"]
                if t["t"] == "call":
                    for a in t["args"]:
                        e = cvx.operand(a, i)
                        if e[0] == "path" and e[1] == cvx.root_name(2) and not e[2] and \
                                not callee(t).endswith(("::checked_mul", "::checked_add")):
                            plain.append("%s(acc) in closure" % callee(t).rsplit("::", 1)[-1])
                for st in cb.blocks[i]["stmts"]:
                    if st["s"] == "assign" and st["rv"]["r"] == "bin":
                        e = cvx.rvalue(st["rv"], i)
                        if any(x[0] == "path" and x[1] == cvx.root_name(2) for x in walk(e)):
                            plain.append("closure arithmetic " + show(e)[:40])
        chk.require(not plain and checked == {"checked_mul", "checked_add"}, "C17-a/checked-accumulation", inst,
                    "the digit accumulator is advanced by unchecked arithmetic %s (checked ops found: %s): digits that do not fit "
                    "would wrap" % (plain, sorted(checked)), "checked_mul/checked_add only", dec.sp())
        # None -> Err: an ok_or + `?` whose Err edge returns
        # (the conversion may sit in the closure of `try_fold`: its Err ends the fold and the `?` outside returns it)
        okor = [t for b_ in [dec] + closures for _, t in b_.calls()
                if callee(t) in ("core::option::Option::<T>::ok_or", "core::option::Option::<T>::ok_or_else")]
        resid = [t for _, t in dec.calls() if callee(t).endswith("FromResidual::from_residual") and t["dest"]["l"] == 0]
        as_error = bool(okor) and bool(resid)
        if not as_error:
            # spelled out: `match next { Some(v) => v, None => return Err(..) }`
            for i in sorted(dec.reachable(0)):
                t = dec.blocks[i]["term"]
                if t["t"] != "switch":
                    continue
                e = pr.vx.operand(t["d"], i)
                if e[0] != "discr":
                    continue
                v_ = pr.tr.value(t["d"])
                if not (v_.kind == "rv" and v_.rv["r"] == "discr" and ty_str(v_.rv["of"]).startswith("core::option::Option<")):
                    continue
                from_checked = any(x[0] == "call" and x[1].endswith(("::checked_mul", "::checked_add", "Option::<T>::and_then"))
                                   for x in walk(e)) or any(x[0] == "var" for x in walk(e))
                if not from_checked:
                    continue
                none_t = dict((val, tb) for val, tb in t["targets"]).get(0, t["else"])
                region = dec.reachable(none_t)
                errs = 0
                oks = 0
                for j in sorted(region):
                    if not dec.dominates(none_t, j):
                        continue
                    for st in dec.blocks[j]["stmts"]:
                        if st["s"] == "assign" and st["p"]["l"] == 0 and not st["p"]["p"] and st["rv"]["r"] == "agg":
                            if st["rv"].get("vname") == "Err":
                                errs += 1
                            else:
                                oks += 1
                if errs >= 1 and oks == 0:
                    as_error = True
        chk.require(as_error, "C17-a/overflow-is-error", inst,
                    "a failed checked operation is not turned into an error return", "ok_or(..)? / None => return Err", dec.sp())
    chk.floor("BCD decoders", n_bcd, 5)
    n_enc = 0
    for T in INTS:
        enc, _dec = find(crates, "zvt_builder::encoding::Bcd", T)
        if enc is None:
            continue
        n_enc += bcd_encoder_exhausts(chk, enc, T)
    # (b) + (e): pairing via the C01 machinery restricted to scalar/text encodings
    n_pairs = 0
    for E, flavour in (("zvt_builder::encoding::Default", "le"), ("zvt_builder::encoding::BigEndian", "be")):
        for T in INTS:
            enc, dec = find(crates, E, T)
            inst = "<%s as Encoding<%s>>" % (E.rsplit("::", 1)[-1], T)
            if not chk.require(enc is not None and dec is not None, "C17-b/present", inst, "impl pair not found", "", nontrivial=False):
                continue
            n_pairs += 1
            ec = {callee_res(t) for _, t in enc.calls()}
            dc = {callee_res(t) for _, t in dec.calls()}
            want_e, want_d = "::to_%s_bytes" % flavour, "::from_%s_bytes" % flavour
            other_e = "::to_%s_bytes" % ("be" if flavour == "le" else "le")
            other_d = "::from_%s_bytes" % ("be" if flavour == "le" else "le")
            ok = any(x.endswith(want_e) for x in ec) and any(x.endswith(want_d) for x in dc)
            if T == "u8":
                ok = ok or (any("_bytes" in x for x in ec) and any("_bytes" in x for x in dc))
            mixed = any(x.endswith(other_e) for x in ec) or any(x.endswith(other_d) for x in dc)
            chk.require(ok and (T == "u8" or not mixed), "C17-b/byte-order", inst,
                        "%s must be %s-endian on both sides: encode uses %s, decode uses %s"
                        % (E.rsplit("::", 1)[-1], "little" if flavour == "le" else "big",
                           sorted(x.rsplit("::", 1)[-1] for x in ec if "_bytes" in x), sorted(x.rsplit("::", 1)[-1] for x in dc if "_bytes" in x)),
                        flavour, enc.sp(), nontrivial=T != "u8")
            # width: decode consumes exactly size_of::<T>() bytes (remainder = &data[size..])
    chk.floor("integral codec pairs", n_pairs, 10)
    text(chk, crates)
    tags(chk, crates)
    sentinel(chk, crates)


def bcd_encoder_exhausts(chk, enc, T):
    """A BCD encoder that peels digits off a running value `k` (`k /= 10`) in a loop may stop only when `k == 0`: any
    other way out of the loop (a fixed number of positions used up, a counter) leaves the leading digits unwritten for
    values that need more positions - silently, since nothing fails.  -> number of loops judged (0 = another shape)."""
    vx = VEx(enc)
    loops = enc.natural_loops()
    n = 0
    for h, blks in sorted(loops.items()):
        # the running value: a local that the loop divides by a constant and stores back
        ks = set()
        for i in blks:
            for st in enc.blocks[i]["stmts"]:
                if st["s"] == "assign" and not st["p"]["p"] and st["rv"]["r"] == "bin" and st["rv"]["op"] == "Div":
                    pa = op_place(st["rv"]["a"])
                    if pa is not None and not pa["p"] and "k" in st["rv"]["b"]:
                        src = pa["l"]
                        # `k = k / 10` directly, or through a temporary copied from k in the same loop
                        hops = 0
                        while src != st["p"]["l"] and hops < 3:
                            ds = [d for d in enc.defs.get(src, []) if d[0] in blks and d[2] == "assign" and d[3]["rv"]["r"] == "use"]
                            if len(ds) != 1 or op_place(ds[0][3]["rv"]["o"]) is None:
                                break
                            src = op_place(ds[0][3]["rv"]["o"])["l"]
                            hops += 1
                        if src == st["p"]["l"]:
                            ks.add(src)
        if not ks:
            continue
        n += 1
        exits = sorted({(x, y) for x in blks for y in enc.succ[x] if y not in blks and enc.blocks[y]["term"]["t"] != "unreachable"})
        bad = []
        for x, y in exits:
            t = enc.blocks[x]["term"]
            ok = False
            if t["t"] == "switch":
                e = strip_ref(vx.operand(t["d"], x))
                if e[0] == "bin" and e[1] in ("Eq", "Ne"):
                    a, b = strip_ref(e[2]), strip_ref(e[3])
                    if a[0] == "const":
                        a, b = b, a
                    is_k = a[0] in ("var", "path") and any(enc.local_name(k_) == a[1] or "_%d" % k_ == a[1] for k_ in ks) and \
                        not (a[0] == "path" and a[2])
                    if is_k and b == ("const", 0):
                        zero_target = [tb for v_, tb in t["targets"] if v_ == 0]
                        # Eq: value 0 = false -> k != 0; else = true -> k == 0.   Ne: value 0 = false -> k == 0
                        k_zero_edge = t["else"] if e[1] == "Eq" else (zero_target[0] if zero_target else None)
                        ok = (y == k_zero_edge)
            if not ok and t["t"] == "switch":
                # ... or the loop runs over the N positions of a fixed buffer, divides k by c on every trip, and c^N exceeds
                # the largest value of the type: after N trips k is 0 whatever it was
                pb = [p_ for p_ in enc.pred[x] if p_ in blks]
                nt = enc.blocks[pb[0]]["term"] if len(pb) == 1 else None
                if nt is not None and nt["t"] == "call" and callee(nt) == "core::iter::traits::iterator::Iterator::next" and nt["to"] == x:
                    import re
                    import contracts as _c
                    lens = {int(m.group(1)) for l_ in enc.locals for m in [re.match(r"^\[u8; (\d+)\]$", ty_str(l_.get("ty")) or "")] if m}
                    divs = {}
                    for i in blks:
                        for st in enc.blocks[i]["stmts"]:
                            if st["s"] == "assign" and not st["p"]["p"] and st["p"]["l"] in ks and st["rv"]["r"] == "bin" and \
                                    st["rv"]["op"] == "Div" and "k" in st["rv"]["b"] and isinstance(st["rv"]["b"]["k"].get("v"), int):
                                divs.setdefault(i, st["rv"]["b"]["k"]["v"])
                    bits = {"u8": 8, "u16": 16, "u32": 32, "u64": 64, "usize": 64, "u128": 128}.get(T)
                    if len(lens) == 1 and divs and bits and _c.cycles_broken_by(enc, h, blks, set(divs)):
                        c = min(divs.values())
                        ok = c >= 2 and c ** list(lens)[0] > 2 ** bits - 1
            if not ok:
                bad.append(x)
        chk.require(not bad, "C17-a/encoder-exhausts-value", "<Bcd as Encoding<%s>>::encode" % T,
                    "the digit loop can be left from bb%s without the running value having reached 0: values with more digits "
                    "than the loop has positions lose their leading digits silently" % bad, "only exit: k == 0",
                    (enc.blocks[bad[0]]["term"].get("sp") if bad else None) or enc.sp())
    if n == 0:
        # no digit loop: an encoder written as a chain over a constant range of byte positions
        # (`(0..P).rev().map(|pos| value / 100^pos % 100)...collect()`): one output byte = two digits per position, so P
        # positions hold every value of the type only if 100^P > MAX - a P rounded down drops the leading digits silently
        from flow import Tracer
        tr = Tracer(enc)
        coll = [(bb, t) for bb, t in enc.calls() if callee(t).endswith("Iterator::collect") and t["dest"]["l"] == 0]
        if len(coll) == 1:
            v = tr.value(coll[0][1]["args"][0])
            names = []
            hops = 0
            while v.kind == "call" and hops < 10:
                hops += 1
                names.append(callee(v.term).rsplit("::", 1)[-1])
                v = tr.value(v.term["args"][0])
            simple = all(x in ("map", "rev", "skip_while", "filter", "into_iter", "take_while", "inspect") for x in names) and "map" in names
            if simple and v.kind == "agg" and v.rv.get("kind") == "adt" and str(v.rv.get("n", "")).endswith("ops::range::Range"):
                lo, hi = tr.const_int(v.rv["ops"][0]), tr.const_int(v.rv["ops"][1])
                bits = {"u8": 8, "u16": 16, "u32": 32, "u64": 64, "usize": 64, "u128": 128}.get(T)
                if lo == 0 and hi is not None and bits:
                    n += 1
                    chk.require(100 ** hi > 2 ** bits - 1, "C17-a/encoder-exhausts-value", "<Bcd as Encoding<%s>>::encode" % T,
                                "the encoder writes %d byte position(s) = %d digits, the type needs %d: the leading digits of large "
                                "values are dropped silently" % (hi, 2 * hi, len(str(2 ** bits - 1))), "100^P > MAX", enc.sp())
    return n


STR_ALTERING = ("trim", "trim_start", "trim_end", "trim_matches", "trim_start_matches", "trim_end_matches", "trim_left", "trim_right",
                "trim_left_matches", "trim_right_matches", "strip_prefix", "strip_suffix", "replace", "replacen", "to_uppercase",
                "to_lowercase", "to_ascii_uppercase", "to_ascii_lowercase", "split_at", "split_once", "rsplit_once", "truncate", "pop",
                "remove", "retain", "drain", "repeat", "chars", "char_indices", "bytes", "split", "rsplit", "lines", "get", "get_unchecked")


def text(chk, crates):
    """(e) text codecs: inverse primitive pair, the CP437 code page on both sides, and a decoder that removes nothing but
    trailing NUL padding (the one exclusion the round-trip domain makes: "text ending in NUL")."""
    for E, T, es, ds, what in (("zvt_builder::encoding::Hex", "alloc::string::String", "hex::FromHex>::from_hex", "hex::ToHex>::encode_hex", "hex"),
                               ("zvt_builder::encoding::Default", "alloc::string::String", "CP437::encode", "CP437::decode", "cp437")):
        enc, dec = find(crates, E, T)
        inst = "<%s as Encoding<String>>" % E.rsplit("::", 1)[-1]
        if not chk.require(enc is not None and dec is not None, "C17-e/present", inst, "impl pair not found", "", nontrivial=False):
            continue
        ec = {callee_res(t) for _, t in enc.calls()}
        dc = {callee_res(t) for _, t in dec.calls()}
        chk.require(any(es in x for x in ec) and any(ds in x for x in dc), "C17-e/text-pairing", inst,
                    "%s text codec does not use the inverse pair %s / %s" % (what, es, ds), what, enc.sp())
        if what != "cp437":
            continue
        # one code page, the specified one, in both directions
        pages = sorted({x.split("yore::code_pages::")[1].split("::")[0] for x in ec | dc if "yore::code_pages::" in x})
        chk.require(pages == ["cp437"], "C17-e/text-codepage", inst,
                    "text is converted with code page(s) %s; ZVT text is CP437 (the same bytes mean other characters elsewhere)" % pages,
                    "cp437 only", enc.sp())
        # the decoder hands back the decoded text, minus trailing NULs only
        vx = VEx(dec)
        bad = []
        for bb, t_ in dec.calls():
            n = callee(t_)
            m = n.rsplit("::", 1)[-1]
            if not (n.startswith(("core::str::<impl str>::", "alloc::str::<impl str>::", "alloc::string::String::")) and m in STR_ALTERING):
                continue
            if m == "trim_end_matches" and len(t_["args"]) == 2:
                pat = vx.operand(t_["args"][1], bb)
                while pat[0] == "cast":
                    pat = pat[1]
                if pat == ("const", 0):
                    continue
                bad.append("trim_end_matches(%s)" % show(pat)[:30])
            else:
                bad.append(m)
        # ... and it is the *whole* input that is decoded: the bytes handed to the code page are the function's input,
        # not a part of it chosen by their value (cutting at the first NUL loses everything behind an embedded one)
        dcalls = [(bb, t_) for bb, t_ in dec.calls() if "yore::code_pages::" in callee_res(t_) and "::decode" in callee_res(t_)]
        whole = bool(dcalls)
        for bb, t_ in dcalls:
            arg = strip_ref(vx.operand(t_["args"][-1], bb))
            while arg[0] == "cast":
                arg = strip_ref(arg[1])
            if not (arg[0] == "path" and arg[1] == vx.root_name(1) and not arg[2]):
                whole = False
                bad.append("decoding only %s" % show(arg)[:50])
        # ... and on every path that returns text, the text is what the code page made of the input (no other decoding
        # tried first: "valid UTF-8" and "CP437" disagree on every byte >= 0x80)
        import pathsym as ps
        pe_ = ps.PathEval(dec, {})
        for r_ in [i for i in sorted(dec.reachable(0)) if dec.blocks[i]["term"]["t"] == "return"]:
            for path in ps.simple_paths(dec, 0, r_):
                env_, _ = pe_.run(path)
                e_ = ps.norm(env_.get(0, ("pre", 0)))
                if e_[0] == "agg" and str(e_[1]).endswith("Result::Ok"):
                    if not any(x[0] == "call" and "yore::code_pages::" in str(x[1]) and "decode" in str(x[1]) for x in ps.walk(e_)):
                        bad.append("a result that does not come from the code page: %s" % ps.show(e_)[:60])
        chk.require(not bad, "C17-e/text-trim", inst,
                    "the text decoder alters the decoded text by %s: only trailing NUL padding may be removed (a value with such "
                    "characters elsewhere would not come back)" % bad, "trim_end_matches('\\0') only", dec.sp())


def tags(chk, crates):
    enc, dec = find(crates, "zvt_builder::encoding::Default", "zvt_builder::Tag")
    if not chk.require(enc is not None and dec is not None, "C17-c/present", "Encoding<Tag> for Default", "not found", "", nontrivial=False):
        return
    ve, vd = VEx(enc), VEx(dec)

    def high_byte(e):
        return e[0] == "bin" and e[1] == "Shr" and e[3] == ("const", 8) and any(x[0] in ("path", "proj") and x[2][-1:] == ("0",) for x in walk(e[2]))

    def first_byte(e):
        e = strip_ref(e)
        return e[0] == "proj" and e[1][0] == "call" and e[1][1] == "zvt_builder::encoding::Encoding::decode" and \
            e[1][4][:2] == ("zvt_builder::encoding::BigEndian", "u8") and tuple(e[2]) == ("@Ok", "0", "0")
    # Case split over the key byte (256 values, each decided by constant propagation along feasible paths -
    # no execution): for which values is the two-byte form reachable, and can the one-byte result still be
    # produced for them?  Independent of how the test is spelled (||, match, matches!, named flag, early return).
    from mirlite import feasible_reach, is_error_propagation

    def key_locals(body, vx, pred):
        out = set()
        for l in range(len(body.locals)):
            ds = body.defs.get(l, [])
            if len(ds) != 1 or ds[0][2] != "assign" or ds[0][3]["p"]["p"]:
                continue
            try:
                e = vx.rvalue(ds[0][3]["rv"], ds[0][0])
            except Exception:
                continue
            if pred(e):
                out.add(l)
        return out

    def ok_returns(body):
        out = set()
        for i in sorted(body.reachable(0)):
            if body.blocks[i]["term"]["t"] == "return":
                out.add(i)
        return out
    wcalls = [(bb, t) for bb, t in enc.calls() if callee(t).endswith("u16>::to_be_bytes")]
    # the two-byte form is read as a big-endian u16: through the BigEndian u16 codec or u16::from_be_bytes
    rcalls = [(bb, t) for bb, t in dec.calls() if (callee(t) == "zvt_builder::encoding::Encoding::decode" and
              [ty_str(x) for x in t["f"]["a"]][:2] == ["zvt_builder::encoding::BigEndian", "u16"]) or
              callee(t) == "core::num::<impl u16>::from_be_bytes"]
    # ... also when that read sits in a closure handed to a combinator (`rest.split_first().map(|..| from_be_bytes..)`):
    # the combinator call then stands for the read
    for cr_ in crates.values() if isinstance(crates, dict) else crates:
        for cb in cr_.bodies.values():
            if cb.raw.get("parent") != dec.id or not any(callee(t_) == "core::num::<impl u16>::from_be_bytes" for _, t_ in cb.calls()):
                continue
            holders = {l for l, ds in dec.defs.items() for d_ in ds
                       if d_[2] == "assign" and d_[3]["rv"]["r"] == "agg" and d_[3]["rv"].get("kind") == "closure" and d_[3]["rv"].get("n") == cb.id}
            for bb, t_ in dec.calls():
                if any(op_local(a_) in holders for a_ in t_["args"]):
                    rcalls.append((bb, t_))

    def first_byte_any(e):
        """the first input byte, however it is obtained"""
        if first_byte(e):
            return True
        from discharge import unq
        e2 = strip_ref(unq(e))
        if e2[0] == "path" and e2[1] == vd.root_name(1) and tuple(e2[2]) == ("[0]",):
            return True
        if e2[0] == "proj" and e2[1][0] == "call" and tuple(e2[2])[:2] == ("@Some", "0"):
            n_ = e2[1][1]
            if n_.endswith("<impl [T]>::first") and len(e2[2]) == 2:
                return True
            if n_.endswith("<impl [T]>::split_first") and tuple(e2[2]) == ("@Some", "0", "0"):
                return True
            if n_.endswith("<impl [T]>::get") and len(e2[1][2]) == 2 and e2[1][2][1] == ("const", 0) and len(e2[2]) == 2:
                return True
        return False
    wk, rk = key_locals(enc, ve, high_byte), key_locals(dec, vd, first_byte_any)
    # slice patterns read the byte in place: pin the place as well
    rk_places = {("byte", 1, 0)}
    # the writer may also select on the first byte of `tag.to_be_bytes()` (array pattern): pin that place
    wk_places = {("byte", op_local_of_dest(t_), 0) for _, t_ in wcalls if op_local_of_dest(t_) is not None}
    if not chk.require(len(rcalls) == 1 and (wk or wk_places) and (rk or rk_places), "C17-c/present", "Encoding<Tag> two-byte form",
                       "two-byte form or its selecting byte not found (writer to_be_bytes calls %d, reader calls %d, key locals %d/%d)"
                       % (len(wcalls), len(rcalls), len(wk), len(rk)), "", enc.sp(), nontrivial=False):
        return
    import pathsym as ps
    pe_w = ps.PathEval(enc, {})
    tag_val = ("field", ("pre", 1), "0")

    def byte_of(e):
        """'hi' / 'lo' if e is the high / low byte of the tag value"""
        e = ps.strip(e) if hasattr(ps, "strip") else e
        if e[0] == "cast" and e[2] == "u8":
            x = e[1]
            if x == tag_val:
                return "lo"
            if x[0] == "bin" and x[1] == "Shr" and x[2] == tag_val and x[3] == ("const", 8):
                return "hi"
            if x[0] == "bin" and x[1] == "BitAnd" and tag_val in (x[2], x[3]) and ("const", 255) in (x[2], x[3]):
                return "lo"
        if e[0] == "field" and e[1][0] == "call" and e[1][1] == "core::num::<impl u16>::to_be_bytes" and e[1][2] == (tag_val,):
            k_ = e[2]
            ix = k_[1] if isinstance(k_, tuple) and k_ and k_[0] == "cidx" else (k_[1][1] if isinstance(k_, tuple) and k_[0] == "idx" and k_[1][0] == "const" else None)
            return {0: "hi", 1: "lo"}.get(ix)
        return None

    def tag_bytes(e, d=0):
        """the byte string an expression denotes, as a list over {'hi','lo'} (None = not understood)"""
        if d > 12 or not isinstance(e, tuple):
            return None
        if e[0] == "call":
            n_ = e[1]
            if n_ == "core::num::<impl u16>::to_be_bytes" and e[2] == (tag_val,):
                return ["hi", "lo"]
            if n_.endswith(("::to_vec", "::into_vec", "::box_assume_init_into_vec_unsafe", "::from", "::into", "::to_owned", "Box::<T>::new",
                            "::box_new")) and e[2]:
                return tag_bytes(e[2][0], d + 1)
            return None
        if e[0] == "agg" and e[1] == "update":
            return tag_bytes(e[2][-1], d + 1)
        if e[0] == "agg" and e[1] == "array":
            out_ = [byte_of(x) for x in e[2]]
            return None if None in out_ else out_
        if e[0] == "ref":
            return tag_bytes(e[1], d + 1)
        return None
    wset, rset = set(), set()
    w_exclusive = r_exclusive = True
    w_other = {}
    rets_w = sorted(ok_returns(enc))
    for v in range(256):
        pw = {l: ("i", v) for l in wk}
        pw.update({k_: ("i", v) for k_ in wk_places})
        pr_ = {l: ("i", v) for l in rk}
        pr_.update({k_: ("i", v) for k_ in rk_places})
        # the writer is judged by what it returns for this high byte, along every feasible path
        forms = set()
        for r_ in rets_w:
            for path in ps.simple_paths(enc, 0, r_, pins=pw):
                env_, _ = pe_w.run(path)
                tb_ = tag_bytes(ps.norm(env_.get(0, ("pre", 0))))
                forms.add(tuple(tb_) if tb_ is not None else ("?", ps.show(ps.norm(env_.get(0, ("pre", 0))))[:80]))
        if ("hi", "lo") in forms:
            wset.add(v)
            if forms != {("hi", "lo")}:
                w_exclusive = False
        for f_ in forms - {("hi", "lo"), ("lo",)}:
            w_other.setdefault(f_, []).append(v)
        # ... and over the input length (0..4 stands for "4 or more": lengths are only compared with small constants)
        for L_ in range(1, 5):
            pl = dict(pr_)
            pl[("len", 1)] = ("i", L_)
            if rcalls[0][0] in feasible_reach(dec, 0, pins=pl):
                rset.add(v)
        if v in rset:
            for L_ in range(1, 5):
                pl = dict(pr_)
                pl[("len", 1)] = ("i", L_)
                rest = feasible_reach(dec, 0, cut_blocks=[rcalls[0][0]], pins=pl)
                for i in rest:
                    for st in dec.blocks[i]["stmts"]:
                        if st["s"] == "assign" and st["p"]["l"] == 0 and not st["p"]["p"] and st["rv"]["r"] == "agg" and \
                                st["rv"].get("vname") == "Ok":
                            r_exclusive = False
    # the reader refuses nothing it could read: with enough bytes at hand (1 for a one-byte tag, 2 on a two-byte page)
    # no explicit Err is reachable - whatever the second byte is (the writer emits all of them)
    refused = {}
    for v in range(256):
        pr_ = {l: ("i", v) for l in rk}
        pr_.update({k_: ("i", v) for k_ in rk_places})
        for L_ in range(2 if v in TAG_PAGES else 1, 5):
            pl = dict(pr_)
            pl[("len", 1)] = ("i", L_)
            for i in feasible_reach(dec, 0, pins=pl):
                for st in dec.blocks[i]["stmts"]:
                    if st["s"] == "assign" and st["p"]["l"] == 0 and not st["p"]["p"] and st["rv"]["r"] == "agg" and \
                            st["rv"].get("vname") == "Err" and not is_error_propagation(dec, st):
                        refused.setdefault(v, set()).add(L_)
    chk.require(not refused, "C17-c/reader-total", "Encoding<Tag>::decode",
                "the reader can refuse a tag although all its bytes are there (first byte %s): the writer emits every such tag, so "
                "those values do not come back" % ", ".join("0x%02x" % v for v in sorted(refused)[:8]),
                "no Err with enough input", dec.sp())
    chk.analysed["tag_page_case_split"] = {"values": 256, "writer_pages": sorted(wset), "reader_pages": sorted(rset)}
    chk.require(wset == TAG_PAGES, "C17-c/writer-pages", "Encoding<Tag>::encode",
                "two-byte tags are written for high bytes %s, specification says %s" % (sorted(map(hex, wset)), sorted(map(hex, TAG_PAGES))),
                "{0x1F, 0xFF}", enc.sp())
    chk.require(rset == TAG_PAGES, "C17-c/reader-pages", "Encoding<Tag>::decode",
                "two-byte tags are read for first bytes %s, specification says %s" % (sorted(map(hex, rset)), sorted(map(hex, TAG_PAGES))),
                "{0x1F, 0xFF}", dec.sp())
    chk.require(wset == rset, "C17-c/pages-agree", "Encoding<Tag>", "writer pages %s != reader pages %s" % (sorted(wset), sorted(rset)),
                "agree", enc.sp(), nontrivial=False)
    chk.require(w_exclusive, "C17-c/two-byte-writer", "Encoding<Tag>::encode",
                "for a two-byte page the writer can also produce a result that is not `tag.to_be_bytes()`", "to_be_bytes on every page path", enc.sp())
    chk.require(r_exclusive, "C17-c/two-byte-reader", "Encoding<Tag>::decode",
                "for a two-byte page the reader can also return a tag without reading the big-endian u16", "BigEndian u16 on every page path", dec.sp())
    # one-byte form: every other high byte yields exactly the low byte (`[tag as u8]`, `[low]` of to_be_bytes, ..)
    chk.require(not w_other, "C17-c/one-byte-writer", "Encoding<Tag>::encode",
                "the writer can produce something that is neither [high, low] nor [low]: %s"
                % "; ".join("%s for high byte(s) %s" % (list(f_), [hex(x) for x in vs_[:4]]) for f_, vs_ in sorted(w_other.items(), key=str)),
                "[tag as u8]", enc.sp())
    # BigEndian Tag = plain u16 big endian both ways
    enc2, dec2 = find(crates, "zvt_builder::encoding::BigEndian", "zvt_builder::Tag")
    if enc2 is not None and dec2 is not None:
        e_ok = any(callee_res(t).endswith("BigEndian as zvt_builder::encoding::Encoding<u16>>::encode") for _, t in enc2.calls())
        d_ok = any(callee_res(t).endswith("BigEndian as zvt_builder::encoding::Encoding<u16>>::decode") for _, t in dec2.calls())
        chk.require(e_ok and d_ok, "C17-c/control-field-tag", "Encoding<Tag> for BigEndian",
                    "the APDU control-field tag is not a big-endian u16 on both sides", "BigEndian u16", enc2.sp())


def _under_any(body, edges, target_bb):
    """target is reachable only through one of the (switch_bb, true_target) edges (bool temporaries such
    as the result of `matches!` are followed path-sensitively)."""
    from mirlite import feasible_reach
    return target_bb not in feasible_reach(body, 0, cut_edges=set(edges)) and target_bb in body.reachable(0)


def _input_view(vx, e):
    """(lo, hi) if e denotes bytes lo..hi of the decoder's input slice (parameter 1), in any spelling"""
    e = strip_ref(e)
    while e[0] == "cast":
        e = strip_ref(e[1])
    root = ("path", vx.root_name(1), ())
    if e[0] == "call" and e[1] in INDEX and len(e[2]) == 2 and strip_ref(e[2][0]) == root:
        r = strip_ref(e[2][1])
        if r[0] == "agg" and r[1].endswith("Range::Range") and all(x[0] == "const" for x in r[2]):
            return (r[2][0][1], r[2][1][1])
        if r[0] == "agg" and r[1].endswith("RangeTo::RangeTo") and r[2][0][0] == "const":
            return (0, r[2][0][1])
    if e[0] == "proj" and strip_ref(e[1])[0] == "call" and strip_ref(e[1])[1].endswith(("<impl [T]>::split_at", "<impl [T]>::split_at_checked")):
        c = strip_ref(e[1])
        f = tuple(x for x in e[2] if x not in ("@Some",))
        if strip_ref(c[2][0]) == root and c[2][1][0] == "const" and f in (("0",), ("0", "0")):
            return (0, c[2][1][1])
    if e[0] == "proj" and strip_ref(e[1])[0] == "call" and strip_ref(e[1])[1].endswith(("<impl [T]>::first_chunk", "<impl [T]>::split_first_chunk")):
        c = strip_ref(e[1])
        ns = [int(str(g)) for g in (c[4] if len(c) > 4 else ()) if str(g).isdigit()]
        if strip_ref(c[2][0]) == root and len(ns) == 1:
            return (0, ns[0])
    return None


def _const_bytes(crates, e, depth=0):
    """the byte values of a constant array expression: `[0xff, 0xff]`, a named constant, `K.to_be_bytes()`"""
    e = strip_ref(e)
    while e[0] == "cast":
        e = strip_ref(e[1])
    if e[0] == "agg" and e[1] == "array" and all(x[0] == "const" and isinstance(x[1], int) for x in e[2]):
        return tuple(x[1] for x in e[2])
    if e[0] == "call" and e[1].endswith(("::to_be_bytes", "::to_le_bytes")) and e[2]:
        v = e[2][0]
        if v[0] == "const" and isinstance(v[1], str) and depth < 3:
            v = _const_item(crates, v[1]) or v
        w = {"u16": 2, "u32": 4, "u64": 8, "u8": 1}.get(e[1].split("<impl ")[-1].split(">")[0])
        if v[0] == "const" and isinstance(v[1], int) and w:
            return tuple(v[1].to_bytes(w, "big" if e[1].endswith("to_be_bytes") else "little"))
    if e[0] == "const" and isinstance(e[1], str) and e[1].startswith("const ") and depth < 3:
        body = _const_item(crates, e[1])
        if body is not None:
            return _const_bytes(crates, body, depth + 1)
    return None


def _const_item(crates, name):
    name = name[len("const "):] if name.startswith("const ") else name
    for c in crates:
        b = c.bodies.get(name)
        if b is not None:
            vx = VEx(b)
            for i in sorted(b.reachable(0)):
                for st in b.blocks[i]["stmts"]:
                    if st["s"] == "assign" and st["p"]["l"] == 0 and not st["p"]["p"]:
                        return vx.rvalue(st["rv"], i)
                t = b.blocks[i]["term"]
                if t["t"] == "call" and t["dest"]["l"] == 0 and not t["dest"]["p"]:
                    return ("call", callee(t), tuple(vx.operand(a, i) for a in t["args"]), i)
    return None


def sentinel(chk, crates):
    enc, dec = find(crates, "zvt::packets::PartialReversalReceiptNo", "usize")
    if not chk.require(enc is not None and dec is not None, "C17-d/present", "PartialReversalReceiptNo", "not found", "", nontrivial=False):
        return
    ve, vd = VEx(enc), VEx(dec)
    we = eq_consts(enc, ve, lambda e: e[0] == "path" and e[1] == ve.root_name(1))
    chk.require([c for c, _, _ in we] == [SENTINEL], "C17-d/writer-sentinel", "PartialReversalReceiptNo::encode",
                "writer treats %s as the sentinel, specification says FFFF" % [hex(c) for c, _, _ in we], "== 0xFFFF", enc.sp())
    # reader: bytes[0..2] == [0xff, 0xff]
    rd = []
    for i in sorted(dec.reachable(0)):
        t = dec.blocks[i]["term"]
        if t["t"] == "switch":
            c = vd.operand(t["d"], i)
            if c[0] == "call" and c[1] == "core::cmp::PartialEq::eq":
                arr = [x for x in walk(c) if x[0] == "agg" and x[1] == "array"]
                sl = [x for x in walk(c) if x[0] == "call" and x[1] in INDEX]
                if arr and sl:
                    rd.append((tuple(e[1] for e in arr[0][2] if e[0] == "const"), show(strip_ref(sl[0][2][1])), i, t["else"]))
    ok = len(rd) == 1 and rd[0][0] == (0xFF, 0xFF) and "Range{0, 2}" in rd[0][1]
    if not ok:
        # the same comparison in other spellings: `bytes.split_at(2).0 == [0xff, 0xff]`, a named constant array,
        # `0xffff_u16.to_be_bytes()` ... - judged by what is compared (a view of bytes 0..2 of the input) with what (FF FF)
        rd2 = []
        for i in sorted(dec.reachable(0)):
            t = dec.blocks[i]["term"]
            if t["t"] != "switch":
                continue
            c = vd.operand(t["d"], i)
            if not (c[0] == "call" and c[1] in ("core::cmp::PartialEq::eq", "core::cmp::PartialEq::ne") and len(c[2]) == 2):
                continue
            for a_, b_ in ((c[2][0], c[2][1]), (c[2][1], c[2][0])):
                view = _input_view(vd, a_)
                val = _const_bytes(crates, b_)
                if view is not None and val is not None:
                    zero_t = dict((v_, tb_) for v_, tb_ in t["targets"]).get(0)
                    eq_edge = t["else"] if c[1].endswith("::eq") else zero_t
                    rd2.append((val, "Range{%s, %s}" % view, i, eq_edge))
                    break
        if len(rd2) == 1 and rd2[0][0] == (0xFF, 0xFF) and rd2[0][1] == "Range{0, 2}" and rd2[0][3] is not None:
            rd, ok = rd2, True
    if not rd:
        # the same test written byte by byte: `bytes[0] == 0xff && bytes[1] == 0xff`
        def idx_const(l):
            ds = vd.tr.defs.get(l, [])
            if len(ds) == 1 and ds[0][2] == "assign":
                e = vd.rvalue(ds[0][3]["rv"], ds[0][0])
                if e[0] == "const" and isinstance(e[1], int):
                    return e[1]
            return None
        tests = []
        for i in sorted(dec.reachable(0)):
            t = dec.blocks[i]["term"]
            if t["t"] != "switch":
                continue
            c = vd.operand(t["d"], i)
            if c[0] == "bin" and c[1] == "Eq":
                for a, b_ in ((c[2], c[3]), (c[3], c[2])):
                    if b_[0] == "const" and a[0] == "path" and a[1] == vd.root_name(1) and len(a[2]) == 1 and \
                            isinstance(a[2][0], tuple) and a[2][0][0] == "idx":
                        k = idx_const(a[2][0][1])
                        if k is not None:
                            tests.append((k, b_[1], i, t["else"]))
        tests.sort()
        if [(k, v) for k, v, _, _ in tests] == [(0, 0xFF), (1, 0xFF)] and \
                _under_any(dec, [(tests[0][2], tests[0][3])], tests[1][2]):
            # the second test is only reached on the first test's equal edge: its equal edge is the sentinel edge
            rd = [((0xFF, 0xFF), "Range{0, 2} (bytewise)", tests[1][2], tests[1][3])]
            ok = True
    if not rd:
        # the same test as a slice pattern: `match <view of the input> { [0xff, 0xff] => .. }` switches on the bytes themselves
        import re as _re
        root = ("path", vd.root_name(1), ())
        tests = []
        for i in sorted(dec.reachable(0)):
            t = dec.blocks[i]["term"]
            if t["t"] != "switch":
                continue
            c = vd.operand(t["d"], i)
            if not (c[0] == "proj" and c[2] and isinstance(c[2][-1], str) and _re.fullmatch(r"\[\d+\]", c[2][-1])):
                continue
            base = ("proj", c[1], tuple(c[2][:-1])) if len(c[2]) > 1 else c[1]
            view = (0, None) if strip_ref(base) == root else _input_view(vd, base)
            if view is None:
                continue
            for v_, tb_ in t["targets"]:
                tests.append((int(view[0]) + int(c[2][-1][1:-1]), v_, i, tb_))
        tests.sort()
        if [(k, v) for k, v, _, _ in tests] == [(0, 0xFF), (1, 0xFF)] and \
                _under_any(dec, [(tests[0][2], tests[0][3])], tests[1][2]):
            rd = [((0xFF, 0xFF), "Range{0, 2} (slice pattern)", tests[1][2], tests[1][3])]
            ok = True
    chk.require(ok, "C17-d/reader-sentinel", "PartialReversalReceiptNo::decode",
                "reader recognises %s as the sentinel, specification says bytes FF FF at 0..2" % rd, "bytes[0..2] == [0xFF, 0xFF]", dec.sp())

    # what the writer returns is the routed codec's output as it is: the field's Fixed<2> style does the padding (in front);
    # anything done to the bytes afterwards (resize, push, truncate ...) moves digits
    import pathsym as ps
    pe_ = ps.PathEval(enc, {})
    touched = []
    for r_ in [i for i in sorted(enc.reachable(0)) if enc.blocks[i]["term"]["t"] == "return"]:
        for path in ps.simple_paths(enc, 0, r_):
            env_, _ = pe_.run(path)
            e_ = ps.strip(ps.norm(env_.get(0, ("pre", 0))))
            if not (e_[0] == "call" and e_[1] == "zvt_builder::encoding::Encoding::encode"):
                touched.append(ps.show(e_)[:70] if e_[0] != "call-mut" else "%s(..) applied to the encoded bytes" % str(e_[1]).rsplit("::", 1)[-1])
    chk.require(not touched, "C17-d/writer-form", "PartialReversalReceiptNo::encode",
                "the writer does not return the routed codec's bytes unchanged: %s" % touched[:3], "Bcd::encode / Default::encode as is", enc.sp())

    def routes(body, vx, direction, edge):
        """callee (E, T) generic args of encode/decode calls under / not under the sentinel edge."""
        under, other = [], []
        for bb, t in body.calls():
            if callee(t) == "zvt_builder::encoding::Encoding::" + direction:
                ga = tuple(ty_str(x) for x in t["f"]["a"][:2])
                (under if _under_any(body, [edge], bb) else other).append(ga)
        return under, other
    if we and ok:
        u_e, o_e = routes(enc, ve, "encode", (we[0][1], we[0][2]))
        u_d, o_d = routes(dec, vd, "decode", (rd[0][2], rd[0][3]))
        D16 = ("zvt_builder::encoding::Default", "u16")
        BCD = ("zvt_builder::encoding::Bcd", "usize")
        chk.require(u_e == [D16] and u_d == [D16], "C17-d/sentinel-codec", "PartialReversalReceiptNo",
                    "the sentinel is written with %s and read with %s" % (u_e, u_d), "Default u16 both ways", enc.sp())
        chk.require(o_e == [BCD] and o_d == [BCD], "C17-d/regular-codec", "PartialReversalReceiptNo",
                    "ordinary receipt numbers are written with %s and read with %s" % (o_e, o_d), "Bcd both ways", enc.sp())
