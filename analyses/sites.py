"""Enumeration of panic / overflow / truncation / allocation sites and decode-path scope."""
from mirlite import callee, callee_res, ty_str, op_place

ENC = "zvt_builder::encoding::Encoding"
LEN = "zvt_builder::length::Length"
SER = "zvt_builder::ZvtSerializerImpl"
ZS = "zvt_builder::ZvtSerializer"
ZP = "zvt_builder::ZvtParser"

PANICKING_CALLS = {
    # callee (unresolved trait path or inherent path) -> kind
    "core::ops::index::Index::index": "index",
    "core::ops::index::IndexMut::index_mut": "index",
    "core::option::Option::<T>::unwrap": "unwrap",
    "core::option::Option::<T>::expect": "unwrap",
    "core::result::Result::<T, E>::unwrap": "unwrap",
    "core::result::Result::<T, E>::expect": "unwrap",
    "core::result::Result::<T, E>::unwrap_err": "unwrap",
    "core::slice::<impl [T]>::copy_from_slice": "copy_from_slice",
    "core::slice::<impl [T]>::split_at": "split_at",
    "core::slice::<impl [T]>::split_at_mut": "split_at",
    "core::slice::<impl [T]>::swap": "index",
    "core::slice::<impl [T]>::chunks": "nonzero-arg",
    "core::slice::<impl [T]>::chunks_exact": "nonzero-arg",
    "core::slice::<impl [T]>::windows": "nonzero-arg",
    "alloc::vec::Vec::<T, A>::remove": "index",
    "alloc::vec::Vec::<T, A>::swap_remove": "index",
    "alloc::vec::Vec::<T, A>::insert": "index",
    "alloc::vec::Vec::<T, A>::drain": "index",
    "alloc::vec::Vec::<T, A>::split_off": "index",
    "alloc::string::String::remove": "index",
    "alloc::string::String::insert": "index",
    "alloc::string::String::insert_str": "index",
    "core::str::<impl str>::split_at": "split_at",
    "core::cell::RefCell::<T>::borrow": "refcell",
    "core::cell::RefCell::<T>::borrow_mut": "refcell",
    "core::num::<impl u8>::pow": "overflow-call",
    "core::num::<impl usize>::pow": "overflow-call",
}
PANIC_FNS = ("core::panicking::", "std::rt::begin_panic", "core::panicking::panic_fmt", "core::option::unwrap_failed",
             "core::result::unwrap_failed", "core::option::expect_failed")
ALLOC_CALLS = {
    "alloc::vec::Vec::<T>::with_capacity": 0,
    "alloc::vec::from_elem": 1,
    "alloc::vec::Vec::<T, A>::resize": 1,
    "alloc::vec::Vec::<T, A>::reserve": 1,
    "alloc::string::String::with_capacity": 0,
    "alloc::slice::<impl [T]>::repeat": 1,
}
INT_BITS = {"u8": 8, "u16": 16, "u32": 32, "u64": 64, "usize": 64, "u128": 128,
            "i8": 8, "i16": 16, "i32": 32, "i64": 64, "isize": 64, "i128": 128}


def is_decode_root(b):
    r = b.raw
    if r["defkind"] not in ("AssocFn", "Fn"):
        return False
    name = r.get("name")
    tr = r.get("impl_trait") or r.get("in_trait")
    if tr == ENC and name == "decode":
        return True
    if tr == LEN and name == "deserialize":
        return True
    if tr == SER and name == "deserialize_tagged":
        return True
    if tr == ZS and name == "zvt_deserialize":
        return True
    if tr == ZP and name == "zvt_parse":
        return True
    return False


def scope(crates):
    """Decode-path bodies: roots + their closures + local callees (transitively), + read_packet."""
    by_id = {}
    for c in crates:
        by_id.update(c.bodies)
    work = []
    for b in by_id.values():
        if is_decode_root(b):
            work.append(b)
        if b.raw.get("root") == "zvt::io::PacketTransport::<S>::read_packet":
            work.append(b)
    seen = {}
    while work:
        b = work.pop()
        if b.id in seen:
            continue
        seen[b.id] = b
        # closures defined inside
        for o in by_id.values():
            if o.raw.get("parent") == b.id and o.id not in seen:
                work.append(o)
        for bb, t in b.calls():
            for n in (callee_res(t), callee(t)):
                if n in by_id and n not in seen:
                    work.append(by_id[n])
    return seen


def in_log_expansion(x):
    return bool(x) and ("log::" in x or "$crate::log" in x or "format_args" in x)


def enumerate_sites(b):
    """Yield dicts: kind, bb, term/stmt, detail."""
    reach = b.reachable(0)
    for i in sorted(reach):
        blk = b.blocks[i]
        for j, st in enumerate(blk["stmts"]):
            if st["s"] != "assign":
                continue
            rv = st["rv"]
            if rv["r"] == "cast" and rv["kind"] == "IntToInt":
                ft, tt = ty_str(rv.get("from")), ty_str(rv["ty"])
                if ft in INT_BITS and tt in INT_BITS:
                    fs, ts = ft[0] == "i", tt[0] == "i"
                    fb, tb = INT_BITS[ft], INT_BITS[tt]
                    lossless = (fs == ts and tb >= fb) or (not fs and ts and tb > fb)
                    if not lossless and not in_log_expansion(st.get("x")):
                        yield dict(kind="truncation", bb=i, idx=j, st=st, detail="%s as %s" % (ft, tt), sp=st.get("sp"))
            if rv["r"] == "bin" and rv["op"] in ("Div", "Rem") and False:
                pass
        t = blk["term"]
        if in_log_expansion(t.get("x")):
            continue
        if t["t"] == "assert":
            if t["kind"] in ("Overflow", "OverflowNeg", "BoundsCheck", "DivisionByZero", "RemainderByZero"):
                yield dict(kind=t["kind"], bb=i, term=t, detail=t.get("op", ""), sp=t.get("sp"))
            elif t["kind"] == "Other" and "Resumed" in t.get("s", ""):
                continue
            else:
                yield dict(kind="assert-other", bb=i, term=t, detail=t.get("s", ""), sp=t.get("sp"))
        elif t["t"] == "call":
            n = callee(t)
            if n in PANICKING_CALLS:
                yield dict(kind=PANICKING_CALLS[n], bb=i, term=t, detail=n, sp=t.get("sp"))
            elif n.startswith(PANIC_FNS):
                yield dict(kind="panic", bb=i, term=t, detail=n, sp=t.get("sp"))
            elif n in ALLOC_CALLS:
                yield dict(kind="alloc", bb=i, term=t, detail=n, sp=t.get("sp"), size_arg=ALLOC_CALLS[n])
            elif t["to"] is None and not n.startswith("core::intrinsics"):
                yield dict(kind="diverging-call", bb=i, term=t, detail=n, sp=t.get("sp"))
