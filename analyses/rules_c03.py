"""C03 — shipped packets use the wire layout the ZVT/Feig specification assigns."""
import layout
from mirlite import ty_str, callee, op_place
from flow import Tracer

LEVEL = "translation_validation"
EXPLANATION = (
    "Translation-validation style static comparison. The layout of every shipped packet/TLV "
    "struct is *extracted from the type-checked program* (generic arguments <FieldTy, L, E, TE> "
    "and constant tag operands of the resolved serialize_tagged/deserialize_tagged calls in the "
    "derive-generated encode and decode bodies, field identity by def-use) and compared row by "
    "row, for the encoder and the decoder separately, with an independent layout table "
    "(spec/layout.json) and the specification's BMP/TLV definition tables (spec/bmp.json). "
    "Control fields are the const-evaluated CLASS/INSTR of the ZvtCommand impls; APDU framing is "
    "checked on the blanket ZvtSerializer impl. Not decided: that each leaf encoding produces "
    "the specified bytes for every value (value arithmetic; see C16/C17 clauses). " 
    "APDU length field: the forms written and read by length::Adpu and the transport (short below 0xFF, FF + u16 LE otherwise) are compared with the specification's (clauses shared with C16-b / C04-d).")
RULE = ("C03-a: per struct, encoder rows == spec rows (ordered) and decoder rows == spec rows "
        "(positional ordered, tagged as a set), compared as canonical wire descriptors "
        "(field, tag, tag encoding, prefix style, value encoding, cardinality); every BMP row "
        "agrees with the specification's BMP table and every TLV row with the TLV tag table. "
        "C03-b: CLASS/INSTR == spec. C03-c: commands are framed <class instr><APDU length><body> "
        "via ZvtSerializerImpl<Adpu, Default, BigEndian> with tag [CLASS, INSTR]; non-commands "
        "use <Empty, Default, Default> without tag.")


def site_of(body):
    return body.raw.get("sp")


def _run_own(ctx, chk):
    zvt = ctx.crate("zvt")
    spec = ctx.spec("layout.json")
    tables = ctx.spec("bmp.json")
    bmp = {int(k): v for k, v in tables["bmp"].items()}
    tlv = {int(k): v for k, v in tables["tlv"].items() if not k.startswith("_")}
    exceptions = {k: v for k, v in tables["bmp_exceptions"].items() if not k.startswith("_")}
    impls = layout.codec_impl_bodies(zvt)
    cmds = {}
    for im in zvt.impls:
        if im.get("trait") == "zvt_builder::ZvtCommand":
            cmds[ty_str(im["self"])] = ({x["name"]: x.get("v") for x in im["consts"]}, im.get("sp"))
    chk.analysed["structs_in_spec"] = len(spec)
    chk.analysed["codec_impls_in_crate"] = len(impls)
    chk.analysed["commands_in_crate"] = len(cmds)
    n_rows = 0
    for sname, ent in sorted(spec.items()):
        if sname not in impls or "encode" not in impls[sname] or "decode" not in impls[sname]:
            chk.fail("C03-a/present", sname, "struct of the layout table has no Encoding<%s> for "
                     "Default impl in the crate" % sname)
            continue
        enc_b, dec_b = impls[sname]["encode"], impls[sname]["decode"]
        want = [tuple(r) for r in ent["rows"]]
        # ---- encoder
        try:
            raw_rows = layout.extract_encode(enc_b)
            erows = [layout.descriptor(r) for r in raw_rows]
            # a fixed-width BCD field of N bytes carries 2N decimal digits: the integer type of the field must hold them all
            # (the 6-byte amount is 12 digits - a u32 refuses everything from 2^32 cents on)
            for r_ in raw_rows:
                L_, E_ = ty_str(r_["L"]), ty_str(r_["E"])
                if E_ == "zvt_builder::encoding::Bcd" and L_.startswith("zvt_builder::length::Fixed<"):
                    nbytes = int(L_.split("<")[1].rstrip(">"))
                    _, inner = layout.unwrap_card(r_["ty"])
                    it = ty_str(inner)
                    cap = {"u8": 2, "u16": 4, "u32": 9, "u64": 19, "usize": 19}.get(it)
                    chk.require(cap is not None and cap >= 2 * nbytes, "C03-a/bcd-width", "%s.%s" % (sname, r_["field"]),
                                "a %d-byte BCD field (%d digits) is held in %s, which cannot represent all of them: conformant values "
                                "are refused" % (nbytes, 2 * nbytes, it), "%d digits fit %s" % (2 * nbytes, it), site_of(enc_b),
                                nontrivial=cap is not None)
        except layout.ShapeError as e:
            chk.fail("C03-a/encoder-shape", sname, "encoder not analysable: %s" % e.msg, site_of(enc_b))
            erows = None
        try:
            info = layout.extract_decode(dec_b)
            dpos = [layout.descriptor(r) for r in info.positional]
            dtag = [layout.descriptor(r) for r in info.tagged]
        except layout.ShapeError as e:
            chk.fail("C03-a/decoder-shape", sname, "decoder not analysable: %s" % e.msg, site_of(dec_b))
            info = None
        flat = lambda d: (d["field"], d["tag"], d["prefix"], d["value"], d["card"])
        if erows is not None:
            got = [flat(d) for d in erows]
            for i, w in enumerate(want):
                n_rows += 1
                g = got[i] if i < len(got) else None
                chk.require(g == w, "C03-a/encoder-row", "%s.%s" % (sname, w[0]),
                            "encoder emits %s at row %d, specification table says %s" % (g, i, w),
                            "row %d %s" % (i, w), site_of(enc_b))
            if len(got) > len(want):
                chk.fail("C03-a/encoder-extra", sname, "encoder emits %d rows beyond the table: %s"
                         % (len(got) - len(want), got[len(want):]), site_of(enc_b))
            for d in erows:
                if d["tag"] is not None:
                    chk.require(d["tagenc"] == "bmp", "C03-a/tag-encoding", "%s.%s enc" % (sname, d["field"]),
                                "tag is written with %s instead of the BMP/TLV tag encoding" % d["tagenc"],
                                site=site_of(enc_b), nontrivial=False)
        if info is not None:
            wpos = [w for w in want if w[1] is None]
            wtag = sorted((w for w in want if w[1] is not None), key=lambda w: w[1])
            gpos = [flat(d) for d in dpos]
            gtag = sorted((flat(d) for d in dtag), key=lambda w: (w[1], w[0]))
            for i, w in enumerate(wpos):
                g = gpos[i] if i < len(gpos) else None
                chk.require(g == w, "C03-a/decoder-row", "%s.%s" % (sname, w[0]),
                            "decoder reads %s at position %d, specification table says %s" % (g, i, w),
                            "pos %d %s" % (i, w), site_of(dec_b))
            if len(gpos) > len(wpos):
                chk.fail("C03-a/decoder-extra", sname, "decoder reads extra positional rows %s" % gpos[len(wpos):],
                         site_of(dec_b))
            gd = {}
            for g in gtag:
                gd.setdefault(g[1], []).append(g)
            for w in wtag:
                g = gd.get(w[1], [])
                chk.require(g == [w], "C03-a/decoder-row", "%s.%s" % (sname, w[0]),
                            "decoder reads %s under tag 0x%X, specification table says %s" % (g, w[1], w),
                            "tag 0x%X %s" % (w[1], w), site_of(dec_b))
            extra = [g for g in gtag if g[1] not in {w[1] for w in wtag}]
            if extra:
                chk.fail("C03-a/decoder-extra", sname, "decoder accepts tags beyond the table: %s" % extra,
                         site_of(dec_b))
            for d in dtag:
                chk.require(d["tagenc"] == "bmp", "C03-a/tag-encoding", "%s.%s dec" % (sname, d["field"]),
                            "tag is read with %s instead of the BMP/TLV tag encoding" % d["tagenc"],
                            site=site_of(dec_b), nontrivial=False)
        # ---- BMP / TLV definition tables (independent of the per-struct table)
        is_cmd = ent["control_field"] is not None
        for w in want:
            if w[1] is None:
                continue
            inst = "%s.%s" % (sname, w[0])
            val = "struct" if w[3].startswith("struct:") else (w[3].split(":")[0] if w[3].startswith("raw") else w[3])
            if inst in exceptions:
                ex = exceptions[inst]
                chk.require([w[2], w[3]] == ex[:2], "C03-a/bmp-table", inst,
                            "documented exception expects %s, table row is %s" % (ex[:2], w[2:4]),
                            "exception: " + ex[2])
                continue
            if is_cmd or w[2] != "BER":
                d = bmp.get(w[1])
                chk.require(d is not None and d == [w[2], val], "C03-a/bmp-table", inst,
                            "BMP 0x%02X is defined as %s by the specification, layout row says %s"
                            % (w[1], d, [w[2], val]), "BMP 0x%02X = %s" % (w[1], d))
            else:
                d = tlv.get(w[1])
                chk.require(d is not None and d == val and w[2] == "BER", "C03-a/tlv-table", inst,
                            "TLV tag 0x%X is defined as %s (BER length), layout row says %s/%s"
                            % (w[1], d, w[2], val), "TLV 0x%X = %s" % (w[1], d))
        # ---- control field
        cf = ent["control_field"]
        have = cmds.get(sname)
        if cf is None:
            chk.require(have is None, "C03-b/control-field", sname,
                        "struct is not a command in the specification table but implements ZvtCommand %s" % (have,),
                        "not a command", nontrivial=False)
        else:
            got = None if have is None else [have[0].get("CLASS"), have[0].get("INSTR")]
            chk.require(got == cf, "C03-b/control-field", sname,
                        "control field is %s, specification says %02X %02X" % (got, cf[0], cf[1]),
                        "%02X %02X" % tuple(cf), have[1] if have else None)
    for sname in sorted(set(impls) - set(spec)):
        chk.note("struct %s has a codec impl but no entry in spec/layout.json (not checked)" % sname)
    chk.coverage_extra["programs"] = len([s for s in spec if s in impls])
    chk.floor("structs compared", len([s for s in spec if s in impls]), 55)
    chk.floor("layout rows compared (encoder)", n_rows, 162)
    chk.floor("commands", len([s for s in spec if spec[s]["control_field"]]), 31)
    framing(ctx, chk)
    datetime_layout(ctx, chk)


def framing(ctx, chk):
    zb = ctx.crate("zvt_builder")
    SER, DESER = layout.SER, layout.DESER
    ADPU = "zvt_builder::length::Adpu"
    found = 0
    for b in zb.bodies.values():
        r = b.raw
        if r.get("impl_trait") == "zvt_builder::ZvtSerializer" and r.get("name") in ("zvt_serialize", "zvt_deserialize"):
            # blanket impl for commands
            found += 1
            want = SER if r["name"] == "zvt_serialize" else DESER
            tr = Tracer(b)
            calls = [(bb, t) for bb, t in b.calls() if callee(t) == want]
            inst = "blanket " + r["name"]
            if not chk.require(len(calls) == 1, "C03-c/framing", inst,
                               "expected exactly one %s call, found %d" % (want, len(calls)), site=b.sp()):
                continue
            bb, t = calls[0]
            a = [ty_str(x) for x in t["f"]["a"]]
            chk.require(a[1:] == [ADPU, "zvt_builder::encoding::Default", "zvt_builder::encoding::BigEndian"],
                        "C03-c/framing", inst + " generic args",
                        "command framing uses <%s> instead of <Adpu, Default, BigEndian>" % ", ".join(a[1:]),
                        ", ".join(a[1:]), t.get("sp"))
            # tag = Some(BigEndian::decode(&[CLASS, INSTR]).unwrap().0)
            ok, why = tag_is_class_instr(b, tr, t["args"][1])
            chk.require(ok, "C03-c/tag", inst, "APDU tag is not built from [CLASS, INSTR] big-endian: " + why,
                        "tag = BigEndian([CLASS, INSTR])", t.get("sp"))
            # data argument is the value itself / the input bytes
            src = tr.value(t["args"][0])
            chk.require(src.kind in ("place", "ref") and src.place.l == 1, "C03-c/payload", inst,
                        "framed payload is not the function's argument", site=t.get("sp"), nontrivial=False)
            chk.require(returns_call_result(b, tr, t), "C03-c/result", inst,
                        "the function does not hand back the framing call's result as it is (value, remainder): what follows the "
                        "packet is then not what the framing computed", "result of %s unchanged" % want.rsplit("::", 1)[-1], t.get("sp"))
        if r.get("in_trait") == "zvt_builder::ZvtSerializer" and r.get("name") in ("zvt_serialize", "zvt_deserialize"):
            found += 1
            want = SER if r["name"] == "zvt_serialize" else DESER
            tr = Tracer(b)
            calls = [(bb, t) for bb, t in b.calls() if callee(t) == want]
            inst = "default " + r["name"]
            if not chk.require(len(calls) == 1, "C03-c/framing", inst,
                               "expected exactly one %s call, found %d" % (want, len(calls)), site=b.sp()):
                continue
            bb, t = calls[0]
            a = [ty_str(x) for x in t["f"]["a"]]
            chk.require(a[1:] == ["zvt_builder::length::Empty", "zvt_builder::encoding::Default",
                                  "zvt_builder::encoding::Default"], "C03-c/framing", inst + " generic args",
                        "container framing uses <%s> instead of <Empty, Default, Default>" % ", ".join(a[1:]),
                        ", ".join(a[1:]), t.get("sp"))
            tag = tr.tag_option(t["args"][1])
            chk.require(tag == ("none",), "C03-c/tag", inst, "containers must be framed without tag, found %s" % (tag,),
                        "no tag", t.get("sp"))
    chk.floor("framing functions", found, 4)


DATETIME_LAYOUT = [(0x1F0E, 4, "date YYYYMMDD"), (0x1F0F, 3, "time HHMMSS")]     # PA00P015 TLV tags 1F0E / 1F0F: fixed-width BCD


def datetime_layout(ctx, chk):
    """The hand-written date/time container (`Encoding<NaiveDateTime> for Default`): the encoder writes tag 1F0E, the
    length byte 4 and four BCD bytes, then tag 1F0F, the length byte 3 and three BCD bytes - fixed widths, whatever
    the value (a minimal-length BCD would drop the leading zero bytes of 00:07:09).  Decided on the symbolic
    concatenation the encoder returns (pathsym), not on its spelling."""
    import pathsym as ps
    import rules_c01
    zb = ctx.crate("zvt_builder")
    enc, dec = rules_c01.find_encoding_impl([zb, ctx.crate("zvt")], "zvt_builder::encoding::Default", "chrono::naive::datetime::NaiveDateTime")
    if not chk.require(enc is not None, "C03-a/datetime-layout", "Encoding<NaiveDateTime>", "date/time encoder not found", "", nontrivial=False):
        return
    GROW = ("alloc::vec::Vec::<T, A>::append", "alloc::vec::Vec::<T, A>::extend_from_slice", "core::iter::traits::collect::Extend::extend")

    def parts(e, d=0):
        e = ps.strip(e)
        if d > 40:
            return None
        if e[0] == "call-mut":
            if e[1] == "alloc::vec::Vec::<T, A>::push" and len(e[2]) == 2:
                a = parts(e[3], d + 1)
                return None if a is None else a + [("byte", ps.strip(e[2][1]))]
            if e[1] in GROW and len(e[2]) >= 2:
                a, c = parts(e[3], d + 1), parts(e[2][1], d + 1)
                return None if a is None or c is None else a + c
            return None
        if e[0] == "call" and e[1] in ("alloc::vec::Vec::<T>::new", "core::default::Default::default"):
            return []
        if e[0] == "call" and e[1].endswith(("::into_iter", "::to_vec", "::into_vec", "::iter", "::as_slice")) and e[2]:
            return parts(e[2][0], d + 1)
        if e[0] == "call" and e[1].endswith("::concat") and e[2] and ps.strip(e[2][0])[0] == "agg":
            out = []
            for x in ps.strip(e[2][0])[2]:
                px = parts(x, d + 1)
                if px is None:
                    return None
                out += px
            return out
        if e[0] == "agg" and e[1] == "array":
            return [("byte", ps.strip(x)) for x in e[2]]
        return [("val", e)]

    def describe(p):
        k, e = p
        if k == "byte":
            return ("len", e[1]) if e[0] == "const" else ("byte?", ps.show(e)[:30])
        if e[0] == "call" and e[1] == "zvt_builder::encoding::Encoding::encode" and len(e[3]) > 1 and e[3][1] == "zvt_builder::Tag":
            cs = [x[1] for x in ps.walk(e) if x[0] == "const" and isinstance(x[1], int)]
            return ("tag", cs[0] if len(cs) == 1 else None)
        if e[0] == "call" and e[1] == "zvt_builder::ZvtSerializerImpl::serialize_tagged":
            ga = [str(g) for g in e[3]]
            fx = [g for g in ga if g.startswith("zvt_builder::length::Fixed<")]
            bcd = any(g == "zvt_builder::encoding::Bcd" for g in ga)
            untagged = len(e[2]) == 2 and ps.strip(e[2][1])[0] == "agg" and str(ps.strip(e[2][1])[1]).endswith("Option::None")
            n = int(fx[0].split("<")[1].rstrip(">")) if fx else None
            return ("bcd-fixed", n) if (fx and bcd and untagged) else ("value?", ",".join(ga)[:70])
        return ("?", ps.show(e)[:40])
    pe = ps.PathEval(enc, zb.adts)
    rets = [i for i in sorted(enc.reachable(0)) if enc.blocks[i]["term"]["t"] == "return"]
    want = []
    for tag, n, _ in DATETIME_LAYOUT:
        want += [("tag", tag), ("len", n), ("bcd-fixed", n)]
    n_paths = 0
    for r in rets:
        for path in ps.simple_paths(enc, 0, r):
            n_paths += 1
            env, _ = pe.run(path)
            ps_ = parts(ps.norm(env.get(0, ("pre", 0))))
            got = [describe(p) for p in ps_] if ps_ is not None else None
            chk.require(got == want, "C03-a/datetime-layout", "Encoding<NaiveDateTime>::encode",
                        "the date/time container is written as %s; the specification says tag 1F0E, length 4, 4 BCD bytes, tag 1F0F, "
                        "length 3, 3 BCD bytes (fixed widths)" % (got if got is not None else ps.show(ps.norm(env.get(0, ("pre", 0))))[:120]),
                        "1F0E 04 <4 BCD> 1F0F 03 <3 BCD>", enc.sp())
    chk.require(n_paths >= 1, "C03-a/datetime-layout", "Encoding<NaiveDateTime>::encode", "no path to a return", "", enc.sp(), nontrivial=False)


def returns_call_result(b, tr, t):
    """What the function returns is what call t returned: `_0` is the call's destination, a move of it, or - along every
    path that returns an Ok built by hand - `Ok((r.0, r.1))` with r the call's (unwrapped) result.  Error returns are the
    call's own error (`?`).  Path-wise (pathsym), so the spelling does not matter."""
    import pathsym as ps
    d = t["dest"]
    if not d["p"] and d["l"] == 0:
        return True
    cbb = next((bb for bb, t_ in b.calls() if t_ is t), None)
    if cbb is None:
        return False
    pe = ps.PathEval(b, {})
    rets = [i for i in sorted(b.reachable(0)) if b.blocks[i]["term"]["t"] == "return"]
    n = 0
    for r in rets:
        for path in ps.simple_paths(b, 0, r):
            if cbb not in path:
                continue                  # refused before the framing call (nothing decoded)
            n += 1
            env, _ = pe.run(path)
            e = ps.norm(env.get(0, ("pre", 0)))
            the_call = None
            for x in ps.walk(e):
                if x[0] == "call" and x[1] == callee(t):
                    the_call = x
            if the_call is None:
                return False
            if e == the_call or (e[0] == "call" and e[1].endswith("FromResidual::from_residual")):
                continue
            if e[0] == "agg" and str(e[1]).endswith("Result::Ok") and len(e[2]) == 1:
                tup = ps.strip(e[2][0])
                if tup[0] == "agg" and tup[1] == "tuple" and len(tup[2]) == 2:
                    ok = True
                    for k, comp in enumerate(tup[2]):
                        root, names = ps.field_chain(comp)
                        if not (root == the_call and names[-1:] == [k] and all(isinstance(x, str) and x.startswith("@") for x in names[:-1])):
                            ok = False
                    if ok:
                        continue
            if ps.core(e) == the_call:
                continue
            return False
    return n > 0


def tag_is_class_instr(b, tr, operand):
    """The tag handed to the framing is Some(t) with t = CLASS * 256 + INSTR: the two associated constants, in
    that order, read as one big-endian u16 (`BigEndian::decode::<Tag>(&[CLASS, INSTR])`, `u16::from_be_bytes`,
    `[INSTR, CLASS]` little-endian) and nothing else mixed in.  Decided on the value's expression tree."""
    from discharge import VEx
    from expr import walk, strip_ref, show
    vx = VEx(b, tr)
    site = next((bb for bb, t_ in b.calls() if any(a is operand for a in t_["args"])), 0)
    e = vx.operand(operand, site)
    if not (e[0] == "agg" and e[1].endswith("Option::Some") and len(e[2]) == 1):
        return False, "tag is not Some(..): %s" % show(e)[:60]
    CLASS, INSTR = "const zvt_builder::ZvtCommand::CLASS", "const zvt_builder::ZvtCommand::INSTR"
    readers = []
    for x in walk(e[2][0]):
        if x[0] == "call":
            n = x[1]
            ga = x[4] if len(x) > 4 else ()
            be = (n == "zvt_builder::encoding::Encoding::decode" and tuple(ga[:2]) in (
                ("zvt_builder::encoding::BigEndian", "zvt_builder::Tag"), ("zvt_builder::encoding::BigEndian", "u16"))) or \
                n == "core::num::<impl u16>::from_be_bytes"
            le = n == "core::num::<impl u16>::from_le_bytes" or (n == "zvt_builder::encoding::Encoding::decode" and tuple(ga[:2]) == (
                "zvt_builder::encoding::Default", "u16"))
            if be or le:
                arg = strip_ref(x[2][0]) if x[2] else ("?",)
                while arg[0] == "cast":
                    arg = strip_ref(arg[1])
                names = [a[1] if a[0] == "const" else None for a in arg[2]] if arg[0] == "agg" and arg[1] == "array" else None
                readers.append(("be" if be else "le", names))
            elif not n.endswith(("::unwrap", "::expect", "::unwrap_unchecked", "convert::From::from", "convert::Into::into")):
                return False, "tag value goes through %s" % n
        elif x[0] == "const" and x[1] not in (CLASS, INSTR):
            return False, "tag value mixes in the constant %s" % (x[1],)
        elif x[0] in ("var", "path", "upvar"):
            return False, "tag value depends on %s" % show(x)[:40]
    if len(readers) != 1:
        return False, "expected one two-byte read of [CLASS, INSTR], found %s" % (readers,)
    order, names = readers[0]
    if (order, names) not in (("be", [CLASS, INSTR]), ("le", [INSTR, CLASS])):
        return False, "bytes %s read %s-endian" % (names, "big" if order == "be" else "little")
    return True, ""


def _tag_is_class_instr_old(b, tr, operand):
    v = tr.value(operand)
    if not (v.kind == "agg" and v.rv["n"] == "core::option::Option" and v.rv["vname"] == "Some"):
        return False, "tag is not Some(..)"
    srcs = tr.sources(v.rv["ops"][0], through_calls=lambda n, t: n in (
        "core::result::Result::<T, E>::unwrap",))
    # must derive from exactly one call BigEndian::decode::<Tag>
    calls = [s for s in srcs if s[0] == "call"]
    if len(calls) != 1 or calls[0][1] != "zvt_builder::encoding::Encoding::decode":
        return False, "sources %s" % sorted(map(str, srcs))
    bb = calls[0][2]
    t = b.blocks[bb]["term"]
    a = [ty_str(x) for x in t["f"]["a"]]
    if a != ["zvt_builder::encoding::BigEndian", "zvt_builder::Tag"]:
        return False, "tag decoded with <%s>" % ", ".join(a)
    # argument: &[CLASS, INSTR]
    arr = None
    srcv = tr.value(t["args"][0])
    # follow unsize coercion / refs to the array aggregate
    seen = 0
    cur = t["args"][0]
    while seen < 8:
        seen += 1
        v2 = tr.value(cur)
        if v2.kind == "rv" and v2.rv["r"] == "cast":
            cur = v2.rv["o"]
            continue
        if v2.kind == "ref":
            d = tr.single_def(v2.place.l)
            if d and d[2] == "assign" and d[3]["rv"]["r"] == "agg" and d[3]["rv"]["kind"] == "array":
                arr = d[3]["rv"]
            elif d and d[2] == "assign" and d[3]["rv"]["r"] == "ref":
                cur = {"c": d[3]["rv"]["p"]}
                continue
            break
        break
    if arr is None:
        return False, "argument of BigEndian::decode is not an array literal"
    names = []
    for o in arr["ops"]:
        v3 = tr.value(o)
        k = v3.k if v3.kind == "const" else None
        names.append(k.get("uneval") if k else None)
    if names != ["zvt_builder::ZvtCommand::CLASS", "zvt_builder::ZvtCommand::INSTR"]:
        return False, "array is %s" % names
    return True, ""


def run(ctx, chk):
    _run_own(ctx, chk)
    # a decoder that takes a field value for "field absent" refuses specification-conformant bytes carrying that value
    import rules_c01
    rules_c01.presence_by_value(ctx, chk, prefix="C03-d")
    # APDU framing of every command: the length field's forms are part of the specified wire layout
    # (chapter 3: one byte below 0xFF, otherwise FF + 2 bytes little endian) - the Adpu instances of the
    # C16-b / C04-d clauses are included as C03-c
    import rules_c16
    import rules_c04
    from report import Sub
    # text on the wire is CP437 (PA00P015 "character set"): shared with C17-e
    import rules_c17
    sub_t = Sub(chk, "C03-e", lambda r: r in ("C17-e/text-codepage",))
    rules_c17.text(sub_t, [ctx.crate("zvt_builder"), ctx.crate("zvt")])
    chk.floor("text code page obligations (shared with C17-e)", sub_t.count, 1)
    sub = Sub(chk, "C03-c", lambda r: r.startswith("C16-b/"))       # APDU and BER-TLV length forms
    rules_c16.run(ctx, sub)
    # the LLVAR / LLLVAR prefixes of the rows above: N decimal digits as F0|digit, most significant first, no truncating cast
    sub_l = Sub(chk, "C03-a", lambda r: r.startswith(("C16-d/", "C16-f/")))
    rules_c16.run(ctx, sub_l)
    chk.floor("LLVAR prefix obligations (shared with C16-d/f)", sub_l.count, 4)
    # optional / repeated rows: the generic wrappers write a present field exactly as the field itself (shared with C12-h)
    import rules_c12
    sub_o = Sub(chk, "C03-a", lambda r: r in ("C12-h/option-writer", "C12-h/vec-writer"))
    rules_c12.option_writer(ctx, sub_o)
    rules_c12.vec_writer(ctx, sub_o)
    chk.floor("optional/repeated wrapper obligations (shared with C12-h)", sub_o.count, 3)
    sub2 = Sub(chk, "C03-c", lambda r: r in ("C04-d/writer-header", "C04-d/reader-header", "C04-d/adpu", "C04-d/marker-constant"))
    rules_c04.run(ctx, sub2)
    chk.floor("APDU length-field obligations (shared with C16/C04)", sub.count + sub2.count, 5)
