"""C20 — a terminal abort always surfaces as an error identifying its result code."""
from mirlite import callee, ty_str
from client import Fn, FEIG, STREAM, NEXT, variant_switches, follow, is_call
from expr import show, walk, strip_ref

EXPLANATION = (
    "For every client function that talks to the terminal (read_card, begin/commit/cancel (by receipt), end_of_day, "
    "initialize, set_terminal_id, get_system_info, get_pending) the reply `match` is located in MIR as the switch on "
    "the reply enum's discriminant; for its Abort / PartialReversalAbort arm every path is followed: it must reach a "
    "return of Err (never Ok, never back to the stream poll) and the error expression must be built from the packet's "
    "`error` field (directly into ZVTError::Aborted, or through ErrorMessages::from_u8 into the message). Exactly "
    "three tabled exceptions are accepted and each is checked to sit on the edge of the specific code: read_card 0x6C "
    "-> Error::NoCardPresented, begin 0xFC -> Error::NeedsPinEntry, end_of_day 0xA0 -> Ok; get_pending's abort is its "
    "answer. The three codes and the discriminants of ErrorMessages they are compared with are const-evaluated. Covers "
    "all 256 codes because the code is never inspected except on those three edges. Nested operations: every call from "
    "one client method to another async client method is `?`-propagated (or returned), so an abort surfaced by a "
    "sub-exchange (end-of-day after commit/cancel, clean-up reversal, set-terminal-id/initialise inside configure) "
    "fails the outer operation too; the single tabled exception is the constructor's tolerated initial configure.")
RULE = ("abort-arm region: no Ok return, stream not polled again, every Err mentions <abort packet>.error; exceptions "
        "only under switch value / Eq-edge of the tabled code; from_u8 is the derived FromPrimitive of ErrorMessages.")

FUNCS = ["read_card", "begin_transaction", "commit_transaction", "cancel_transaction_by_receipt_no", "end_of_day",
         "initialize", "set_terminal_id", "get_system_info", "get_pending"]
ABORT_VARIANTS = ("Abort", "PartialReversalAbort")
# function -> (code, what is allowed on that code's edge)
EXCEPTIONS = {
    "read_card": (0x6C, "err:zvt_feig_terminal::feig::Error::NoCardPresented"),
    "begin_transaction": (0xFC, "err:zvt_feig_terminal::feig::Error::NeedsPinEntry"),
    "end_of_day": (0xA0, "ok"),
}
ANSWER_IS_ABORT = {"get_pending"}


def mentions_error_field(e):
    for x in walk(e):
        if x[0] in ("path", "proj"):
            flds = x[2]
            if "error" in flds and any(v in ("@" + a) for a in ABORT_VARIANTS for v in flds):
                return True
    return False


ZVT_ADTS = {}


CLIENT_SEQUENCES = ("zvt::sequences::ReadCard", "zvt::sequences::Reservation", "zvt::sequences::PartialReversal",
                    "zvt::sequences::PreAuthReversal", "zvt::sequences::EndOfDay", "zvt::sequences::Initialization",
                    "zvt::sequences::SetTerminalId", "zvt::feig::sequences::GetSystemInfo")


def code_table(ctx, chk):
    """The names the client gives to result codes are the specification's: `ErrorMessages::X as u8` / `from_u8(code)` is how
    the client decides what an abort means (and what it prints); the discriminants of the enum are the table of chapter 10
    (spec/error_codes.json).  A variant that slid to a neighbouring code reports another failure than the terminal did."""
    want = ctx.spec("error_codes.json").get("zvt::constants::ErrorMessages") or {}
    adt = ctx.crate("zvt").adts.get("zvt::constants::ErrorMessages")
    if not chk.require(adt is not None and adt.get("kind") == "enum" and bool(want), "C20/code-table", "ErrorMessages",
                       "message table enum (or its specification table) not found", "", nontrivial=False):
        return
    got = {v["name"]: v.get("discr", i) for i, v in enumerate(adt["variants"])}
    for name, code in sorted(got.items(), key=lambda kv: kv[1]):
        if name in want:
            chk.require(code == want[name], "C20/code-table", "ErrorMessages::%s" % name,
                        "the name %s stands for result code 0x%02X; the specification table gives it 0x%02X" % (name, code, want[name]),
                        "0x%02X" % want[name])
    chk.require(sorted(got.values()) == sorted(want.values()), "C20/code-table", "ErrorMessages (codes)",
                "the set of named result codes differs from the specification table: only here %s, only in the table %s"
                % ([hex(c) for c in sorted(set(got.values()) - set(want.values()))],
                   [hex(c) for c in sorted(set(want.values()) - set(got.values()))]), "same 79 codes")
    chk.floor("named result codes", len(got), 70)


def run(ctx, chk):
    crate = ctx.crate("zvt_feig_terminal")
    zvt = ctx.crate("zvt")
    ZVT_ADTS.update(zvt.adts)
    code_table(ctx, chk)
    # the client decides "the exchange is over" by the end of the reply stream: the streams of the exchanges it runs must end
    # exactly at the final packets of the specification - a stream that ends at a Status-Information never delivers the Abort
    # that follows it (the protocol-monitor clauses of C05 for these sequences)
    import rules_c05
    from report import Sub
    sub5 = Sub(chk, "C20/sequence", lambda r: r.startswith("C05/") and r not in ("C05/present",),
               instance_filter=lambda i: str(i) in CLIENT_SEQUENCES)
    rules_c05._run_own(ctx, sub5)
    chk.floor("reply-stream obligations of the client's exchanges (shared with C05)", sub5.count, 6)
    n_arms = n_complete = 0
    import seqcheck
    from mirlite import feasible_reach
    finals = {}
    for sname, res in seqcheck.run_all(ctx)[0].items():
        if res.get("final") is not None and res.get("ent"):
            finals.setdefault(res["ent"]["output"], set()).update(res["final"])
    for name in FUNCS:
        try:
            f = Fn(crate, name)
        except KeyError:
            chk.fail("C20/anchor", name, "client function not found")
            continue
        sws = [s for s in variant_switches(f, zvt.adts) if any(v in s[2] or v in s[4] for v in ABORT_VARIANTS)]
        if not chk.require(len(sws) >= 1, "C20/reply-match", name,
                           "no match on a reply enum with an abort variant found", "", f.sp()):
            continue
        # success only when the exchange is complete: from the arm of a reply that does not end the exchange
        # (Status-Information, Print-Line, ...) an Ok return may only be reached through another poll of the
        # reply stream - otherwise the Abort that may still follow is never read
        oks = [rb for rb, e_ in f.ret_writes() if f.classify_ret(e_) == "ok"]
        polls = [pb for pb, t_ in f.b.calls() if callee(t_) == NEXT]
        for (bb, enum, targets, else_t, rest, pexpr) in variant_switches(f, zvt.adts):
            fin = finals.get(enum)
            if fin is None:
                continue
            arms = sorted(targets.items())
            rest_nf = sorted(v_ for v_ in rest if v_ not in fin and v_ not in ABORT_VARIANTS)
            if rest_nf and f.b.blocks[else_t]["term"]["t"] != "unreachable":
                arms.append(("|".join(rest_nf[:3]) + (".." if len(rest_nf) > 3 else ""), else_t))   # the catch-all arm
            for vname, tgt in arms:
                if vname in fin or vname in ABORT_VARIANTS:
                    continue
                arm = follow(f, tgt)
                region = feasible_reach(f.b, arm, cut_blocks=polls)
                early = sorted(set(oks) & region)
                n_complete += 1
                chk.require(not early, "C20/success-only-when-complete", "%s/%s::%s" % (name, enum.rsplit("::", 1)[-1], vname),
                            "success is returned from the arm of %s, a reply that does not end the exchange, without reading on: an "
                            "Abort that follows it (the normal decline flow) is never seen" % vname,
                            "Ok only after a final reply or the end of the stream", f.sp(early[0]) if early else f.sp(bb))
        for (bb, enum, targets, else_t, rest, pexpr) in sws:
            for av in ABORT_VARIANTS:
                if av in targets:
                    arm = follow(f, targets[av])
                elif av in rest:
                    arm = follow(f, else_t)
                    if len(rest) > 1 and name not in ANSWER_IS_ABORT:
                        # abort handled by a catch-all arm together with other variants
                        chk.fail("C20/abort-arm", "%s (%s)" % (name, enum.rsplit("::", 1)[-1]),
                                 "the abort reply is handled by a catch-all arm shared with %s: it cannot surface its code" % rest,
                                 f.sp(bb))
                        continue
                else:
                    continue
                n_arms += 1
                check_arm(chk, f, name, enum, av, arm, bb)
    # ErrorMessages facts
    em = zvt.adts.get("zvt::constants::ErrorMessages")
    if chk.require(em is not None, "C20/error-table", "ErrorMessages", "enum not found", "", nontrivial=False):
        d = {v["name"]: v.get("discr") for v in em["variants"]}
        for vname, code in (("AbortViaTimeoutOrAbortKey", 0x6C), ("NecessaryDeviceNotPresentOrDefective", 0xFC),
                            ("ReceiverNotReady", 0xA0)):
            chk.require(d.get(vname) == code, "C20/error-code", vname,
                        "ErrorMessages::%s has code %s, chapter 10 of the specification says 0x%02X" % (vname, d.get(vname), code),
                        "0x%02X" % code, em.get("sp"))
        vals = [v.get("discr") for v in em["variants"]]
        chk.require(len(vals) == len(set(vals)), "C20/error-codes-distinct", "ErrorMessages", "two messages share a code", "",
                    nontrivial=False)
        chk.floor("ErrorMessages variants", len(vals), 60)
        # from_u8 maps code -> variant with that discriminant: derived impl compares `n == Variant as u8`
        fb = [b for b in zvt.bodies.values() if b.raw.get("impl_trait") == "num_traits::cast::FromPrimitive"
              and ty_str(b.raw.get("impl_self")) == "zvt::constants::ErrorMessages"]
        chk.require(len(fb) >= 2 and all("FromPrimitive" in (b.raw.get("x") or "") for b in fb), "C20/from-u8-derived",
                    "ErrorMessages::from_u8", "FromPrimitive for ErrorMessages is not the derived implementation", "derived",
                    nontrivial=False)
    # the message is how read_card (and every `other => bail!("...{other}")` arm) identifies the code to the caller: one
    # message arm per table entry - two codes sharing an arm are indistinguishable afterwards
    disp = [b for b in zvt.bodies.values() if b.raw.get("impl_trait") == "core::fmt::Display" and b.raw["defkind"] == "AssocFn" and
            ty_str(b.raw.get("impl_self")) == "zvt::constants::ErrorMessages"]
    if chk.require(len(disp) == 1 and em is not None, "C20/message-per-code", "Display for ErrorMessages", "Display impl not found", "",
                   nontrivial=False):
        db = disp[0]
        sws = [db.blocks[i]["term"] for i in sorted(db.reachable(0)) if db.blocks[i]["term"]["t"] == "switch"]
        first = sws[0] if sws else None
        names = {v_.get("discr", k_): v_["name"] for k_, v_ in enumerate(em["variants"])}
        shared = {}
        if first is not None:
            for val, tb in first["targets"]:
                shared.setdefault(tb, []).append(names.get(val, "?%s" % val))
        dup = sorted(v_ for v_ in shared.values() if len(v_) > 1)
        covered = sum(len(v_) for v_ in shared.values())
        chk.require(first is not None and not dup and covered >= len(em["variants"]) - 1, "C20/message-per-code", "Display for ErrorMessages",
                    "result codes share one message arm: %s (or %d of %d codes have no arm of their own)" % (dup[:3], len(em["variants"]) - covered,
                                                                                                          len(em["variants"])),
                    "one message per code", db.sp())
    chk.floor("abort arms analysed", n_arms, 7)
    chk.floor("non-final reply arms checked for early success", n_complete, 4)
    nested(chk, crate)


# (caller, callee) pairs where the nested outcome is deliberately dropped - one line of reason each
NESTED_EXCEPTIONS = {
    ("new", "configure"): "the constructor tolerates a failing initial configuration by design (source comment: 'Ignore the "
                          "errors from configure'); it is not one of the property's operations - `configure` itself, called "
                          "as an operation, reports the abort",
}


_RESULT_PASS = ("core::ops::try_trait::Try::branch", "core::future::future::Future::poll", "core::future::into_future::IntoFuture::into_future",
                "core::pin::Pin::<Ptr>::new_unchecked", "core::future::get_context", "core::ops::try_trait::FromResidual::from_residual")


def nested(chk, crate):
    """An abort surfaced by one client operation must not be lost by the operation that invoked it:
    every call from a client method to another fallible client method is `?`-propagated (or is the
    method's own result)."""
    n = 0
    for bid in sorted(crate.bodies):
        if not (bid.startswith(FEIG) and bid.endswith("::{closure#0}")) or "::test" in bid:
            continue
        short = bid[len(FEIG):-len("::{closure#0}")]
        if "::" in short:
            continue
        try:
            f = Fn(crate, short)
        except KeyError:
            continue
        rets = f.ret_writes()
        for bb, t in f.b.calls():
            cn = callee(t)
            if not cn.startswith(FEIG) or cn[len(FEIG):] in ("new",) or "::" in cn[len(FEIG):]:
                continue
            callee_body = crate.bodies.get(cn + "::{closure#0}")
            if callee_body is None:
                continue        # not an async method
            n += 1
            inst = "%s -> %s" % (short, cn[len(FEIG):])
            if (short, cn[len(FEIG):]) in NESTED_EXCEPTIONS:
                chk.ok("C20/nested-abort-propagates", inst, "tabled exception: " + NESTED_EXCEPTIONS[(short, cn[len(FEIG):])][:80],
                       f.sp(bb), nontrivial=False)
                continue
            ok = False
            for rbb, e in rets:
                kind = f.classify_ret(e)
                if any(x[0] == "call" and x[1] == cn and len(x) > 3 and x[3] == bb for x in walk(e)):
                    if kind in ("propagate", "err", "?"):
                        ok = True
            # ... and on no path is a failure of the nested operation turned into success: behind the Err edge of a test of its
            # result (a `match`, `if let Err(e)`, a guard on the error) no `Ok(..)` is returned - a tolerance for one code
            # that wraps a whole operation also covers the aborts of the steps inside it
            for i in sorted(f.reach):
                t_ = f.b.blocks[i]["term"]
                if t_["t"] != "switch":
                    continue
                v_ = f.tr.value(t_["d"])
                if not (v_.kind == "rv" and v_.rv["r"] == "discr"):
                    continue
                ty_ = ty_str(v_.rv["of"])
                if not ty_.startswith(("core::result::Result<", "core::ops::control_flow::ControlFlow<")):
                    continue
                e_ = f._carriers(f.ex.operand(t_["d"]))      # (the return slot of an inlined helper: what it carries)
                if not any(x[0] == "call" and x[1] == cn and len(x) > 3 and x[3] == bb for x in walk(e_)):
                    continue
                if any(x[0] == "call" and x[1] not in _RESULT_PASS and x[1] != cn and not x[1].startswith("core::future::") and
                       not x[1].startswith("core::pin::") and any(y[0] == "call" and y[1] == cn for y in walk(x) if y is not x)
                       for x in walk(e_)):
                    continue        # a value computed from the result (its payload handed to some function), not the result
                ed = f.switch_edges(i)
                err_t = ed.get(1, ed["else"])
                if err_t is None or f.b.blocks[err_t]["term"]["t"] == "unreachable":
                    continue
                swallowed = [rbb for rbb, e2 in rets if f.classify_ret(e2) == "ok" and f.b.dominates(err_t, rbb)]
                chk.require(not swallowed, "C20/nested-abort-propagates", inst + " (Err edge)",
                            "a failure of %s - which includes every abort the terminal reports inside it - can end in Ok(..) of %s"
                            % (cn[len(FEIG):], short), "no Ok behind the Err edge of the nested operation", f.sp(i))
            chk.require(ok, "C20/nested-abort-propagates", inst,
                        "the outcome of %s is not handed on with `?`: an abort reported by the terminal inside it (Err carrying the "
                        "result code) is swallowed and %s can still report success" % (cn[len(FEIG):], short),
                        "`?` on the nested operation", f.sp(bb))
    chk.floor("nested client operations", n, 6)


def check_arm(chk, f, name, enum, av, arm, sw_bb):
    inst = "%s/%s::%s" % (name, enum.rsplit("::", 1)[-1], av)
    region = f.reach_from(arm)
    # never polls the stream again
    polls = [bb for bb, t in f.b.calls() if callee(t) == NEXT and bb in region]
    chk.require(not polls, "C20/no-continue", inst, "after an abort the reply stream is polled again (the abort is swallowed)",
                "arm leaves the loop", f.sp(arm))
    # a code without an entry in the message table must keep its identity: the Option returned by
    # from_u8(code) may only be consumed by `ok_or(<error naming the code>)` or by a match
    for bb, t in f.b.calls():
        if bb not in region or not t["args"]:
            continue
        a0 = strip_ref(f.ex.operand(t["args"][0]))
        if a0[0] == "call" and a0[1].endswith("FromPrimitive::from_u8") and mentions_error_field(a0):
            n = callee(t)
            if n == "core::option::Option::<T>::ok_or":
                alt = f.ex.operand(t["args"][1])
                chk.require(mentions_error_field(alt), "C20/unknown-code-keeps-identity", inst,
                            "a result code without message-table entry is reported as %s, which does not name the code" % show(alt)[:80],
                            "ok_or(error naming the code)", f.sp(bb))
            elif n in ("core::option::Option::<T>::ok_or_else", "core::option::Option::<T>::map_or_else",
                       "core::option::Option::<T>::unwrap_or_else") and len(t["args"]) >= 2:
                # the default is computed by a closure: it must name the code (read the abort packet's `error`)
                cl = f.tr.value(t["args"][1])
                cname = cl.rv.get("n") if cl.kind == "agg" and cl.rv.get("kind") == "closure" else None
                cb = f.b.crate.bodies.get(cname) if (cname and f.b.crate is not None) else None
                if cb is None and cname and f.b.crate is not None:
                    cb = getattr(f.b.crate, "absorbed", {}).get(cname)         # closure of a helper that was inlined here
                names_code = False
                if cb is not None:
                    import json as _json
                    names_code = '"n": "error"' in _json.dumps(cb.raw["blocks"])
                    # (precise capture: the closure may capture `&data.error` itself rather than `data`)
                    if not names_code and cl.kind == "agg":
                        names_code = any(mentions_error_field(f.ex.operand(o)) for o in cl.rv.get("ops", []))
                chk.require(names_code, "C20/unknown-code-keeps-identity", inst,
                            "a result code without message-table entry is replaced by a default that does not name the code "
                            "(%s with a closure that never reads .error)" % n.rsplit("::", 1)[-1], "default names the code", f.sp(bb))
            elif n.startswith("core::option::Option::<T>::") and n.rsplit("::", 1)[-1] not in ("is_some", "is_none", "as_ref", "ok_or_else"):
                chk.fail("C20/unknown-code-keeps-identity", inst,
                         "result codes without an entry in the message table are replaced through %s: the error no longer identifies "
                         "the code for those codes" % n.rsplit("::", 1)[-1], f.sp(bb))
    exc = EXCEPTIONS.get(name)
    if name in ANSWER_IS_ABORT:
        chk.ok("C20/abort-is-answer", inst, "the abort packet is the answer of this query (2.10.1)", f.sp(arm), nontrivial=False)
        return
    # what the arm returns, path by path (symbolic evaluation: independent of temporaries, helpers, `?` vs match)
    import pathsym as ps
    pe = ps.PathEval(f.b, ZVT_ADTS)
    polls_all = [bb for bb, t in f.b.calls() if callee(t) == NEXT]
    ret_blocks = [i for i in sorted(region) if f.b.blocks[i]["term"]["t"] == "return"]
    if not chk.require(len(ret_blocks) >= 1, "C20/returns", inst, "abort arm does not return", "", f.sp(arm)):
        return

    def on_error_field(e):
        return any(x[0] == "field" and x[2] == "error" and any(y[0] == "field" and isinstance(y[2], tuple) and y[2][0] == "dc" and
                                                                y[2][1] in ABORT_VARIANTS for y in ps.walk(x)) for x in ps.walk(e))

    def pinned_code(conds):
        """the result code this path is restricted to by an equality test, or None"""
        pin = None
        for cbb, ce, taken, listed in conds:
            c = ps.norm(ce)
            if c[0] == "bin" and c[1] in ("Eq", "Ne"):
                a, b = c[2], c[3]
                if b[0] != "const":
                    a, b = b, a
                while a[0] == "cast":
                    a = a[1]
                if b[0] == "const" and on_error_field(a):
                    truth = (taken == "else") if listed == [0] else (taken != 0)
                    if (c[1] == "Eq") == truth:
                        pin = b[1]
            elif c[0] == "call" and c[1] in ("core::cmp::PartialEq::eq", "core::cmp::PartialEq::ne") and len(c[2]) == 2:
                # `err == ErrorMessages::X` (derived PartialEq on the message made from the code): the variant's discriminant
                for a, b in ((c[2][0], c[2][1]), (c[2][1], c[2][0])):
                    b2 = ps.core(b)
                    if b2[0] == "agg" and str(b2[1]).startswith("zvt::constants::ErrorMessages::") and not b2[2] and \
                            any(x[0] == "call" and x[1].endswith("FromPrimitive::from_u8") and on_error_field(x) for x in ps.walk(a)):
                        em_ = ZVT_ADTS.get("zvt::constants::ErrorMessages") or {}
                        code_ = next((v_.get("discr") for v_ in em_.get("variants", []) if v_.get("name") == str(b2[1]).rsplit("::", 1)[-1]), None)
                        truth = (taken == "else") if listed == [0] else (taken != 0)
                        if code_ is not None and (c[1].endswith("::eq")) == truth:
                            pin = code_
                        break
            elif c[0] == "discr" and any(x[0] == "call" and x[1].endswith("FromPrimitive::from_u8") and on_error_field(x) for x in ps.walk(c)):
                # match on the ErrorMessages value made from the code: discriminant == code
                inner = ps.core(c[1])
                if taken != "else" and isinstance(taken, int) and listed.count(taken) == 1 and \
                        not (inner[0] == "call" and inner[1].endswith("FromPrimitive::from_u8") and False):
                    # (the switch on Option<ErrorMessages> Some/None has values 0/1 and is not a code test)
                    v = f.tr.value(f.b.blocks[cbb]["term"]["d"])
                    if v.kind == "rv" and v.rv["r"] == "discr" and ty_str(v.rv["of"]) == "zvt::constants::ErrorMessages":
                        pin = taken
        return pin
    n_paths = 0
    for r in ret_blocks:
        for path in ps.simple_paths(f.b, arm, r, avoid=polls_all):
            n_paths += 1
            env, conds = pe.run(path)
            e = ps.norm(env.get(0, ("konst", "no value")))
            pin = pinned_code(conds)
            # `outcome.map_err(anyhow::Error::from)` / `.map_err(|e| e.into())`: Ok stays Ok, an Err stays an Err built from
            # the original error (that it still names the code is decided below on the whole expression)
            # (only for a conversion function: a closure could replace the error by one that no longer names the code)
            while e[0] == "call" and e[1] == "core::result::Result::<T, E>::map_err" and len(e[2]) == 2 and \
                    e[2][0][0] == "agg" and str(e[2][0][1]).endswith(("Result::Ok", "Result::Err")) and \
                    e[2][1][0] == "konst" and any(s_ in str(e[2][1][1]) for s_ in ("core::convert::From::from", "core::convert::Into::into",
                                                                                    "anyhow::Error::new", "anyhow::Error::from")):
                e = e[2][0]
            is_ok = e[0] == "agg" and str(e[1]).endswith("Result::Ok")
            is_err = (e[0] == "agg" and str(e[1]).endswith("Result::Err")) or \
                (e[0] == "call" and e[1].endswith("FromResidual::from_residual"))
            if exc is not None:
                code, what = exc
                special = (what == "ok" and is_ok) or (what.startswith("err:") and is_err and
                                                       any(x[0] == "agg" and x[1] == what[4:] for x in ps.walk(e)))
                if special:
                    chk.require(pin == code, "C20/exception-edge", inst,
                                "the documented translation of code 0x%02X is applied on a path that is not restricted to that code "
                                "(path pinned to %s)" % (code, hex(pin) if isinstance(pin, int) else pin), "only for 0x%02X" % code, f.sp(r))
                    continue
            if is_ok:
                chk.fail("C20/never-ok", inst, "an abort is reported as success: %s" % ps.show(e)[:100], f.sp(r))
                continue
            if not is_err:
                chk.fail("C20/returns", inst, "unrecognised return %s" % ps.show(e)[:100], f.sp(r))
                continue
            chk.require(on_error_field(e), "C20/carries-code", inst,
                        "the error returned for an abort does not derive from the packet's result code: %s" % ps.show(e)[:160],
                        "error built from .error", f.sp(r))
    chk.require(n_paths >= 1, "C20/returns", inst, "no path from the abort arm to a return could be evaluated", "", f.sp(arm), nontrivial=False)


def on_code_edge(f, region, ret_bb, code):
    """ret_bb is only reachable (within the arm) through an edge that pins the abort code to
    `code`: a switch on discr(ErrorMessages value derived from from_u8(.error)) with value `code`,
    or the true edge of `.error == code`."""
    for i in sorted(region):
        t = f.b.blocks[i]["term"]
        if t["t"] != "switch":
            continue
        e = f.ex.operand(t["d"])
        ed = f.switch_edges(i)
        target = None
        if e[0] == "discr" and any(x[0] == "call" and x[1].endswith("FromPrimitive::from_u8") and mentions_error_field(x)
                                   for x in walk(e)):
            target = ed.get(code)
            # the edge must be taken for this code only
            if target is not None and (sum(1 for v, tb in t["targets"] if tb == target) != 1 or t["else"] == target):
                target = None
        elif e[0] == "bin" and e[1] in ("Eq", "Ne"):
            a, b = e[2], e[3]
            if (mentions_error_field(a) and b == ("const", code)) or (mentions_error_field(b) and a == ("const", code)):
                # the edge taken exactly when the code equals `code`
                target = ed["else"] if e[1] == "Eq" else ed.get(0)
        if target is not None and f.edge_dominates((i, target), ret_bb):
            return True
    return False
