"""C04 — packets are read from a byte stream exactly at APDU boundaries."""
import rules_c16
from report import Sub
from mirlite import switch_target, callee, callee_res, ty_str, op_place
from expr import show, walk, strip_ref
from discharge import make_prover, VEx, INDEX, Lin, len_of, LEN_CALLS

EXPLANATION = (
    "Byte-for-byte behaviour for each of the 65,536 lengths and tokio's own read_exact are NOT decided (the latter is "
    "trusted: it fills the buffer completely, across any chunking and Pending wake-ups, or fails). Decided from the MIR of "
    "PacketTransport::read_packet and the APDU length style: (a) the byte source is only ever read through "
    "AsyncReadExt::read_exact, nowhere else in zvt or the terminal client is a PacketTransport's source read; (b) read "
    "plan: exactly three reads - a 3-byte header buffer, on the edge header[2] == 0xFF two more bytes into [3..5], then a "
    "buffer whose length is proved (linear arithmetic over the Vec-length versions) to equal the announced length, "
    "which derives from header[2] resp. u16::from_le_bytes(header[3..5]) - so each read consumes precisely header + "
    "announced body; (c) the parser is reachable only through the success edge of every read on its path, every failure "
    "edge (EOF, I/O error) returns Err without parsing, and the parser sees the whole buffer; (d) the header constants "
    "and primitives agree at the three sites that must agree - Adpu::serialize (direct below 0xFF, marker 0xFF, "
    "little-endian u16), Adpu::deserialize (== 0xFF, little-endian u16, data at 1 / 3) and read_packet (== 0xFF, "
    "from_le_bytes, header 3 / 5) - and with the specification table.")
RULE = ("who-may-call on the source; call-site counts, dominance and edge rules in read_packet; prover-backed equality "
        "len(third buffer) == announced length; constant agreement across the three header sites (with C16-b for the codec).")

READ_EXACT = "tokio::io::util::async_read_ext::AsyncReadExt::read_exact"
READ_FAMILY = ("tokio::io::util::async_read_ext::AsyncReadExt::", "tokio::io::async_read::AsyncRead::",
               "tokio::io::util::async_buf_read_ext::AsyncBufReadExt::", "std::io::Read::", "futures_io::")
RP = "zvt::io::PacketTransport::<S>::read_packet::{closure#0}"
MARKER = 0xFF


def mentions_source(e):
    return any(x[0] in ("path", "proj") and "source" in x[2] for x in walk(e))


def run(ctx, chk):
    zvt = ctx.crate("zvt")
    crates = [ctx.crate("zvt_builder"), zvt]
    source_reads(ctx, chk, "C04-a")
    rest(ctx, chk, zvt, crates)


def source_reads(ctx, chk, rule):
    # ---- (a) who reads the source
    n_reads = 0
    for cname in ("zvt", "zvt_feig_terminal"):
        c = ctx.crate(cname)
        for b in c.bodies.values():
            if "::mock_inner::" in b.id or "::test::" in b.id:
                continue
            vx = None
            for bb, t in b.calls():
                n = callee(t)
                if not n.startswith(READ_FAMILY):
                    continue
                vx = vx or VEx(b)
                a0 = vx.operand(t["args"][0], bb)
                if not mentions_source(a0):
                    continue
                n_reads += 1
                ok = n == READ_EXACT and b.id == RP
                chk.require(ok, rule + "/only-read-exact", "%s in %s" % (n.rsplit("::", 1)[-1], b.raw.get("root", b.id).rsplit("::", 1)[-1]),
                            "the byte source is read with %s in %s: a short read or end-of-stream would yield a packet "
                            "instead of an error / boundaries would depend on chunking" % (n.rsplit("::", 1)[-1], b.id),
                            "read_exact in read_packet", t.get("sp"))
    # ... and nothing stands between read_packet and the source that reads on its own account: a buffering adaptor created
    # around the source (`BufReader::new(&mut self.source)`) fills its buffer past the packet boundary - what it read ahead is
    # lost with it (or, kept, makes the boundary depend on chunking)
    ADAPTORS = ("tokio::io::util::buf_reader::BufReader", "tokio::io::util::buf_stream::BufStream", "tokio::io::util::take::",
                "tokio::io::util::async_read_ext::AsyncReadExt::take", "tokio::io::util::async_read_ext::AsyncReadExt::chain",
                "std::io::buffered::", "futures_util::io::buf_reader::", "tokio::io::split", "tokio_util::io::")
    for cname in ("zvt", "zvt_feig_terminal"):
        c = ctx.crate(cname)
        for b in c.bodies.values():
            if "::mock_inner::" in b.id or "::test::" in b.id:
                continue
            vx = None
            for bb, t in b.calls():
                n = callee(t)
                if not n.startswith(ADAPTORS) or not t["args"]:
                    continue
                vx = vx or VEx(b)
                if any(mentions_source(vx.operand(a_, bb)) for a_ in t["args"]):
                    chk.fail(rule + "/only-read-exact", "%s in %s" % (n.split("::<")[0].rsplit("::", 1)[-1], b.raw.get("root", b.id).rsplit("::", 1)[-1]),
                             "the byte source is wrapped in %s in %s: the adaptor reads from the source on its own account (ahead of "
                             "the packet boundary), so what read_packet consumes is no longer exactly one APDU" % (n, b.id), t.get("sp"))
    chk.floor("reads of the source", n_reads, 3)


def plan_by_simulation(b):
    """The read plan decided by symbolic execution of every path from the entry of read_packet to its zvt_parse call
    (bufsim): first read = 3 bytes; header byte 2 is compared with 0xFF; on the equal edge exactly 2 more bytes are read and
    the body read takes their little-endian u16, otherwise the body read takes header byte 2; the parser sees exactly the
    bytes read, in order, and nothing else.  -> (ok, [problem], number of feasible paths)"""
    import bufsim
    import pathsym
    parses = [(bb, t) for bb, t in b.calls() if callee(t) == "zvt_builder::ZvtParser::zvt_parse"]
    if len(parses) != 1:
        return False, ["expected one zvt_parse call"], 0
    pbb, pt = parses[0]
    paths = pathsym.simple_paths(b, 0, pbb, limit=4096)
    problems = []
    kinds = set()
    n = 0
    L = bufsim.L
    for path in paths:
        sim = bufsim.Sim(b)
        try:
            sim.run(path)
            arg = sim.operand(pt["args"][0])
        except bufsim.Infeasible:
            continue
        except Exception as e:                      # fail closed, but say why
            problems.append("simulation error: %r" % (e,))
            continue
        n += 1
        bad = []
        rl = [(k, oid, (hi.add(lo, -1) if oid is not None else None)) for k, oid, lo, hi in sim.reads]
        if not rl or rl[0][2] != L(3):
            bad.append("the first read fills %r bytes, not 3" % (rl[0][2] if rl else None))
        marker = None
        hb = ("byte", 1, 2)
        for (c, truth) in sim.conds:
            _, op, a_, c_ = c
            d = a_.add(c_, -1)
            if set(d.t) == {hb} and abs(d.t[hb]) == 1 and op in ("Eq", "Ne"):
                val = -d.c * d.t[hb]
                eq = truth if op == "Eq" else not truth
                if val == 0xFF:
                    marker = eq
                elif eq:
                    bad.append("header byte 2 is compared with 0x%02X" % val)
        if marker is None:
            bad.append("the path does not depend on header byte 2 == 0xFF")
        elif marker:
            kinds.add("extended")
            if len(rl) != 3:
                bad.append("extended form: %d reads instead of 3" % len(rl))
            else:
                if rl[1][2] != L(2):
                    bad.append("extended form: the second read fills %r bytes, not 2" % (rl[1][2],))
                if rl[2][2] != L(0, {("le16", 2, 0): 1}):
                    bad.append("extended form: the body read fills [%r] bytes, not the little-endian u16 of the two length bytes" % (rl[2][2],))
        else:
            kinds.add("short")
            if len(rl) != 2:
                bad.append("short form: %d reads instead of 2" % len(rl))
            elif rl[1][2] != L(0, {hb: 1}):
                bad.append("short form: the body read fills [%r] bytes, not header byte 2" % (rl[1][2],))
        vb = sim.view_bounds(arg) if arg[0] in ("buf", "ref") else None
        segs = sim.segs_between(*vb) if vb is not None else None
        whole = vb is not None and vb[1] == L(0) and sim.obj_len(vb[0]) is not None and vb[2] == sim.obj_len(vb[0])
        want = [(("read", k, 0), ln) for k, _, ln in rl]
        if segs is None or not whole or [(s_[0], s_[1]) for s_ in segs] != want:
            bad.append("the parser is given [%s], not the bytes read in order%s" % (
                bufsim.show_segs(segs) if segs is not None else "a buffer that could not be followed",
                (" (%s)" % "; ".join(sim.notes[:2])) if sim.notes else ""))
        for m in bad:
            if m not in problems:
                problems.append(m)
    if n and kinds != {"extended", "short"}:
        problems.append("paths found for %s only" % sorted(kinds))
    if not n:
        problems.append("no feasible path from the entry to the parser")
    return not problems, problems, n


def rest(ctx, chk, zvt, crates):
    # the read plan: decided on the shape the routine has on the pinned tree (fast, precise reports); a routine of another
    # shape (helpers, a separate header array, named constants ...) is decided by simulating what it does to its buffers
    b0 = zvt.bodies.get(RP)
    from report import Check
    sub = Check("C04", chk.tier, chk.seed, "", "")
    try:
        _rest_shape(ctx, sub, zvt, crates)
        crashed = None
    except Exception as e:          # the shape rules assume three reads into one Vec
        crashed = e
    PLAN = ("C04-b/", "C04-d/header-sizes", "C04-d/length-source", "C04-d/marker-test", "C04-d/marker-constant", "C04-c/parse-whole-buffer")
    open_plan = [v for v in sub.violations if v["rule"].startswith(PLAN)]
    proved = None
    problems = []
    if (open_plan or crashed) and b0 is not None:
        proved, problems, n = plan_by_simulation(b0)
        chk.analysed["read_plan_paths_simulated"] = n
        if proved:
            chk.note("read plan decided by buffer simulation over %d path(s) (the shape rules did not apply: %s)"
                     % (n, sorted({v["rule"] for v in open_plan})[:5] or repr(crashed)))
        elif crashed is not None:
            sub.fail("C04-b/read-plan", "read_packet", "the read plan could not be established: %s" % "; ".join(problems)[:500], b0.sp())
    elif crashed is not None:
        raise crashed
    viol = {}
    for v in sub.violations:
        viol.setdefault((v["rule"], v["instance"]), []).append(v)
    for o in sub.obligations:
        if o["rule"] == "floor":
            continue                    # (re-created by chk.floor below)
        if o.get("ok", True):
            chk.ok(o["rule"], o["instance"], o.get("detail", ""), o.get("site"), o.get("nontrivial", True))
            continue
        if proved and o["rule"].startswith(PLAN):
            chk.ok(o["rule"], o["instance"], "decided by buffer simulation: first read 3 bytes; marker 0xFF -> 2 bytes + body of their "
                   "little-endian u16, else body of header byte 2; the parser sees exactly the bytes read, in order", o.get("site"))
            continue
        vs = viol.get((o["rule"], o["instance"])) or [None]
        v = vs.pop(0) if vs else None
        msg = (v or {}).get("message", o.get("detail", ""))
        if proved is False and o["rule"].startswith(PLAN):
            msg += " [buffer simulation: %s]" % "; ".join(problems)[:300]
        chk.fail(o["rule"], o["instance"], msg, o.get("site"), (v or {}).get("path"), (v or {}).get("key"))
    for nt in sub.notes:
        chk.note(nt)
    for k, v in sub.analysed.items():
        chk.analysed.setdefault(k, v)
    for name, counted, floor in sub.floors:
        if name != "floor":
            chk.floor(name, counted, floor)


def _rest_shape(ctx, chk, zvt, crates):
    b = zvt.bodies.get(RP)
    if not chk.require(b is not None, "C04/anchor", "read_packet", "read_packet body not found", "", nontrivial=False):
        return
    pr = make_prover(b, crates)
    vx = pr.vx
    reads = [(bb, t) for bb, t in b.calls() if callee(t) == READ_EXACT]
    order = {x: i for i, x in enumerate(b.rpo())}
    reads.sort(key=lambda x: order[x[0]])
    if not chk.require(len(reads) == 3, "C04-b/read-plan", "read_packet", "expected three read_exact calls, found %d" % len(reads),
                       "header, extended length, body", b.sp()):
        return
    (b1, t1), (b2, t2), (b3, t3) = reads

    def buf_len(bb, t):
        return len_of(pr, vx.operand(t["args"][1], bb))
    L1 = buf_len(b1, t1)
    ok, _ = pr.prove_nonneg(L1.add(Lin(3), -1), b1)
    ok2, _ = pr.prove_nonneg(Lin(3).add(L1, -1), b1)
    chk.require(ok and ok2, "C04-b/header-3", "read_packet", "the first read does not fill exactly 3 header bytes (%r)" % L1, "3 bytes", t1.get("sp"))
    L2 = buf_len(b2, t2)
    ok, _ = pr.prove_nonneg(L2.add(Lin(2), -1), b2)
    ok2, _ = pr.prove_nonneg(Lin(2).add(L2, -1), b2)
    chk.require(ok and ok2, "C04-b/extended-2", "read_packet", "the extended-length read does not fill exactly 2 bytes (%r)" % L2, "2 bytes",
                t2.get("sp"))
    # the extended read happens exactly on header[2] == MARKER
    marks = []
    for i in sorted(b.reachable(0)):
        t = b.blocks[i]["term"]
        if t["t"] == "switch":
            c = vx.operand(t["d"], i)
            if c[0] == "bin" and c[1] in ("Eq", "Ne") and (c[3][0] == "const" or c[2][0] == "const"):
                lhs, k = (c[2], c[3]) if c[3][0] == "const" else (c[3], c[2])
                idx = [x for x in walk(lhs) if x[0] == "call" and x[1] in INDEX and x[2][1] == ("const", 2)]
                if idx:
                    zero_t = dict((v, tb) for v, tb in t["targets"]).get(0)
                    # (block, constant, edge taken when header[2] == constant, edge taken otherwise)
                    marks.append((i, k[1], t["else"], zero_t) if c[1] == "Eq" else (i, k[1], zero_t, t["else"]))
            elif len(t["targets"]) == 1 and t["targets"][0][1] != t["else"] and \
                    any(x[0] == "call" and x[1] in INDEX and x[2][1] == ("const", 2) for x in walk(c)) and \
                    not any(x[0] == "bin" for x in walk(c)):
                # `match header[2] { 0xff => .., other => .. }`: a switch on the byte itself
                marks.append((i, t["targets"][0][0], t["targets"][0][1], t["else"]))
    if chk.require(len(marks) == 1, "C04-d/marker-test", "read_packet", "expected one test of header[2], found %d" % len(marks), "", b.sp()):
        mbb, mval, mtrue, mfalse = marks[0]
        chk.require(mval == MARKER, "C04-d/marker-constant", "read_packet",
                    "the extended form is selected by header[2] == 0x%02X, the writer emits marker 0x%02X" % (mval, MARKER), "0xFF", b.sp())
        chk.require(pr.edge_dominates(mbb, mtrue, b2) and b.dominates(b1, mbb), "C04-b/extended-on-marker", "read_packet",
                    "the two extra length bytes are not read exactly on the marker edge (after the header)", "under header[2]==0xFF", t2.get("sp"))
    # announced length: variable `len` with two definitions
    L3 = buf_len(b3, t3)
    # the announced length is identified structurally: the body buffer is grown by
    # `resize(<current length> + X)`; X is the announced length (whatever the local is called)
    lens = []
    for rbb, rt in b.calls():
        if callee(rt) == "alloc::vec::Vec::<T, A>::resize" and b.dominates(rbb, b3):
            ra = vx.operand(rt["args"][1], rbb)
            if ra[0] == "bin" and ra[1] == "Add":
                for x, y in ((ra[2], ra[3]), (ra[3], ra[2])):
                    if x[0] == "call" and x[1] in LEN_CALLS and y[0] == "var" and ty_str(b.locals[y[2]]["ty"]) == "usize":
                        lens.append(y[2])
    good3 = False
    src_ok = False
    if len(lens) == 1:
        lv = ("var", vx.root_name(lens[0]), lens[0], vx.version(lens[0], b3))
        Llen = pr.lin(lv)
        g1, _ = pr.prove_nonneg(L3.add(Llen, -1), b3)
        g2, _ = pr.prove_nonneg(Llen.add(L3, -1), b3)
        good3 = g1 and g2
        from expr import simplify as _simp
        from discharge import norm_try as _nt, unq as _unq
        defs = [_unq(vx.rvalue(d[3]["rv"], d[0])) if d[2] == "assign" else _unq(_simp(_nt(vx._call(d[3], d[0], 0))))
                for d in pr.tr.defs.get(lens[0], []) if d[2] in ("assign", "call")]
        kinds = set()
        for e in defs:
            calls = [x for x in walk(e) if x[0] == "call"]
            def bytes_3_4(e_):
                """the argument of from_le_bytes is header[3..5] (as a slice->array conversion) or [header[3], header[4]]"""
                if any(c[1] in INDEX and "Range{3, 5}" in show(c) for c in walk(e_) if c[0] == "call"):
                    return True
                for a_ in walk(e_):
                    if a_[0] == "agg" and a_[1] == "array" and len(a_[2]) == 2:
                        ix = []
                        for el in a_[2]:
                            el = strip_ref(el)
                            if el[0] == "call" and el[1] in INDEX and el[2][1][0] == "const":
                                ix.append(el[2][1][1])
                        if ix == [3, 4]:
                            return True
                return False
            le = [c for c in calls if c[1] == "core::num::<impl u16>::from_le_bytes"]
            if le and bytes_3_4(le[0]):
                kinds.add("ext-le")
            elif any(c[1] == "core::num::<impl u16>::from_be_bytes" for c in calls):
                kinds.add("ext-be")
            elif any(c[1] in INDEX and c[2][1] == ("const", 2) for c in calls) and e[0] == "cast":
                kinds.add("direct")
            else:
                kinds.add("other:" + show(e)[:60])
        src_ok = kinds == {"ext-le", "direct"}
        chk.require(src_ok, "C04-d/length-source", "read_packet",
                    "the announced length is computed as %s; expected header[2] (direct) or little-endian u16 of header[3..5]" % sorted(kinds),
                    "direct | LE u16", b.sp())
    chk.require(good3, "C04-b/body-exact", "read_packet",
                "the body read does not fill exactly the announced number of bytes (buffer length %r)" % L3, "len(body buffer) == len",
                t3.get("sp"))
    # header sizes 3 / 5
    fe = [(bb, t) for bb, t in b.calls() if callee(t) == "alloc::vec::from_elem"]
    rs = [(bb, t) for bb, t in b.calls() if callee(t) == "alloc::vec::Vec::<T, A>::resize"]
    h3 = len(fe) == 1 and vx.operand(fe[0][1]["args"][1], fe[0][0]) == ("const", 3)
    h5 = any(vx.operand(t["args"][1], bb) == ("const", 5) for bb, t in rs)
    chk.require(h3 and h5, "C04-d/header-sizes", "read_packet", "header sizes are not 3 (short) / 5 (extended)", "3 / 5", b.sp())
    # ---- (c) parse only after successful reads, on the whole buffer
    parses = [(bb, t) for bb, t in b.calls() if callee(t) == "zvt_builder::ZvtParser::zvt_parse"]
    if chk.require(len(parses) == 1, "C04-c/parse-once", "read_packet", "expected one zvt_parse call, found %d" % len(parses), "", b.sp()):
        pbb, pt = parses[0]
        for k, (rb, rt) in enumerate(reads):
            # the `?` after the awaited read: find the switch on Try::branch of this read's result
            br = None
            import events
            for i in sorted(b.reachable(rb)):
                t = b.blocks[i]["term"]
                if t["t"] == "switch":
                    c = vx.operand(t["d"], i)
                    if c[0] == "discr" and "ControlFlow" in (c[2] if len(c) > 2 else ""):
                        v = pr.tr.value(t["d"])
                        srcs = pr.tr.sources(v.rv["p"], through_calls=events.through) if v.kind == "rv" else set()
                        if any(s_[0] == "call" and s_[1] == READ_EXACT and s_[2] == rb for s_ in srcs) and \
                                not any(s_[0] == "call" and s_[1] == READ_EXACT and s_[2] != rb for s_ in srcs):
                            br = (i, {0: switch_target(t, 0), 1: switch_target(t, 1)})
                            break
            if not chk.require(br is not None, "C04-c/read-checked", "read #%d" % (k + 1),
                               "the outcome of the read is not examined", "`?`", rt.get("sp")):
                continue
            i, tg = br
            brk = tg.get(1)
            cont = tg.get(0)
            # (reachability follows known Ok/Err values through `?`: the Err that a helper hands to its caller's `?`
            # cannot take the caller's success edge)
            from mirlite import feasible_reach
            reach_brk = feasible_reach(b, brk) if brk is not None else set()
            chk.require(pbb not in reach_brk, "C04-c/eof-is-error", "read #%d" % (k + 1),
                        "after a failed read (EOF / I/O error) the parser is still reached: a truncated packet could be returned",
                        "failure edge never reaches zvt_parse", rt.get("sp"))
            if k != 1:
                chk.require(pbb not in feasible_reach(b, 0, cut_edges=[(i, cont)]), "C04-c/parse-after-read", "read #%d" % (k + 1),
                            "the parser can run without this read having succeeded", "success edge dominates zvt_parse", rt.get("sp"))
        a = strip_ref(vx.operand(pt["args"][0], pbb))
        while a[0] == "call" and a[1].endswith("Deref::deref"):
            a = strip_ref(a[2][0])
        # ... "the received buffer" = the vector whose tail the body read fills (whatever it is called)
        body_dst = [x for x in walk(vx.operand(t3["args"][1], b3)) if x[0] == "var"]
        chk.require(a[0] == "var" and any(x[2] == a[2] for x in body_dst), "C04-c/parse-whole-buffer", "read_packet",
                    "the parser is applied to %s, not to the whole received buffer" % show(a)[:60], "zvt_parse(&buf)", pt.get("sp"))
    # ---- (d) the codec side: reuse the C16 leaf tables for Adpu
    bodies = rules_c16.length_bodies(crates)
    d = bodies.get("zvt_builder::length::Adpu")
    if chk.require(d is not None, "C04-d/adpu", "Adpu", "APDU length style not found", "", nontrivial=False):
        wl = rules_c16.writer_leaves(d["serialize"])
        rl = rules_c16.reader_leaves(d["deserialize"], crates)
        nk = lambda x: tuple((0, 0) if y is None else ((1, y) if isinstance(y, int) else (2, str(y))) for y in x)
        w = rules_c16.writer_forms(wl)
        if w != sorted(rules_c16.SPEC["zvt_builder::length::Adpu"], key=nk):
            sim_forms = rules_c16.writer_forms_by_simulation(d["serialize"])      # (see rules_c16: read off the returned bytes)
            if sim_forms is not None:
                sim_forms = [(lo_, min(hi_, 65535), m_, e_, o_) for lo_, hi_, m_, e_, o_ in sim_forms if lo_ <= 65535]
                if sim_forms == sorted(rules_c16.SPEC["zvt_builder::length::Adpu"], key=nk):
                    w = sim_forms
        rules_c16.writer_value(Sub(chk, "C04-d", lambda r: r == "C16-b/writer-value"), "Adpu", d["serialize"])
        chk.require(w == sorted(rules_c16.SPEC["zvt_builder::length::Adpu"], key=nk), "C04-d/writer-header", "Adpu::serialize",
                    "writer header forms %s differ from the specification" % rules_c16.fmt_w(w), "direct <0xFF | 0xFF + LE u16", d["serialize"].sp())
        ext = [l for l in rl if l[2] == "extended"]
        direct = [l for l in rl if l[2] == "direct"]
        ok = ext and all(l[0] == l[1] == MARKER and l[3] == 2 and l[4] == "le" and l[5] == 3 for l in ext) and \
            rules_c16.merge(sorted((l[0], l[1]) for l in direct)) == [(0, 254)] and all(l[5] == 1 for l in direct)
        chk.require(bool(ok), "C04-d/reader-header", "Adpu::deserialize",
                    "reader header interpretation (direct %s, extended %s) differs from the writer" % (direct, ext),
                    "direct 0..=254 data@1 | 0xFF LE u16 data@3", d["deserialize"].sp())
    chk.trusted.append("tokio AsyncReadExt::read_exact fills the buffer or returns an error, for every chunking and schedule")
