"""Rules evaluated on every struct codec (shipped structs, test structs, derive-grid structs).
Shared by C01, C12, C13, C14."""
import layout
from layout import DESER, SER
from mirlite import ty_str, callee, op_place, callee_res
from flow import Tracer, NPlace

HS = ("std::collections::hash::set::HashSet", "alloc::collections::btree::set::BTreeSet")     # the two std sets


def site_of(body):
    return body.raw.get("sp")


def agg_tree(tr, operand, depth=0):
    """Constructor tree of a value: ('adt', 'path::Variant', [children]) | ('int', v) |
    ('place', NPlace) | ('call', name, bb) | ('tuple', [..]) | ('?',)."""
    if depth > 8:
        return ("?",)
    v = tr.value(operand)
    if v.kind == "const":
        if "v" in v.k:
            return ("int", v.k["v"])
        if "str" in v.k:
            return ("str", v.k["str"])
        return ("const",)
    if v.kind == "agg":
        rv = v.rv
        kids = [agg_tree(tr, o, depth + 1) for o in rv["ops"]]
        if rv["kind"] == "adt":
            return ("adt", rv["n"] + "::" + rv["vname"], kids)
        return (rv["kind"], kids)
    if v.kind == "place":
        return ("place", v.place)
    if v.kind == "ref":
        return ("ref", v.place)
    if v.kind == "call":
        return ("call", callee(v.term), v.bb)
    return ("?",)


def follow_false_edges(body, bb):
    seen = set()
    while bb not in seen:
        seen.add(bb)
        t = body.blocks[bb]["term"]
        if t["t"] in ("falseedge",) or (t["t"] == "goto" and not body.blocks[bb]["stmts"]):
            bb = t["to"]
        else:
            break
    return bb


def region(body, start, stop=()):
    """Blocks reachable from start without entering `stop` blocks."""
    return body.reachable(start, removed=stop)


def ret_assignments(body, blocks):
    """Assignments / calls writing the return place _0 inside `blocks`."""
    out = []
    for i in sorted(blocks):
        for j, st in enumerate(body.blocks[i]["stmts"]):
            if st["s"] == "assign" and st["p"]["l"] == 0 and not st["p"]["p"]:
                out.append((i, j, st))
        t = body.blocks[i]["term"]
        if t["t"] == "call" and t["dest"]["l"] == 0:
            out.append((i, "term", t))
    return out


def _chase_moves(tr, l, limit=6):
    """follow `l = move l2` single definitions"""
    while limit > 0:
        limit -= 1
        ds = tr.defs.get(l, [])
        # (duplicated blocks of the second representation repeat a definition: all copies must say the same)
        if ds and all(d[2] == "assign" and d[3]["rv"]["r"] == "use" and not d[3]["p"]["p"] for d in ds):
            ps = [op_place(d[3]["rv"]["o"]) for d in ds]
            if all(p is not None and not [e for e in p["p"] if e != "deref"] for p in ps) and len({p["l"] for p in ps}) == 1:
                l = ps[0]["l"]
                continue
        break
    return l


def err_tree_of_ret(tr, item, region_blocks=None):
    if item[1] == "term":
        t = item[2]
        # `helper(..)?` with the helper inlined: `_r = Err(E)` .. `from_residual((branch(_r) as Break).0)` and the two
        # error types are the same (the conversion is `From<T> for T`): the function returns that Err(E)
        ga = [ty_str(a) for a in (t.get("f") or {}).get("a", [])]
        if callee(t).endswith("FromResidual::from_residual") and len(ga) == 2 and region_blocks is not None and \
                ga[0].startswith("core::result::Result<") and ga[1].startswith("core::result::Result<core::convert::Infallible, ") and \
                ga[0].endswith(", " + ga[1][len("core::result::Result<core::convert::Infallible, "):]):
            p = op_place(t["args"][0])
            a = _chase_moves(tr, p["l"]) if p is not None else None
            ds = tr.defs.get(a, []) if a is not None else []
            src = None
            if len(ds) == 1 and ds[0][2] == "assign" and ds[0][3]["rv"]["r"] == "use":
                q = op_place(ds[0][3]["rv"]["o"])
                pj = [e for e in q["p"] if e != "deref"] if q is not None else []
                if q is not None and len(pj) == 2 and isinstance(pj[0], dict) and pj[0].get("n") == "Break":
                    bd = tr.defs.get(q["l"], [])
                    if bd and all(d[2] == "call" and callee(d[3]) == "core::ops::try_trait::Try::branch" for d in bd):
                        bps = [op_place(d[3]["args"][0]) for d in bd]
                        if all(bp is not None and not bp["p"] for bp in bps) and len({bp["l"] for bp in bps}) == 1:
                            src = _chase_moves(tr, bps[0]["l"])
            if src is not None:
                errs = [(d[0], d[3]) for d in tr.defs.get(src, []) if d[2] == "assign" and not d[3]["p"]["p"] and
                        d[3]["rv"]["r"] == "agg" and d[3]["rv"].get("vname") == "Err" and d[0] in region_blocks]
                if len(errs) == 1:
                    rv = errs[0][1]["rv"]
                    return ("adt", rv.get("n", "") + "::" + rv.get("vname", ""), [agg_tree(tr, o) for o in rv["ops"]])
        return ("call", callee(item[2]), item[0])
    rv = item[2]["rv"]
    if rv["r"] == "agg":
        kids = [agg_tree(tr, o) for o in rv["ops"]]
        return ("adt", rv.get("n", "") + "::" + rv.get("vname", ""), kids)
    return ("?",)


def set_local_of(tr, operand):
    v = tr.value(operand)
    if v.kind == "ref" and not v.place.strip_deref().p:
        return v.place.l
    return None


def const_through_ref(tr, operand):
    """`&const` or const."""
    v = tr.value(operand)
    if v.kind == "const" and "v" in v.k:
        return v.k["v"]
    if v.kind == "ref":
        d = tr.single_def(v.place.l)
        if d and d[2] == "assign" and d[3]["rv"]["r"] == "use" and "k" in d[3]["rv"]["o"]:
            return d[3]["rv"]["o"]["k"].get("v")
        if d and d[2] == "assign" and d[3]["rv"]["r"] == "ref":
            return const_through_ref(tr, {"c": d[3]["rv"]["p"]})
    if v.kind == "place" and not v.place.strip_deref().p:
        d = tr.single_def(v.place.l)
        if d and d[2] == "assign" and d[3]["rv"]["r"] == "use" and "k" in d[3]["rv"]["o"]:
            return d[3]["rv"]["o"]["k"].get("v")
    return None


# ------------------------------------------------------------------ C13

def check_tag_loop(chk, sname, body, info, P="C13"):
    tr = info.tr
    site = site_of(body)
    tagged = info.tagged
    descs = {c["bb"]: layout.descriptor(c) for c in info.calls}
    if not tagged:
        chk.ok(P + "-a/no-tagged-rows", sname, "struct has no tagged rows", site, nontrivial=False)
        return
    tags = sorted(c["tag"] for c in tagged)
    # --- the dispatch switch
    cands = [(bb, t, np) for bb, t, np in info.switches]
    sw = None
    for bb, t, np in cands:
        vals = sorted(v for v, _ in t["targets"])
        if vals == sorted(set(tags)):
            sw = (bb, t, np) if sw is None else "dup"
    if sw is None or sw == "dup":
        chk.fail(P + "-a/dispatch", sname,
                 "no single switch on the decoded tag whose arms are exactly the tagged rows %s "
                 "(switches found: %s)" % ([hex(x) for x in tags],
                                          [sorted(v for v, _ in t["targets"]) for _, t, _ in cands]), site)
        return
    sw_bb, sw_t, sw_np = sw
    if len(set(tags)) != len(tags):
        chk.fail(P + "-a/dispatch", sname, "two tagged rows share one tag", site)
        return
    # tag value comes from Default::decode::<Tag>(input)
    tag_srcs = tr.sources({"l": sw_np.l, "p": []})
    dec_calls = [s for s in tag_srcs if s[0] == "call"]
    ok_src = len(dec_calls) == 1 and dec_calls[0][1] == "zvt_builder::encoding::Encoding::decode"
    if ok_src:
        dt = body.blocks[dec_calls[0][2]]["term"]
        a = [ty_str(x) for x in dt["f"]["a"]]
        ok_src = a == ["zvt_builder::encoding::Default", "zvt_builder::Tag"]
    chk.require(ok_src, P + "-a/tag-source", sname,
                "dispatch tag does not come from Default::decode::<Tag> of the input (sources %s)"
                % sorted(map(str, tag_srcs)), "tag = Default::decode::<Tag>(bytes)", site)
    loops = body.natural_loops()
    hdrs = [h for h, blks in loops.items() if sw_bb in blks]
    if not chk.require(len(hdrs) >= 1, P + "-a/in-loop", sname,
                       "the tag dispatch is not inside a loop: tagged fields are not order-free", "", site):
        return
    hdr = min(hdrs, key=lambda h: len(loops[h]))
    loop_blocks = loops[hdr]
    targets = {v: follow_false_edges(body, b) for v, b in sw_t["targets"]}
    else_bb = sw_t["else"]
    # one set for duplicates, one for required tags
    set_actual = set()
    set_required = set()
    for c in tagged:
        n = c["tag"]
        inst = "%s tag 0x%X (%s)" % (sname, n, c["field"])
        T = targets[n]
        arm = region(body, T, stop=[hdr])
        other_targets = [b for v, b in targets.items() if v != n]
        # a) the row's decode call sits in its own arm only
        chk.require(body.dominates(T, c["bb"]) and not any(body.dominates(o, c["bb"]) for o in other_targets),
                    P + "-a/arm", inst, "decode call of the row is not confined to arm 0x%X of the dispatch" % n,
                    "call in arm", site)
        # b) duplicate detection
        ins = [(bb, t) for bb, t in body.calls() if bb in arm and callee(t).startswith(HS) and
               callee(t).endswith("::insert") and body.dominates(T, bb)]
        if not chk.require(len(ins) == 1, P + "-b/insert", inst,
                           "expected exactly one duplicate-set insert in the arm, found %d" % len(ins), "", site):
            continue
        ibb, it = ins[0]
        ival = tr.const_int(it["args"][1])
        chk.require(ival == n, P + "-b/insert-const", inst,
                    "duplicate set records 0x%s instead of the arm's tag 0x%X" % (
                        "%X" % ival if ival is not None else "?", n), "insert(0x%X)" % n, site)
        sl = set_local_of(tr, it["args"][0])
        set_actual.add(sl)
        chk.require(body.dominates(ibb, c["bb"]), P + "-b/insert-order", inst,
                    "the decode call is not dominated by the duplicate check", "", site, nontrivial=False)
        nxt = body.blocks[it["to"]]["term"] if it["to"] is not None else None
        fbb = None
        if nxt and nxt["t"] == "switch" and op_place(nxt["d"]) and \
                tr.nplace(op_place(nxt["d"])) == NPlace(it["dest"]["l"], []):
            for v, b in nxt["targets"]:
                if v == 0:
                    fbb = b
            true_bb = nxt["else"]
        if fbb is None:
            # equivalent spelling: `if set.contains(&n) { return Err(Duplicate) } set.insert(n);`
            cons = [(bb, t) for bb, t in body.calls() if bb in arm and callee(t).startswith(HS) and
                    callee(t).endswith("::contains") and body.dominates(T, bb) and body.dominates(bb, ibb)]
            if len(cons) == 1 and const_through_ref(tr, cons[0][1]["args"][1]) == n and \
                    set_local_of(tr, cons[0][1]["args"][0]) == sl and cons[0][1]["to"] is not None:
                ct = cons[0][1]
                nxt2 = body.blocks[ct["to"]]["term"]
                if nxt2["t"] == "switch" and op_place(nxt2["d"]) and \
                        tr.nplace(op_place(nxt2["d"])) == NPlace(ct["dest"]["l"], []):
                    absent = dict((v, b) for v, b in nxt2["targets"]).get(0)
                    # the insert happens on the first-occurrence (absent) edge only
                    if absent is not None and body.dominates(absent, ibb):
                        fbb = nxt2["else"]          # already present -> duplicate
                        true_bb = absent
        if not chk.require(fbb is not None, P + "-b/dup-branch", inst,
                           "result of the duplicate-set insert is not tested", "", site):
            continue
        dup_region = region(body, fbb, stop=[hdr])
        chk.require(c["bb"] not in dup_region and hdr not in body.reachable(fbb, removed=[]) or
                    (c["bb"] not in dup_region and not _reaches(body, fbb, hdr)),
                    P + "-b/dup-exit", inst, "after a duplicate the decoder continues instead of returning",
                    "", site)
        rets = ret_assignments(body, {b for b in dup_region if body.dominates(fbb, b)})
        trees = [err_tree_of_ret(tr, r, {b for b in dup_region if body.dominates(fbb, b)}) for r in rets]
        want = ("adt", "core::result::Result::Err",
                [("adt", "zvt_builder::ZVTError::DuplicateTag", [("adt", "zvt_builder::Tag::Tag", [("int", n)])])])
        chk.require(trees == [want], P + "-b/dup-error", inst,
                    "duplicate of tag 0x%X does not return Err(DuplicateTag(Tag(0x%X))): returns %s" % (n, n, trees),
                    "Err(DuplicateTag(Tag(0x%X)))" % n, site)
        chk.require(body.dominates(true_bb, c["bb"]), P + "-b/first-branch", inst,
                    "decode call not on the first-occurrence edge of the duplicate check", "", site,
                    nontrivial=False)
        # c) required bookkeeping
        rems = [(bb, t) for bb, t in body.calls() if bb in arm and callee(t).startswith(HS) and
                callee(t).endswith("::remove") and body.dominates(T, bb)]
        card = descs[c["bb"]]["card"]
        for rbb, rt in rems:
            rv = const_through_ref(tr, rt["args"][1])
            chk.require(rv == n, P + "-c/remove-const", inst,
                        "arm removes tag %s from the required set instead of its own tag 0x%X" % (
                            hex(rv) if rv is not None else "?", n), "remove(0x%X)" % n, site)
            set_required.add(set_local_of(tr, rt["args"][0]))
        if card == "one":
            chk.require(len(rems) == 1 and body.dominates(rems[0][0], c["bb"]) or
                        (len(rems) == 1 and body.dominates(true_bb, rems[0][0])),
                        P + "-c/remove", inst, "mandatory row never leaves the required set when seen", "", site)
        # arm continues the loop
        chk.require(_reaches(body, c["bb"], hdr), P + "-a/continue", inst,
                    "after decoding this row the loop is left: later tagged fields would be ignored", "", site)
        # e) wiring: the decoded value reaches the row's struct field and nothing else writes it
        srcs = info.field_sources.get(c["field"], [])
        others = [s_ for s_ in srcs if not (s_[0] == "default" or (s_[0] == "deser" and s_[1] == c["bb"] and s_[2] == 0))]
        chk.require(not others and any(s_[0] == "deser" for s_ in srcs), P + "-e/wiring", inst,
                    "struct field %s is also written from %s" % (c["field"], others),
                    "field <- arm value | default", site)
        chk.require(c["rem_to"] is not None and NPlace(c["rem_to"], []) == c["src"], P + "-e/remainder", inst,
                    "remainder of the row's decode is not stored back into the loop's input slice "
                    "(stored to %s, input is %r)" % (c["rem_to"], c["src"]), "bytes <- remainder", site)
    chk.require(len(set_actual) == 1 and None not in set_actual, P + "-b/one-set", sname,
                "duplicate detection uses %d different sets" % len(set_actual), "", site, nontrivial=False)
    # --- required set
    req_locals = set_required - {None}
    want_req = sorted(c["tag"] for c in tagged if descs[c["bb"]]["card"] == "one")
    init_req = None
    req_local = None
    for l in range(len(body.locals)):
        for d in tr.defs.get(l, []):
            if d[2] == "call" and callee_res(d[3]).endswith(("HashSet<T> as core::convert::From<[T; N]>>::from", "BTreeSet<T> as core::convert::From<[T; N]>>::from")) \
                    or (d[2] == "call" and callee(d[3]) == "core::convert::From::from" and
                        ty_str(d[3]["f"]["a"][0]).startswith(HS)):
                v = tr.value(d[3]["args"][0])
                arr = None
                if v.kind == "agg" and v.rv["kind"] == "array":
                    arr = v.rv
                elif v.kind == "place":
                    dd = tr.defs.get(v.place.l, [])
                    if len(dd) == 1 and dd[0][2] == "assign" and dd[0][3]["rv"]["r"] == "agg":
                        arr = dd[0][3]["rv"]
                if arr is not None:
                    init_req = sorted(tr.const_int(o) for o in arr["ops"])
                    req_local = l
    if init_req is None:
        # the same set built by collecting the array: `[a, b].into_iter().collect::<HashSet<u16>>()` / `HashSet::from_iter([..])`
        for l in range(len(body.locals)):
            if not ty_str(body.locals[l].get("ty")).startswith(HS):
                continue
            for d in tr.defs.get(l, []):
                if d[2] != "call" or not callee(d[3]).endswith(("Iterator::collect", "FromIterator::from_iter")):
                    continue
                v = tr.value(d[3]["args"][0])
                hops = 0
                while v.kind == "call" and callee(v.term).endswith(("IntoIterator::into_iter", "<impl [T]>::iter", "Iterator::copied",
                                                                    "Iterator::cloned")) and hops < 4:
                    v = tr.value(v.term["args"][0])
                    hops += 1
                arr = None
                if v.kind == "agg" and v.rv["kind"] == "array":
                    arr = v.rv
                elif v.kind == "ref":
                    dd = tr.defs.get(v.place.l, [])
                    if len(dd) == 1 and dd[0][2] == "assign" and dd[0][3]["rv"]["r"] == "agg" and dd[0][3]["rv"]["kind"] == "array":
                        arr = dd[0][3]["rv"]
                elif v.kind == "place":
                    dd = tr.defs.get(v.place.l, [])
                    if len(dd) == 1 and dd[0][2] == "assign" and dd[0][3]["rv"]["r"] == "agg" and dd[0][3]["rv"]["kind"] == "array":
                        arr = dd[0][3]["rv"]
                if arr is not None and all(tr.const_int(o) is not None for o in arr["ops"]):
                    init_req = sorted(tr.const_int(o) for o in arr["ops"])
                    req_local = l
    chk.require(init_req == want_req, P + "-c/required-set", sname,
                "required-tag set is initialised to %s, mandatory tagged rows are %s" % (
                    [hex(x) for x in init_req] if init_req is not None else None, [hex(x) for x in want_req]),
                "required = %s" % [hex(x) for x in want_req], site)
    if want_req:
        chk.require(req_locals <= {req_local}, P + "-c/required-set-identity", sname,
                    "arms remove from a set that is not the required set", "", site, nontrivial=False)
    # after the loop: Ok only when required set is empty
    if req_local is not None:
        # the emptiness test of the required set after the loop, in any spelling (is_empty / len() vs 0 or 1)
        empt = []
        for sbb in sorted(body.reachable(0)):
            st_ = body.blocks[sbb]["term"]
            if st_["t"] != "switch" or sbb in loop_blocks:
                continue
            v_ = tr.value(st_["d"])
            zero_t = dict((val, tb) for val, tb in st_["targets"]).get(0)
            if v_.kind == "call" and callee(v_.term).startswith(HS) and callee(v_.term).endswith("::is_empty") and \
                    set_local_of(tr, v_.term["args"][0]) == req_local:
                empt.append((sbb, st_["else"], zero_t))
            elif v_.kind == "rv" and v_.rv["r"] == "bin" and v_.rv["op"] in ("Eq", "Ne", "Gt", "Ge", "Lt", "Le"):
                op_ = v_.rv["op"]
                a_, b_ = v_.rv["a"], v_.rv["b"]

                def _is_len(o):
                    x = tr.value(o)
                    return x.kind == "call" and callee(x.term).startswith(HS) and callee(x.term).endswith("::len") and \
                        set_local_of(tr, x.term["args"][0]) == req_local
                n_ = None
                if _is_len(a_):
                    n_ = tr.const_int(b_)
                elif _is_len(b_):
                    n_ = tr.const_int(a_)
                    op_ = {"Lt": "Gt", "Le": "Ge", "Gt": "Lt", "Ge": "Le"}.get(op_, op_)
                if n_ is not None:
                    if (op_, n_) in (("Eq", 0), ("Lt", 1), ("Le", 0)):
                        empt.append((sbb, st_["else"], zero_t))
                    elif (op_, n_) in (("Ne", 0), ("Gt", 0), ("Ge", 1)):
                        empt.append((sbb, zero_t, st_["else"]))
        ok_blocks = [r for r in ret_assignments(body, body.reachable(0))
                     if r[1] != "term" and r[2]["rv"]["r"] == "agg" and r[2]["rv"].get("vname") == "Ok"]
        good = len(empt) == 1
        fbb = tbb = None
        if good:
            ebb, tbb, fbb = empt[0]
            good = fbb is not None and tbb is not None and all(body.dominates(tbb, r[0]) for r in ok_blocks) and len(ok_blocks) >= 1
        chk.require(good, P + "-c/missing-check", sname,
                    "a value is returned without testing that the required set is empty", "Ok dominated by is_empty(required)", site)
        if good:
            miss_region = {b for b in body.reachable(fbb) if body.dominates(fbb, b)}
            rets = ret_assignments(body, miss_region)
            trees = [err_tree_of_ret(tr, r) for r in rets]
            okm = len(trees) == 1 and trees[0][0] == "adt" and trees[0][1] == "core::result::Result::Err" and \
                trees[0][2] and trees[0][2][0][0] == "adt" and \
                trees[0][2][0][1] == "zvt_builder::ZVTError::MissingRequiredTags"
            chk.require(okm, P + "-c/missing-error", sname,
                        "missing mandatory tags do not produce Err(MissingRequiredTags(..)): %s" % trees, "", site)
            if okm:
                # the vector derives from the required set through iteration/collect/sort only
                allowed = ("into_iter", "::map", "::collect", "sort", "deref_mut", "from_iter", "into_sorted")
                bad = []
                srcs = tr.sources(rets[0][2]["rv"]["ops"][0],
                                  through_calls=lambda n, t: any(a in n for a in allowed))
                from_req = any(s_[0] == "arg" and s_[1] == req_local for s_ in srcs) or \
                    any(s_[0] == "call" and "HashSet" in callee_res(body.blocks[s_[2]]["term"]) for s_ in srcs)
                # (a set that was itself collected from the array of mandatory tags: the sources run through to those tags)
                consts_ = {s_[1] for s_ in srcs if s_[0] == "const" and isinstance(s_[1], int)}
                from_req = from_req or (init_req is not None and set(init_req) <= consts_)
                calls_other = [s_ for s_ in srcs if s_[0] == "call" and not (
                    "From<[T; N]>>::from" in callee_res(body.blocks[s_[2]]["term"]) or
                    s_[1] == "core::convert::From::from")]
                chk.require(from_req and not calls_other, P + "-c/missing-all", sname,
                            "the reported missing tags do not derive from the whole required set "
                            "(sources %s)" % sorted(map(str, srcs)), "vec <- required set", site)
    # --- a) the loop is left only when the input is exhausted, makes no progress, holds no further
    # tag, shows an unknown tag, or through an error return
    ok_blocks_all = {r[0] for r in ret_assignments(body, body.reachable(0))
                     if r[1] != "term" and r[2]["rv"]["r"] == "agg" and r[2]["rv"].get("vname") == "Ok"}
    in_locals0 = {c["src"].l for c in tagged}
    in_local0 = next(iter(in_locals0)) if len(in_locals0) == 1 else None
    E0 = follow_false_edges(body, else_bb)
    for x in sorted(loop_blocks):
        for y in body.succ[x]:
            if y in loop_blocks:
                continue
            if not (body.reachable(y) & ok_blocks_all):
                continue            # error exit
            tx = body.blocks[x]["term"]
            benign = False
            what = "bb%d -> bb%d" % (x, y)
            if tx["t"] == "switch":
                v = tr.value(tx["d"])
                e_true = tx["else"]
                if v.kind == "call" and callee(v.term).endswith("::is_empty") and in_local0 is not None:
                    a = tr.value(v.term["args"][0])
                    if a.kind == "ref" and a.place.strip_deref() == NPlace(in_local0, []) and y == e_true:
                        benign = True
                        what = "input empty"
                if v.kind == "rv" and v.rv["r"] == "bin" and in_local0 is not None:
                    em = emptiness_test(tr, v.rv, in_local0)
                    zero_t = dict((val, tb) for val, tb in tx["targets"]).get(0)
                    if em is not None and y == (e_true if em else zero_t):
                        benign = True
                        what = "input empty"
                if v.kind == "rv" and v.rv["r"] == "bin" and v.rv["op"] in ("Ne", "Eq") and in_local0 is not None and not benign:
                    if progress_guard(body, tr, hdr, loop_blocks, in_local0, sw_bb) and \
                            (len_of_local(tr, v.rv["a"], in_local0) or len_of_local(tr, v.rv["b"], in_local0)):
                        benign = True
                        what = "no progress"
                if v.kind == "rv" and v.rv["r"] == "bin" and v.rv["op"] in ("Ne", "Eq") and in_local0 is not None and not benign:
                    # the guard at the bottom of the iteration: `let before = bytes.len(); ..; if bytes.len() == before { break }`
                    for p_, q_ in ((v.rv["a"], v.rv["b"]), (v.rv["b"], v.rv["a"])):
                        vp, vq = tr.value(p_), tr.value(q_)
                        if len_of_local(tr, p_, in_local0) and len_of_local(tr, q_, in_local0) and vp.kind == "call" and vq.kind == "call" and \
                                vp.bb != vq.bb and vq.bb in loop_blocks and vp.bb in loop_blocks and body.dominates(vq.bb, vp.bb) and \
                                body.dominates(vp.bb, x):
                            zero_t = dict((val, tb) for val, tb in tx["targets"]).get(0)
                            if y == (e_true if v.rv["op"] == "Eq" else zero_t):
                                benign = True
                                what = "no progress in this iteration"
                if v.kind == "call" and callee(v.term).endswith(("cmp::PartialEq::eq", "cmp::PartialEq::ne")) and in_local0 is not None \
                        and not benign and progress_guard_replace(body, tr, hdr, loop_blocks, in_local0, sw_bb) and \
                        any(ty_str(x_).startswith("core::option::Option<usize") for x_ in (v.term.get("f") or {}).get("a", [])):
                    # `last.replace(len) == Some(len)`: the exit of the Option-kept progress guard
                    benign = True
                    what = "no progress"
                if v.kind == "rv" and v.rv["r"] == "discr":
                    src = tr.sources(v.rv["p"])
                    cs = [s_ for s_ in src if s_[0] == "call"]
                    if len(cs) == 1 and cs[0][1] == "zvt_builder::encoding::Encoding::decode":
                        dt2 = body.blocks[cs[0][2]]["term"]
                        if [ty_str(z) for z in dt2["f"]["a"]] == ["zvt_builder::encoding::Default", "zvt_builder::Tag"]:
                            benign = True
                            what = "no further tag decodable"
                if x == sw_bb:
                    benign = benign or follow_false_edges(body, y) == E0
            if not benign and (body.dominates(E0, x) or x == E0):
                benign = True       # inside the unknown-tag arm
            chk.require(benign, P + "-a/loop-exit", "%s exit bb%d->bb%d" % (sname, x, y),
                        "the tag loop can be left (and a value returned) while input with known tags remains: a later duplicate "
                        "or field would go unnoticed", what, site)
    # --- d) unknown tag
    E = follow_false_edges(body, else_bb)
    eregion = region(body, E, stop=[hdr])
    field_locals = set(info.field_locals.values())
    in_locals = {c["src"].l for c in tagged}
    disturbed = []
    for b in eregion:
        if not body.dominates(E, b):
            continue
        for st in body.blocks[b]["stmts"]:
            if st["s"] == "assign" and (st["p"]["l"] in field_locals or st["p"]["l"] in in_locals):
                disturbed.append(body.local_name(st["p"]["l"]))
        t = body.blocks[b]["term"]
        if t["t"] == "call" and (t["dest"]["l"] in field_locals or t["dest"]["l"] in in_locals):
            disturbed.append(body.local_name(t["dest"]["l"]))
        if t["t"] == "call" and callee(t) == DESER:
            disturbed.append("decode call")
    chk.require(not disturbed, P + "-d/unknown-tag", sname,
                "the unknown-tag arm modifies %s" % disturbed, "default arm is inert", site)
    # leaves the loop (or returns an error): header must not be reachable from the default arm
    in_local = next(iter(in_locals)) if len(in_locals) == 1 else None
    guarded = in_local is not None and (progress_guard(body, tr, hdr, loop_blocks, in_local, sw_bb) or
                                        progress_guard_replace(body, tr, hdr, loop_blocks, in_local, sw_bb))
    chk.require(not _reaches(body, E, hdr) or guarded, P + "-d/unknown-tag-exit", sname,
                "after an unknown tag the loop continues without a progress guard (the tag would be re-read "
                "forever)", "default arm exits (or the no-progress guard ends the loop)", site)


def emptiness_test(tr, rv, local):
    """True if the comparison rv is true exactly when `local` (a slice) is empty, False if it is true
    exactly when it is non-empty, None otherwise: len == 0, len < 1, len <= 0 | len != 0, len > 0, len >= 1."""
    op = rv["op"]
    a, b = rv["a"], rv["b"]
    if len_of_local(tr, a, local):
        n = tr.const_int(b)
    elif len_of_local(tr, b, local):
        n = tr.const_int(a)
        op = {"Lt": "Gt", "Le": "Ge", "Gt": "Lt", "Ge": "Le"}.get(op, op)
    else:
        return None
    if n is None:
        return None
    if (op, n) in (("Eq", 0), ("Lt", 1), ("Le", 0)):
        return True
    if (op, n) in (("Ne", 0), ("Gt", 0), ("Ge", 1)):
        return False
    return None


def len_of_local(tr, operand, local):
    """Is the operand the result of `<[u8]>::len(&*local)` ?"""
    v = tr.value(operand)
    if v.kind == "call" and callee(v.term) == "core::slice::<impl [T]>::len":
        a = tr.value(v.term["args"][0])
        if a.kind == "ref" and same_local(tr, a.place.strip_deref(), local):
            return True
    return False


def same_local(tr, nplace, local):
    """nplace denotes `local` - directly, or (when `local` is assigned exactly once, so that the tracer
    sees through it) the place that single assignment copies."""
    if nplace == NPlace(local, []):
        return True
    try:
        return nplace == tr.nplace({"l": local, "p": []}).strip_deref()
    except Exception:
        return False


def progress_guard(body, tr, hdr, loop_blocks, in_local, before_bb):
    """The loop is left as soon as one iteration does not shorten the input slice:
    there is a local c and a test `c != len(input)` in the loop, dominating `before_bb`, whose
    equal-edge leaves the loop, and inside the loop c is only ever assigned `len(input)` at a
    point after the test and before `before_bb`."""
    for bb in sorted(loop_blocks):
        t = body.blocks[bb]["term"]
        if t["t"] != "switch" or not body.dominates(bb, before_bb):
            continue
        v = tr.value(t["d"])
        if v.kind != "rv" or v.rv["r"] != "bin" or v.rv["op"] not in ("Ne", "Eq"):
            continue
        for a, b in ((v.rv["a"], v.rv["b"]), (v.rv["b"], v.rv["a"])):
            pa = op_place(a)
            if pa is None:
                continue
            c = tr.nplace(pa)
            if c.p or not len_of_local(tr, b, in_local):
                continue
            # which edge is "equal"?
            eq_target = None
            for val, tb in t["targets"]:
                if val == 0:
                    eq_target = tb if v.rv["op"] == "Ne" else None
            if v.rv["op"] == "Eq":
                eq_target = t["else"]
            if eq_target is None or eq_target in loop_blocks and _reaches_within(body, eq_target, hdr, loop_blocks):
                continue
            ok = True
            n_in = 0
            for d in tr.defs.get(c.l, []):
                if d[0] not in loop_blocks:
                    continue
                n_in += 1
                if d[2] == "assign" and d[3]["rv"]["r"] == "use" and len_of_local(tr, d[3]["rv"]["o"], in_local) \
                        and body.dominates(bb, d[0]) and body.dominates(d[0], before_bb):
                    continue
                if d[2] == "call" and callee(d[3]) == "core::slice::<impl [T]>::len" and \
                        body.dominates(bb, d[0]) and body.dominates(d[0], before_bb):
                    a0 = tr.value(d[3]["args"][0])
                    if a0.kind == "ref" and same_local(tr, a0.place.strip_deref(), in_local):
                        continue
                ok = False
            if ok and n_in >= 1:
                return True
    return False


def progress_guard_replace(body, tr, hdr, loop_blocks, in_local, before_bb):
    """The same guard kept in an Option: `if last.replace(len(input)) == Some(len(input)) { break }`.
    `replace` stores this round's length and hands back the previous round's (None in the first round); the loop
    is left when they are equal.  Conditions: the test dominates `before_bb`, its equal edge leaves the loop, both
    lengths are `len(input)`, and inside the loop nothing else writes the Option."""
    def is_len(op):
        if len_of_local(tr, op, in_local):
            return True
        v = tr.value(op)
        if v.kind == "rv" and v.rv["r"] == "un" and v.rv.get("op") == "PtrMetadata":
            a = tr.value(v.rv["a"])
            return a.kind in ("ref", "place") and same_local(tr, a.place.strip_deref(), in_local)
        return False

    def through_ref(op):
        v = tr.value(op)
        if v.kind == "ref" and not v.place.p:
            d = tr.single_def(v.place.l)
            return d
        return None
    for bb in sorted(loop_blocks):
        t = body.blocks[bb]["term"]
        if t["t"] != "switch" or not body.dominates(bb, before_bb):
            continue
        v = tr.value(t["d"])
        if v.kind != "call" or not callee(v.term).endswith(("cmp::PartialEq::eq", "cmp::PartialEq::ne")) or len(v.term["args"]) != 2:
            continue
        is_eq = callee(v.term).endswith("::eq")
        rep = some = None
        for a in v.term["args"]:
            d = through_ref(a)
            if d is None:
                continue
            if d[2] == "call" and callee(d[3]).endswith("Option::<T>::replace"):
                rep = d
            elif d[2] == "assign" and d[3]["rv"]["r"] == "agg" and d[3]["rv"].get("vname") == "Some" and \
                    len(d[3]["rv"]["ops"]) == 1 and is_len(d[3]["rv"]["ops"][0]):
                some = d
        if rep is None and some is not None:
            # variant without `replace`: `if prev == Some(len(input)) { break }  prev = Some(len(input));`
            for a in v.term["args"]:
                av = tr.value(a)
                if av.kind != "ref" or av.place.p:
                    continue
                c = av.place.l
                ds = tr.defs.get(c, [])
                if len(ds) < 2 or tr.mut_writers().get(c):
                    continue
                zero_t = dict((val, tb) for val, tb in t["targets"]).get(0)
                eq_target = t["else"] if is_eq else zero_t
                if eq_target is None or (eq_target in loop_blocks and _reaches_within(body, eq_target, hdr, loop_blocks)):
                    continue
                ok, n_in = True, 0
                for d in ds:
                    if d[0] not in loop_blocks:
                        continue
                    n_in += 1
                    rv_ = d[3]["rv"] if d[2] == "assign" else None
                    if rv_ is not None and rv_["r"] == "use":
                        # `prev = move tmp` with `tmp = Some(len(input))`
                        pv = op_place(rv_["o"])
                        sd = tr.single_def(pv["l"]) if pv is not None and not pv["p"] else None
                        rv_ = sd[3]["rv"] if sd is not None and sd[2] == "assign" else None
                    if rv_ is not None and rv_["r"] == "agg" and rv_.get("vname") == "Some" and \
                            len(rv_["ops"]) == 1 and is_len(rv_["ops"][0]) and \
                            body.dominates(bb, d[0]) and body.dominates(d[0], before_bb):
                        continue
                    ok = False
                if ok and n_in >= 1:
                    return True
        if rep is None or some is None:
            continue
        rt = rep[3]
        if rep[0] not in loop_blocks or not body.dominates(rep[0], bb) or len(rt["args"]) != 2 or not is_len(rt["args"][1]):
            continue
        cv = tr.value(rt["args"][0])
        if not (cv.kind == "ref" and cv.mut and not cv.place.p):
            continue
        c = cv.place.l
        # equal edge leaves the loop
        zero_t = dict((val, tb) for val, tb in t["targets"]).get(0)
        eq_target = t["else"] if is_eq else zero_t
        if eq_target is None or (eq_target in loop_blocks and _reaches_within(body, eq_target, hdr, loop_blocks)):
            continue
        # nothing else in the loop writes the Option
        others = [d for d in tr.defs.get(c, []) if d[0] in loop_blocks]
        writers = [(wb, wt) for wb, wt in tr.mut_writers().get(c, []) if wb in loop_blocks and wt is not rt]
        if not others and not writers:
            return True
    return False


def _reaches_within(body, a, b, blocks):
    seen = set()
    st = [a]
    while st:
        x = st.pop()
        if x == b:
            return True
        if x in seen or x not in blocks:
            continue
        seen.add(x)
        st.extend(body.succ[x])
    return False


def _reaches(body, a, b):
    return b in body.reachable(a) if a != b else any(b in body.reachable(s) for s in body.succ[a])


# ------------------------------------------------------------------ C01-a / C01-e

def check_enc_dec_agree(chk, sname, enc_rows, info, enc_body, dec_body, P="C01"):
    er = [layout.row_key(r) for r in enc_rows]
    dpos = [layout.row_key(r) for r in info.positional]
    dtag = [layout.row_key(r) for r in info.tagged]
    epos = [k for k in er if k[5] is None]
    etag = [k for k in er if k[5] is not None]
    site = site_of(dec_body)
    n = 0
    for i, k in enumerate(epos):
        n += 1
        g = dpos[i] if i < len(dpos) else None
        chk.require(g == k, P + "-a/positional", "%s.%s" % (sname, k[0]),
                    "encoder writes %s at position %d but decoder reads %s" % (k, i, g), "pos %d" % i, site)
    if len(dpos) > len(epos):
        chk.fail(P + "-a/positional", sname, "decoder reads positional rows the encoder never writes: %s"
                 % dpos[len(epos):], site)
    dt = {}
    for k in dtag:
        dt.setdefault(k[5], []).append(k)
    for k in etag:
        n += 1
        chk.require(dt.get(k[5]) == [k], P + "-a/tagged", "%s.%s" % (sname, k[0]),
                    "encoder writes %s but decoder reads %s under that tag" % (k, dt.get(k[5])),
                    "tag 0x%X" % k[5], site)
    extra = [k for k in dtag if k[5] not in {e[5] for e in etag}]
    if extra:
        chk.fail(P + "-a/tagged", sname, "decoder reads tagged rows the encoder never writes: %s" % extra, site)
    # positional rows precede tagged rows in the encoder (the decoder reads them first)
    seen_tag = False
    for k in er:
        if k[5] is not None:
            seen_tag = True
        elif seen_tag:
            chk.fail(P + "-a/order", "%s.%s" % (sname, k[0]),
                     "positional row is written after a tagged row, but the decoder reads all positional rows first",
                     site_of(enc_body))
    # C01-e distinct tags
    tags = [k[5] for k in etag]
    chk.require(len(tags) == len(set(tags)), P + "-e/distinct-tags", sname,
                "two rows share a tag: %s; the second can never be read back" % [hex(t) for t in tags],
                "%d distinct tags" % len(tags), site_of(enc_body), nontrivial=bool(tags))
    # every struct field is written and read
    return n
