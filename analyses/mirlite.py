"""MIR-lite loader and generic graph utilities (CFG, dominators, def-use, pretty printer)."""
import json
import os
from collections import defaultdict


# ------------------------------------------------------------------ types

def ty_str(t):
    if t is None:
        return "?"
    k = t.get("k")
    if k == "prim":
        return t["n"]
    if k == "adt":
        a = t.get("a") or []
        n = t["n"]
        return n + ("<" + ", ".join(ty_str(x) for x in a) + ">" if a else "")
    if k == "ref":
        return ("&mut " if t["m"] else "&") + ty_str(t["t"])
    if k == "ptr":
        return ("*mut " if t["m"] else "*const ") + ty_str(t["t"])
    if k == "slice":
        return "[" + ty_str(t["t"]) + "]"
    if k == "array":
        return "[" + ty_str(t["t"]) + "; " + ty_str(t["n"]) + "]"
    if k == "tuple":
        return "(" + ", ".join(ty_str(x) for x in t["a"]) + ")"
    if k == "fndef":
        a = t.get("a") or []
        return "fn " + t["n"] + ("<" + ", ".join(ty_str(x) for x in a) + ">" if a else "")
    if k in ("closure", "coroutine", "coroutine_closure", "coroutine_witness"):
        return "{" + k + " " + t["n"] + "}"
    if k == "param":
        return t["n"]
    if k == "alias":
        a = t.get("a") or []
        return "alias " + t["n"] + ("<" + ", ".join(ty_str(x) for x in a) + ">" if a else "")
    if k == "dyn":
        return "dyn " + t["n"]
    if k == "const":
        return str(t.get("v", t.get("s")))
    if k == "constparam":
        return t["n"]
    return t.get("s", k or "?")


def ty_is(t, name):
    return t is not None and t.get("k") == "adt" and t["n"] == name


def strip_refs(t):
    while t is not None and t.get("k") in ("ref", "ptr"):
        t = t["t"]
    return t


# ------------------------------------------------------------------ printing

def place_str(p, body=None):
    s = "_%d" % p["l"]
    if body is not None:
        nm = body["locals"][p["l"]].get("name")
        if nm:
            s = "%s(_%d)" % (nm, p["l"])
    for e in p["p"]:
        if e == "deref":
            s = "(*" + s + ")"
        elif e == "opaque":
            s = s + " as opaque"
        elif isinstance(e, dict):
            if "f" in e:
                s = s + "." + str(e.get("n", e["f"]))
            elif "idx" in e:
                s = s + "[_%d]" % e["idx"]
            elif "cidx" in e:
                s = s + "[%s%d]" % ("-" if e["from_end"] else "", e["cidx"])
            elif "sub_from" in e:
                s = s + "[%d..%s%d]" % (e["sub_from"], "-" if e["from_end"] else "", e["sub_to"])
            elif "dc" in e:
                s = "(" + s + " as " + str(e.get("n", e["dc"])) + ")"
        else:
            s = s + "?" + str(e)
    return s


def const_str(k):
    if "fn" in k:
        return fn_str(k["fn"])
    if "v" in k:
        return "%s_%s" % (k["v"], ty_str(k["ty"]))
    if "str" in k:
        return json.dumps(k["str"])
    if "bytes" in k:
        return "b" + str(k["bytes"])
    if "constparam" in k:
        return k["constparam"]
    if "uneval" in k:
        return "const " + k["uneval"]
    if k.get("zst"):
        return "zst:" + ty_str(k["ty"])
    return "const:" + ty_str(k["ty"])


def op_str(o, body=None):
    if "c" in o:
        return "copy " + place_str(o["c"], body)
    if "m" in o:
        return "move " + place_str(o["m"], body)
    if "k" in o:
        return const_str(o["k"])
    return str(o)


def fn_str(f):
    a = f.get("a") or []
    s = f["n"] + ("::<" + ", ".join(ty_str(x) for x in a) + ">" if a else "")
    return s


def rv_str(rv, body=None):
    r = rv["r"]
    if r == "use":
        return op_str(rv["o"], body)
    if r == "ref":
        return ("&mut " if rv["mut"] else "&") + place_str(rv["p"], body)
    if r == "rawptr":
        return "&raw " + place_str(rv["p"], body)
    if r == "bin":
        return "%s(%s, %s)" % (rv["op"], op_str(rv["a"], body), op_str(rv["b"], body))
    if r == "un":
        return "%s(%s)" % (rv["op"], op_str(rv["a"], body))
    if r == "cast":
        return "%s as %s (%s)" % (op_str(rv["o"], body), ty_str(rv["ty"]), rv["kind"])
    if r == "discr":
        return "discriminant(%s)" % place_str(rv["p"], body)
    if r == "agg":
        ops = ", ".join(op_str(x, body) for x in rv["ops"])
        if rv["kind"] == "adt":
            return "%s::%s{%s}(%s)" % (rv["n"], rv["vname"], ",".join(rv["fields"]), ops)
        return "%s[%s](%s)" % (rv["kind"], rv.get("n", ""), ops)
    if r == "cfd":
        return "cfd " + place_str(rv["p"], body)
    if r == "repeat":
        return "[%s; %s]" % (op_str(rv["o"], body), ty_str(rv["n"]))
    return rv.get("s", r)


def term_str(t, body=None):
    k = t["t"]
    if k == "goto":
        return "goto bb%d" % t["to"]
    if k == "switch":
        return "switchInt(%s) [%s] else bb%d" % (
            op_str(t["d"], body), ", ".join("%d:bb%d" % (v, b) for v, b in t["targets"]), t["else"])
    if k == "call":
        f = fn_str(t["f"]) if "f" in t else op_str(t["fop"], body)
        res = ""
        if "f" in t and "res" in t["f"] and t["f"]["res"]["n"] != t["f"]["n"]:
            res = "  [=> %s]" % fn_str(t["f"]["res"])
        return "%s = %s(%s) -> %s unwind %s%s" % (
            place_str(t["dest"], body), f, ", ".join(op_str(a, body) for a in t["args"]),
            "bb%s" % t["to"] if t["to"] is not None else "!", t["unwind"], res)
    if k == "assert":
        return "assert(%s == %s, %s %s(%s)) -> bb%d" % (
            op_str(t["cond"], body), t["expected"], t["kind"], t.get("op", ""),
            ", ".join(op_str(a, body) for a in t.get("ops", [])), t["to"])
    if k == "drop":
        return "drop(%s) -> bb%d unwind %s" % (place_str(t["p"], body), t["to"], t["unwind"])
    if k == "yield":
        return "yield(%s) -> resume bb%d drop %s" % (op_str(t["v"], body), t["resume"], t["drop"])
    if k == "falseedge":
        return "falseEdge -> bb%d (imag bb%d)" % (t["to"], t["imag"])
    if k == "falseunwind":
        return "falseUnwind -> bb%d" % t["to"]
    return k


def dump_body(b, out=None):
    lines = []
    lines.append("fn %s  [%s]  %s %s" % (b["id"], b["defkind"], b.get("sp"), b.get("x", "")))
    for i, l in enumerate(b["locals"]):
        lines.append("  let _%d: %s%s" % (i, ty_str(l["ty"]), "  // " + l["name"] if "name" in l else ""))
    for i, blk in enumerate(b["blocks"]):
        lines.append("  bb%d%s:" % (i, " (cleanup)" if blk["cleanup"] else ""))
        for st in blk["stmts"]:
            if st["s"] == "assign":
                lines.append("    %s = %s%s" % (place_str(st["p"], b), rv_str(st["rv"], b),
                                                 "   // x:" + st["x"] if "x" in st else ""))
            elif st["s"] == "dead":
                pass
            else:
                lines.append("    " + json.dumps(st))
        t = blk["term"]
        lines.append("    %s%s   // %s" % (term_str(t, b), "  x:" + t["x"] if "x" in t else "",
                                            t.get("sp", "").rsplit("/", 1)[-1]))
    s = "\n".join(lines)
    if out:
        out.write(s + "\n")
    return s


# ------------------------------------------------------------------ crate / body wrappers

# The private helpers of the terminal client are anchors of several rules.  A private function may be renamed freely; what
# makes it the helper the rules mean is its role - which exchange it runs:
FEIG_ROLES = {
    "get_system_info": ("seq", "zvt::feig::sequences::GetSystemInfo"),
    "set_terminal_id": ("seq", "zvt::sequences::SetTerminalId"),
    "initialize": ("seq", "zvt::sequences::Initialization"),
    "get_pending": ("seq", "zvt::sequences::PartialReversal"),
    "end_of_day": ("seq", "zvt::sequences::EndOfDay"),
    "cancel_transaction_by_receipt_no": ("seq", "zvt::sequences::PreAuthReversal"),
    "cancel_pending": ("clear", None),
}


def canonical_private_names(data):
    """{actual name: canonical name} for private async methods of Feig that play the role of a pinned helper under
    another name (only when the pinned name is absent and exactly one private method has the role)."""
    pre = "zvt_feig_terminal::feig::Feig::"
    outer = {b["id"][len(pre):]: b for b in data["bodies"] if b["id"].startswith(pre) and "::" not in b["id"][len(pre):]}
    have = {}
    for b in data["bodies"]:
        if not (b["id"].startswith(pre) and b["id"].endswith("::{closure#0}") and b["id"].count("::{closure") == 1):
            continue
        name = b["id"][len(pre):-len("::{closure#0}")]
        ob = outer.get(name)
        if ob is None or ob.get("vis", "Public") == "Public":
            continue
        for blk in b["blocks"]:
            t = blk["term"]
            if t["t"] != "call":
                continue
            n = (t.get("f") or {}).get("n", "")
            if "ResetSequence::into_stream" in n and (t["f"].get("a") or []):
                have.setdefault(("seq", ty_str(t["f"]["a"][0])), set()).add(name)
            if n.endswith("HashMap::<K, V, S, A>::clear"):
                have.setdefault(("clear", None), set()).add(name)
    ren = {}
    for canon, role in FEIG_ROLES.items():
        if canon in outer:
            continue
        cands = have.get(role, set()) - set(FEIG_ROLES)
        if len(cands) == 1:
            ren[next(iter(cands))] = canon
    return ren


FEIG_FIELD_ROLES = {
    "zvt_feig_terminal::feig::Feig": {
        "transactions": lambda t: t.startswith("std::collections::hash::map::HashMap<alloc::string::String, usize"),
        "socket": lambda t: t == "zvt_feig_terminal::stream::TcpStream",
        "transactions_max_num": lambda t: t == "usize",
    },
    "zvt_feig_terminal::stream::TcpStream": {
        "inner": lambda t: t.startswith("core::option::Option<zvt::io::PacketTransport<"),
        "config": lambda t: t == "zvt_feig_terminal::config::Config",
    },
}


def canonical_private_fields(data):
    """{actual field name: canonical name} for the private fields of the client structs, recognised by their type (only
    when the pinned name is absent, the field is private, exactly one field has the type, and the new name is not used
    by any other local / field of the crate's facts)."""
    ren = {}
    for a in data.get("adts", []):
        roles = FEIG_FIELD_ROLES.get(a["n"])
        if not roles or not a.get("variants"):
            continue
        flds = a["variants"][0]["fields"]
        names = {f["name"] for f in flds}
        for canon, pred in roles.items():
            if canon in names:
                continue
            cands = [f["name"] for f in flds if f.get("vis") != "Public" and pred(ty_str(f.get("ty")) or "")]
            if len(cands) == 1 and cands[0] not in ren:
                ren[cands[0]] = canon
    if ren:
        text = json.dumps(data)
        for actual in list(ren):
            # the name must denote that field only (not also a local variable or another struct's field)
            n_field = text.count('"n": %s' % json.dumps(actual))
            n_local = text.count('"name": %s' % json.dumps(actual))
            if n_local > 1:          # (1 = the field's own declaration in the adt table)
                del ren[actual]
    return ren


def _rename_paths(text, ren):
    import re as _re
    for actual, canon in ren.items():
        text = _re.sub(r"(zvt_feig_terminal::feig::Feig::)%s(?![A-Za-z0-9_])" % _re.escape(actual), r"\g<1>" + canon, text)
        text = _re.sub(r"(zvt_feig_terminal::feig::<impl zvt_feig_terminal::feig::Feig>::)%s(?![A-Za-z0-9_])" % _re.escape(actual),
                       r"\g<1>" + canon, text)
    return text


class Crate:
    def __init__(self, data, lower=False):
        self.data = data
        self.name = data["crate"]
        self.bodies = {}
        if data.get("crate") == "zvt_feig_terminal" and not data.get("_roles"):
            data["_roles"] = canonical_private_names(data)
            fields = canonical_private_fields(data)
            if data["_roles"] or fields:
                text = _rename_paths(json.dumps(data), data["_roles"])
                for actual, canon in fields.items():
                    text = text.replace('"n": %s' % json.dumps(actual), '"n": %s' % json.dumps(canon)) \
                               .replace('"name": %s' % json.dumps(actual), '"name": %s' % json.dumps(canon))
                data["_roles"] = dict(data["_roles"], **{"." + k_: "." + v_ for k_, v_ in fields.items()})
                fresh = json.loads(text)
                roles = data["_roles"]
                data.clear()
                data.update(fresh)
                data["_roles"] = roles
        if data.get("crate") == "zvt" and not data.get("_roles"):
            # `convert_dir` (the directory scan of the firmware upload) is a private function: known by what it returns
            cd = "zvt::feig::sequences::convert_dir"
            roles = {}
            if not any(b_["id"] == cd for b_ in data["bodies"]):
                cands = [b_["id"] for b_ in data["bodies"] if b_["id"].startswith("zvt::feig::sequences::") and
                         b_.get("defkind") == "Fn" and "::" not in b_["id"][len("zvt::feig::sequences::"):] and
                         ty_str((b_.get("locals") or [{}])[0].get("ty")).startswith("core::result::Result<std::collections::hash::map::HashMap<u8, alloc::string::String")]
                if len(cands) == 1:
                    roles[cands[0]] = cd
            data["_roles"] = roles or {"-": "-"}
            if roles:
                import re as _re
                text = json.dumps(data)
                for actual, canon in roles.items():
                    text = _re.sub(_re.escape(actual) + r"(?![A-Za-z0-9_])", canon, text)
                fresh = json.loads(text)
                data.clear()
                data.update(fresh)
                data["_roles"] = roles
        if os.environ.get("ZVT_SCRAMBLE") and not data.get("_scrambled"):
            # self-test aid: every user-chosen local / parameter / captured-variable name is changed (what a renaming
            # refactoring does).  No verdict may depend on such a name; `self` cannot be renamed in Rust and stays.
            for b_ in data["bodies"]:
                for l_ in b_.get("locals", []):
                    if l_.get("name") and l_["name"] != "self":
                        l_["name"] = l_["name"] + "_q"
                for u_ in b_.get("upvars", []):
                    if u_.get("name") and u_["name"] != "self":
                        u_["name"] = u_["name"] + "_q"
            data["_scrambled"] = True
        # private helper functions are spliced into their callers before any analysis (see inline.py)
        import inline
        if not data.get("_inlined"):
            self.specialised = inline.specialise_sequence_helpers(data["bodies"]) if data.get("crate") == "zvt" else {}
            self.inlined = inline.inline_crate(data["bodies"])
            self.inlined_async = inline.inline_async(data["bodies"])
        else:
            self.inlined, self.inlined_async = {}, {}
        data["_inlined"] = True
        # second representation: Option/Result/bool combinators rewritten into switches (inline.py)
        self.lowered = {}
        if lower and not data.get("_lowered"):
            self.lowered = inline.lower_combinators(data["bodies"], data.get("adts"))
            # (`.map(helper)` has become a plain call of the private helper: splice it like any other)
            inline.inline_crate(data["bodies"])
            self.threaded = inline.thread_known_switches(data["bodies"])
            data["_lowered"] = True
        self.absorbed = {}
        for b in data["bodies"]:
            if b.get("absorbed"):
                self.absorbed[b["id"]] = Body(b, self)      # helper fully inlined into its callers
                continue
            self.bodies[b["id"]] = Body(b, self)
        self.adts = {a["n"]: a for a in data["adts"]}
        self.impls = data["impls"]

    def find(self, pred):
        return [b for b in self.bodies.values() if pred(b)]

    def body(self, id_):
        return self.bodies.get(id_)


def is_test_body(b):
    """Bodies that only exist for unit tests (cfg(test) modules are absent in lib builds;
    this is for --tests builds)."""
    i = b.id
    return "::test::" in i or "::tests::" in i


class Body:
    def __init__(self, raw, crate=None):
        self.raw = raw
        self.crate = crate
        self.id = raw["id"]
        self.blocks = raw["blocks"]
        self.locals = raw["locals"]
        self.n = len(self.blocks)
        self._succ = None
        self._pred = None
        self._dom = None
        self._defs = None

    # ---- names
    def local_name(self, l):
        return self.locals[l].get("name")

    def local_ty(self, l):
        return self.locals[l]["ty"]

    def locals_named(self, name):
        return [i for i, l in enumerate(self.locals) if l.get("name") == name]

    def sp(self):
        return self.raw.get("sp")

    # ---- CFG (unwind edges excluded unless asked)
    def succs_of(self, i, unwind=False, imaginary=False):
        t = self.blocks[i]["term"]
        k = t["t"]
        out = []
        if k in ("goto", "drop", "assert", "falseunwind"):
            out.append(t["to"])
        elif k == "falseedge":
            out.append(t["to"])
            if imaginary:
                out.append(t["imag"])
        elif k == "switch":
            out.extend(b for _, b in t["targets"])
            out.append(t["else"])
        elif k == "call":
            if t["to"] is not None:
                out.append(t["to"])
        elif k == "yield":
            out.append(t["resume"])
            if unwind and t.get("drop") is not None:
                out.append(t["drop"])
        if unwind and t.get("unwind") is not None and k != "yield":
            out.append(t["unwind"])
        # dedupe preserving order
        seen = []
        for x in out:
            if x not in seen:
                seen.append(x)
        return seen

    @property
    def succ(self):
        if self._succ is None:
            self._succ = [self.succs_of(i) for i in range(self.n)]
        return self._succ

    @property
    def pred(self):
        if self._pred is None:
            p = [[] for _ in range(self.n)]
            for i, ss in enumerate(self.succ):
                for s in ss:
                    p[s].append(i)
            self._pred = p
        return self._pred

    def reachable(self, start=0, removed=(), succ=None):
        succ = succ or self.succ
        removed = set(removed)
        seen = set()
        if start in removed:
            return seen
        st = [start]
        while st:
            x = st.pop()
            if x in seen:
                continue
            seen.add(x)
            for s in succ[x]:
                if s not in seen and s not in removed:
                    st.append(s)
        return seen

    def reach_from_succs(self, start, removed=()):
        """Blocks reachable from the successors of `start` (not counting `start` itself
        unless it lies on a cycle)."""
        out = set()
        for s in self.succ[start]:
            out |= self.reachable(s, removed)
        return out

    @property
    def dom(self):
        """dom[b] = set of blocks dominating b (over the normal-flow CFG from bb0)."""
        if self._dom is None:
            reach = self.reachable(0)
            order = self.rpo()
            allb = set(reach)
            dom = {b: set(allb) for b in reach}
            dom[0] = {0}
            changed = True
            while changed:
                changed = False
                for b in order:
                    if b == 0:
                        continue
                    ps = [p for p in self.pred[b] if p in reach]
                    if not ps:
                        continue
                    new = set.intersection(*(dom[p] for p in ps)) | {b}
                    if new != dom[b]:
                        dom[b] = new
                        changed = True
            self._dom = dom
        return self._dom

    def dominates(self, a, b):
        return b in self.dom and a in self.dom[b]

    def rpo(self):
        seen = set()
        order = []

        def dfs(x):
            stack = [(x, iter(self.succ[x]))]
            seen.add(x)
            while stack:
                node, it = stack[-1]
                adv = False
                for s in it:
                    if s not in seen:
                        seen.add(s)
                        stack.append((s, iter(self.succ[s])))
                        adv = True
                        break
                if not adv:
                    order.append(node)
                    stack.pop()
        dfs(0)
        order.reverse()
        return order

    def back_edges(self):
        out = []
        for b in self.reachable(0):
            for s in self.succ[b]:
                if self.dominates(s, b):
                    out.append((b, s))
        return out

    def natural_loops(self):
        """header -> set of blocks"""
        loops = {}
        for (t, h) in self.back_edges():
            body = {h}
            st = [t]
            while st:
                x = st.pop()
                if x in body:
                    continue
                body.add(x)
                st.extend(p for p in self.pred[x] if p in self.dom)
            loops.setdefault(h, set()).update(body)
        return loops

    # ---- statements
    def calls(self):
        """Yield (bb, term) for call terminators reachable in normal flow."""
        reach = self.reachable(0)
        for i in sorted(reach):
            t = self.blocks[i]["term"]
            if t["t"] == "call":
                yield i, t

    def all_calls(self):
        for i, blk in enumerate(self.blocks):
            t = blk["term"]
            if t["t"] == "call":
                yield i, t

    @property
    def defs(self):
        """local -> list of (bb, stmt_index or 'term', kind, payload) for whole-local writes
        and projections writes."""
        if self._defs is None:
            d = defaultdict(list)
            for i, blk in enumerate(self.blocks):
                for j, st in enumerate(blk["stmts"]):
                    if st["s"] == "assign":
                        d[st["p"]["l"]].append((i, j, "assign", st))
                t = blk["term"]
                if t["t"] == "call":
                    d[t["dest"]["l"]].append((i, "term", "call", t))
                elif t["t"] == "yield":
                    d[t["resume_arg"]["l"]].append((i, "term", "yield", t))
            self._defs = d
        return self._defs


def callee(t):
    """Name of the (unresolved) callee of a call terminator, '' for indirect calls."""
    f = t.get("f")
    return f["n"] if f else ""


def callee_res(t):
    f = t.get("f")
    if not f:
        return ""
    r = f.get("res")
    return r["n"] if r else f["n"]


def op_place(o):
    if "c" in o:
        return o["c"]
    if "m" in o:
        return o["m"]
    return None


def op_local(o):
    """Local index if the operand is a bare local (copy/move without projection)."""
    p = op_place(o)
    if p is not None and not p["p"]:
        return p["l"]
    return None


def op_const(o):
    return o.get("k")


def op_int(o):
    k = o.get("k")
    if k is not None and "v" in k:
        return k["v"]
    return None


def load_crate(path):
    with open(path) as fh:
        return Crate(json.load(fh))


# ---------------------------------------------------------------- integer widening through From/Into
_INT_BITS = {"u8": 8, "u16": 16, "u32": 32, "u64": 64, "u128": 128, "usize": 64,
             "i8": 8, "i16": 16, "i32": 32, "i64": 64, "i128": 128, "isize": 64}


def widening_conversion(term):
    """If the call terminator is `<T as From<U>>::from(x)` / `<U as Into<T>>::into(x)` between primitive
    integer types (std only implements these when the conversion is lossless), return (T, U) as type
    strings - the call is then equivalent to `x as T`.  Otherwise None."""
    n = callee(term)
    a = [ty_str(x) for x in (term.get("f") or {}).get("a", [])]
    if n == "core::convert::From::from" and len(a) >= 2:
        to, frm = a[0], a[1]
    elif n == "core::convert::Into::into" and len(a) >= 2:
        frm, to = a[0], a[1]
    else:
        return None
    if to in _INT_BITS and frm in _INT_BITS and len(term.get("args", [])) == 1:
        return to, frm
    return None


# ---------------------------------------------------------------- reachability that sees through bool temporaries
def _const_bool(o):
    k = o.get("k") if isinstance(o, dict) else None
    if k and (k.get("ty") or {}).get("n") == "bool" and isinstance(k.get("v"), int):
        return bool(k["v"])
    return None


def bool_locals_of(body):
    bl = getattr(body, "_bool_locals", None)
    if bl is None:
        bl = {l for l, loc in enumerate(body.locals) if ty_str(loc["ty"]) == "bool"}
        body._bool_locals = bl
    return bl


_TRY_BRANCH = "core::ops::try_trait::Try::branch"


_CMP = {"Eq": lambda a, b: a == b, "Ne": lambda a, b: a != b, "Lt": lambda a, b: a < b, "Le": lambda a, b: a <= b,
        "Gt": lambda a, b: a > b, "Ge": lambda a, b: a >= b}
_ARITH = {"BitAnd": lambda a, b: a & b, "BitOr": lambda a, b: a | b, "BitXor": lambda a, b: a ^ b,
          "Shr": lambda a, b: a >> b, "Shl": lambda a, b: a << b, "Add": lambda a, b: a + b, "Sub": lambda a, b: a - b,
          "Mul": lambda a, b: a * b}
_WIDTH = {"u8": 8, "u16": 16, "u32": 32, "u64": 64, "usize": 64, "u128": 128}


def _byte_place(o):
    """(local, index) if the operand reads element `index` (constant, from the front) of the slice/array behind
    `local`: `(*data)[2 of 3]` - how slice patterns and array patterns name input bytes."""
    p = op_place(o) if isinstance(o, dict) else None
    if p is None:
        return None
    pj = [e for e in p["p"] if e != "deref"]
    if len(pj) == 1 and isinstance(pj[0], dict) and "cidx" in pj[0] and not pj[0].get("from_end"):
        return (p["l"], pj[0]["cidx"])
    return None


def _deref_local(o):
    """local l if the operand reads `*l` (nothing but derefs): the value behind a reference.  A reference local is
    only ever "known" through a pin (the rule says: this reference points at the byte under case analysis)."""
    p = op_place(o) if isinstance(o, dict) else None
    if p is not None and p["p"] and all(e == "deref" for e in p["p"]):
        return p["l"]
    return None


def _known_operand(o, known):
    """("i", n) / ("b", x) value of an operand if it is a constant, a local with known value, or a pinned input
    byte (key ("byte", local, index) in `known`)."""
    k = o.get("k") if isinstance(o, dict) else None
    if k is not None and isinstance(k.get("v"), int):
        tn = (k.get("ty") or {}).get("n")
        return ("b", bool(k["v"])) if tn == "bool" else ("i", k["v"])
    l = op_local(o)
    if l is not None:
        return known.get(l)
    bp = _byte_place(o)
    if bp is not None:
        return known.get(("byte",) + bp)
    dl = _deref_local(o)
    if dl is not None and known.get(dl, ("?",))[0] == "i":
        return known[dl]
    return None


def bool_transfer(body, bb, known, pins=None):
    """Path-sensitive knowledge about *small constants* after the statements and the call of block bb.
    known: local -> ("b", bool) | ("i", int) | ("v", variant index).  Tracked:
      x = const bool/int, x = copy/move y, x = !y, x = Variant(..) (aggregate), x = discriminant(y),
      x = Try::branch(y) for Result / Option (Ok|Some -> Continue, Err|None -> Break);
    any other whole-local write forgets x; a write through a projection of x forgets x.
    This is what makes `matches!(..)`, `let flag = ..; if flag`, and a helper returning `Err(..)` followed by
    `?` in the caller equivalent to branching on the original test."""
    known = dict(known)
    blk = body.blocks[bb]
    for s in blk["stmts"]:
        if s["s"] == "setdiscr":
            known.pop(s["p"]["l"], None)
            continue
        if s["s"] != "assign":
            continue
        dl = s["p"]["l"]
        if s["p"]["p"]:
            known.pop(dl, None)
            continue
        rv = s["rv"]
        val = None
        pay = None                      # known value of the single payload of an enum value being built / moved
        r = rv["r"]
        if r == "use":
            o = rv["o"]
            k = o.get("k") if isinstance(o, dict) else None
            if k is not None and isinstance(k.get("v"), int):
                tn = (k.get("ty") or {}).get("n")
                val = ("b", bool(k["v"])) if tn == "bool" else ("i", k["v"])
            else:
                src = op_local(o)
                if src is not None and src in known:
                    val = known[src]
                    pay = known.get((src, "payload"))
                elif src is None and _byte_place(o) is not None and ("byte",) + _byte_place(o) in known:
                    val = known[("byte",) + _byte_place(o)]
                elif src is None and _deref_local(o) is not None and known.get(_deref_local(o), ("?",))[0] == "i":
                    val = known[_deref_local(o)]
                elif src is None:
                    # `x = move (y as Variant).0`: the payload of a value built on this path
                    pl = op_place(o)
                    if pl is not None:
                        pj = [e for e in pl["p"] if e != "deref"]
                        if len(pj) == 2 and isinstance(pj[0], dict) and "dc" in pj[0] and isinstance(pj[1], dict) and pj[1].get("f") == 0 \
                                and known.get(pl["l"], ("?",))[0] == "v" and known[pl["l"]][1] == pj[0]["dc"]:
                            val = known.get((pl["l"], "payload"))
                            if val is not None and val[0] == "vp":
                                val, pay = val[1], val[2]
        elif r == "un" and rv.get("op") == "Not":
            src = op_local(rv["a"])
            if src is not None and known.get(src, ("?",))[0] == "b":
                val = ("b", not known[src][1])
        elif r == "un" and rv.get("op") == "PtrMetadata":
            # length of a slice whose length is pinned for a case split (key ("len", local))
            p_ = op_place(rv["a"])
            if p_ is not None and not [e for e in p_["p"] if e != "deref"] and ("len", p_["l"]) in known:
                val = known[("len", p_["l"])]
        elif r == "agg" and rv.get("kind") == "adt" and isinstance(rv.get("variant"), int):
            val = ("v", rv["variant"])
            if len(rv.get("ops", [])) == 1:
                src = op_local(rv["ops"][0])
                if src is not None and src in known:
                    inner = known[src]
                    pay = ("vp", inner, known.get((src, "payload"))) if inner[0] == "v" else inner
        elif r == "discr":
            p = rv["p"]
            if not [e for e in p["p"] if e != "deref"] and known.get(p["l"], ("?",))[0] == "v":
                val = ("i", known[p["l"]][1])
        elif r == "bin":
            a, b_ = _known_operand(rv["a"], known), _known_operand(rv["b"], known)
            op = rv["op"]
            if a is not None and b_ is not None and a[0] in ("i", "b") and b_[0] in ("i", "b"):
                x, y = int(a[1]), int(b_[1])
                if op in _CMP:
                    val = ("b", _CMP[op](x, y))
                elif op in _ARITH and not (op in ("Shr", "Shl") and y > 127):
                    res = _ARITH[op](x, y)
                    w = _WIDTH.get(ty_str(rv.get("ty")))
                    if a[0] == "b" and b_[0] == "b" and op in ("BitAnd", "BitOr", "BitXor"):
                        val = ("b", bool(res))
                    elif w is not None and 0 <= res < (1 << w):
                        val = ("i", res)
        elif r == "cast" and rv.get("kind") == "IntToInt":
            a = _known_operand(rv["o"], known)
            w = _WIDTH.get(ty_str(rv.get("ty")))
            if a is not None and a[0] in ("i", "b") and w is not None and int(a[1]) >= 0:
                val = ("i", int(a[1]) & ((1 << w) - 1))
        if pins and dl in pins:
            val = pins[dl]
        if val is None:
            known.pop(dl, None)
            known.pop((dl, "payload"), None)
        else:
            known[dl] = val
            if pay is not None:
                known[(dl, "payload")] = pay
            else:
                known.pop((dl, "payload"), None)
    t = blk["term"]
    if t["t"] == "call" and not t["dest"]["p"]:
        dl = t["dest"]["l"]
        known.pop((dl, "payload"), None)
        val = None
        if callee(t) == _TRY_BRANCH and len(t["args"]) == 1:
            src = op_local(t["args"][0])
            a0 = ((t.get("f") or {}).get("a") or [None])[0]
            tn = a0.get("n") if isinstance(a0, dict) else None
            if src is not None and known.get(src, ("?",))[0] == "v":
                vi = known[src][1]
                if tn == "core::result::Result":
                    val = ("v", vi)                 # Ok(0) -> Continue(0), Err(1) -> Break(1)
                elif tn == "core::option::Option":
                    val = ("v", 1 - vi)             # None(0) -> Break(1), Some(1) -> Continue(0)
        elif callee(t).startswith("core::slice::<impl [T]>::") and callee(t).rsplit("::", 1)[-1] in (
                "first", "last", "split_first", "split_last", "get", "first_chunk", "split_first_chunk") and t["args"]:
            # Some / None of a slice accessor when the slice's length is pinned for a case split
            a_ = op_local(t["args"][0])
            tgt = None
            for s_ in reversed(blk["stmts"]):
                if s_.get("s") == "assign" and s_["p"]["l"] == a_ and not s_["p"]["p"]:
                    rv_ = s_["rv"]
                    if rv_["r"] == "ref" and all(e_ == "deref" for e_ in rv_["p"]["p"]):
                        tgt = rv_["p"]["l"]
                    break
            if tgt is None and a_ is not None and ("len", a_) in known:
                tgt = a_
            if tgt is not None and ("len", tgt) in known:
                n_ = known[("len", tgt)][1]
                m_ = callee(t).rsplit("::", 1)[-1]
                need = None
                if m_ in ("first", "last", "split_first", "split_last"):
                    need = 1
                elif m_ == "get" and len(t["args"]) == 2:
                    kv = _known_operand(t["args"][1], known)
                    if kv is not None and kv[0] == "i":
                        need = kv[1] + 1
                    else:
                        # `get(a..b)` with constant bounds (the range is built in this block): Some exactly when len >= b
                        r_ = op_local(t["args"][1])
                        for s_ in reversed(blk["stmts"]):
                            if s_.get("s") == "assign" and s_["p"]["l"] == r_ and not s_["p"]["p"] and s_["rv"].get("r") == "agg":
                                cs_ = [o_.get("k", {}).get("v") if isinstance(o_, dict) else None for o_ in s_["rv"].get("ops", [])]
                                rn_ = str(s_["rv"].get("n", ""))
                                if all(isinstance(c_, int) for c_ in cs_) and cs_:
                                    if rn_.endswith("range::Range") and len(cs_) == 2 and cs_[0] <= cs_[1]:
                                        need = cs_[1]
                                    elif rn_.endswith("range::RangeTo") and len(cs_) == 1:
                                        need = cs_[0]
                                    elif rn_.endswith("range::RangeFrom") and len(cs_) == 1:
                                        need = cs_[0]
                                break
                elif m_ in ("first_chunk", "split_first_chunk"):
                    cs = [str(x_.get("v", x_.get("s", ""))) if isinstance(x_, dict) else str(x_) for x_ in (t.get("f") or {}).get("a", [])]
                    ds_ = [int(c_) for c_ in cs if c_.isdigit()]
                    need = ds_[0] if len(ds_) == 1 else None
                if need is not None:
                    val = ("v", 1 if n_ >= need else 0)
        elif callee(t) in ("core::option::Option::<&T>::copied", "core::option::Option::<&T>::cloned",
                           "core::option::Option::<&mut T>::copied", "core::option::Option::<&mut T>::cloned") and len(t["args"]) == 1:
            # the same variant as the option it copies
            src = op_local(t["args"][0])
            if src is not None and known.get(src, ("?",))[0] == "v":
                val = known[src]
        elif callee(t) in ("core::slice::<impl [T]>::len", "core::slice::<impl [T]>::is_empty") and len(t["args"]) == 1:
            # length of a slice whose length is pinned for a case split: the argument is `&*s` built in this block
            a_ = op_local(t["args"][0])
            tgt = None
            for s_ in reversed(blk["stmts"]):
                if s_.get("s") == "assign" and s_["p"]["l"] == a_ and not s_["p"]["p"]:
                    rv_ = s_["rv"]
                    if rv_["r"] == "ref" and all(e_ == "deref" for e_ in rv_["p"]["p"]):
                        tgt = rv_["p"]["l"]
                    break
            if tgt is None and a_ is not None and ("len", a_) in known:
                tgt = a_
            if tgt is not None and ("len", tgt) in known:
                n_ = known[("len", tgt)][1]
                val = ("i", n_) if callee(t).endswith("::len") else ("b", n_ == 0)
        elif callee(t).endswith("FromResidual::from_residual"):
            # `?` failing: the function's own Result/Option is rebuilt from the residual - always Err / None
            a0 = ((t.get("f") or {}).get("a") or [None])[0]
            tn = a0.get("n") if isinstance(a0, dict) else None
            if tn == "core::result::Result":
                val = ("v", 1)
            elif tn == "core::option::Option":
                val = ("v", 0)
        if pins and dl in pins:
            val = pins[dl]
        if val is None:
            known.pop(dl, None)
        else:
            known[dl] = val
    return known


def is_error_propagation(body, st):
    """`Err(e)` where e is the Err payload of another Result (`Err(e) => return Err(e)`, possibly through `e.into()`):
    handing a callee's error on, not refusing something on one's own."""
    rv = st.get("rv") or {}
    if not (rv.get("r") == "agg" and rv.get("vname") == "Err" and len(rv.get("ops", [])) == 1):
        return False
    if st.get("rewrap"):
        return True
    seen = 0
    o = rv["ops"][0]
    while seen < 6:
        seen += 1
        p = op_place(o)
        if p is None:
            return False
        pj = [e for e in p["p"] if e != "deref"]
        if len(pj) == 2 and isinstance(pj[0], dict) and pj[0].get("n") in ("Err", "Break") and isinstance(pj[1], dict) and pj[1].get("f") == 0:
            return True
        if pj:
            return False
        ds = body.defs.get(p["l"], [])
        if len(ds) != 1:
            return False
        d = ds[0]
        if d[2] == "assign" and d[3]["rv"]["r"] == "use":
            o = d[3]["rv"]["o"]
            continue
        if d[2] == "call" and callee(d[3]) in ("core::convert::From::from", "core::convert::Into::into") and d[3]["args"]:
            o = d[3]["args"][0]
            continue
        return False
    return False


def bool_switch_target(body, bb, known):
    """If block bb ends in a switch on a local whose constant value is known: the only feasible successor."""
    t = body.blocks[bb]["term"]
    if t["t"] != "switch":
        return None
    l = op_local(t["d"])
    if l is None:
        bp = _byte_place(t["d"])
        l = ("byte",) + bp if bp is not None else None
        if l is None and _deref_local(t["d"]) is not None and known.get(_deref_local(t["d"]), ("?",))[0] == "i":
            l = _deref_local(t["d"])
    if l is None or l not in known:
        return None
    k = known[l]
    if k[0] == "b":
        want = 1 if k[1] else 0
    elif k[0] == "i":
        want = k[1]
    else:
        return None
    for v, tb in t["targets"]:
        if v == want:
            return tb
    return t["else"]


def feasible_reach(body, start=0, cut_edges=(), cut_blocks=(), init=None, pins=None):
    """Blocks reachable from `start` when edges in cut_edges / blocks in cut_blocks are removed, following a
    switch on a local only along the edge its (path-sensitively tracked) constant value allows.
    `pins` = {local: ("i", n)}: assume these locals hold the given value whenever they are assigned - the
    analysis "for the key byte = n" (a finite case split over a scalar that is only compared with constants).
    This makes `matches!(v, A | B)` / `let flag = ..; if flag` equivalent to branching on the original test."""
    cut_edges = set(cut_edges)
    cut_blocks = set(cut_blocks)
    relevant = getattr(body, "_switch_relevant", None)
    if relevant is None:
        relevant = switch_relevant_locals(body)
        body._switch_relevant = relevant
    init = dict(init or {})
    if pins:
        relevant = relevant | {k for k in pins if not isinstance(k, tuple)}
        # pinned input bytes (("byte", local, index) keys) hold from the start
        init.update({k: v for k, v in pins.items() if isinstance(k, tuple) and k[0] in ("byte", "len")})
    s0 = (start, frozenset(init.items()))     # init: local -> ("b"|"i"|"v", value)
    seen = {s0}
    st = [s0]
    blocks = set()
    while st:
        bb, kn = st.pop()
        if bb in cut_blocks:
            continue
        blocks.add(bb)
        known = prune_known(bool_transfer(body, bb, kn, pins), relevant)
        only = bool_switch_target(body, bb, known)
        succs = [only] if only is not None else list(body.succ[bb])
        k2 = frozenset(known.items())
        for nb in succs:
            if (bb, nb) in cut_edges:
                continue
            ns = (nb, k2)
            if ns not in seen:
                seen.add(ns)
                st.append(ns)
    return blocks


def switch_target(term, value):
    """Successor of a switch terminator for discriminant `value` (a listed target or the fall-through)."""
    for v, tb in term["targets"]:
        if v == value:
            return tb
    return term["else"]


def switch_relevant_locals(body):
    """Locals whose (constant) value can influence which way a switch goes: discriminant operands and, backwards,
    everything they are computed from by the operations bool_transfer understands.  Used to keep product states
    small: knowledge about other locals is irrelevant for feasibility."""
    rel = set()
    for blk in body.blocks:
        t = blk["term"]
        if t["t"] == "switch":
            l = op_local(t["d"])
            if l is not None:
                rel.add(l)
    changed = True
    while changed:
        changed = False
        for blk in body.blocks:
            for s in blk["stmts"]:
                if s.get("s") != "assign" or s["p"]["p"] or s["p"]["l"] not in rel:
                    continue
                rv = s["rv"]
                srcs = []
                r = rv["r"]
                if r == "use":
                    p = op_place(rv["o"])
                    if p is not None:
                        srcs.append(p["l"])
                elif r in ("un", "cast"):
                    p = op_place(rv.get("a") or rv.get("o"))
                    if p is not None:
                        srcs.append(p["l"])
                elif r == "bin":
                    for o in (rv["a"], rv["b"]):
                        p = op_place(o)
                        if p is not None:
                            srcs.append(p["l"])
                elif r == "discr":
                    srcs.append(rv["p"]["l"])
                elif r == "agg":
                    for o in rv.get("ops", []):
                        p = op_place(o)
                        if p is not None:
                            srcs.append(p["l"])
                for l in srcs:
                    if l not in rel:
                        rel.add(l)
                        changed = True
            t = blk["term"]
            if t["t"] == "call" and not t["dest"]["p"] and t["dest"]["l"] in rel and \
                    (callee(t) == _TRY_BRANCH or callee(t).endswith("FromResidual::from_residual") or
                     callee(t).endswith(("Option::<&T>::copied", "Option::<&T>::cloned", "Option::<&mut T>::copied", "Option::<&mut T>::cloned"))):
                for a in t["args"]:
                    p = op_place(a)
                    if p is not None and p["l"] not in rel:
                        rel.add(p["l"])
                        changed = True
    return rel


def prune_known(known, relevant):
    return {k: v for k, v in known.items()
            if (isinstance(k, tuple) and k[0] in ("byte", "len")) or (k[0] if isinstance(k, tuple) else k) in relevant}
