"""Obligation bookkeeping, known-findings handling, evidence writing."""
import json
import os
import time

VERIF = os.path.dirname(os.path.dirname(os.path.abspath(__file__)))
KNOWN = os.path.join(VERIF, "known_findings.json")


class Check:
    def __init__(self, pid, tier, seed, explanation, rule_text):
        self.pid = pid
        self.tier = tier
        self.seed = seed
        self.explanation = explanation
        self.rule_text = rule_text
        self.t0 = time.time()
        self.obligations = []      # dicts: rule, instance, ok, nontrivial, site, detail
        self.violations = []       # dicts: key, rule, instance, message, site, path
        self.analysed = {}
        self.notes = []
        self.trusted = []
        self.assumptions = []
        self.floors = []           # (name, counted, floor)
        self.level = "other"
        self.coverage_extra = {}

    # -- recording
    def ok(self, rule, instance, detail="", site=None, nontrivial=True):
        self.obligations.append(dict(rule=rule, instance=instance, ok=True,
                                     nontrivial=nontrivial, site=site, detail=detail))

    def fail(self, rule, instance, message, site=None, path=None, key=None):
        """Record an undischarged obligation = a violation.  `key` must not contain line
        numbers; default key is rule|instance."""
        key = key or "%s|%s" % (rule, instance)
        self.obligations.append(dict(rule=rule, instance=instance, ok=False, nontrivial=True,
                                     site=site, detail=message))
        self.violations.append(dict(key=key, rule=rule, instance=instance, message=message,
                                    site=site, path=path))

    def require(self, cond, rule, instance, message_fail, detail_ok="", site=None, path=None,
                key=None, nontrivial=True):
        if cond:
            self.ok(rule, instance, detail_ok, site, nontrivial)
        else:
            self.fail(rule, instance, message_fail, site, path, key)
        return cond

    def floor(self, name, counted, floor):
        """Fail closed when an instance count drops below what was confirmed by hand."""
        self.floors.append((name, counted, floor))
        if counted < floor:
            self.fail("floor", name, "only %d instance(s) of `%s` found, floor is %d "
                      "(anchor missing or extractor no longer matches)" % (counted, name, floor))

    def note(self, s):
        self.notes.append(s)

    # -- finishing
    def finish(self):
        known = {"findings": [], "fixed": []}
        if os.path.exists(KNOWN):
            with open(KNOWN) as fh:
                known = json.load(fh)
        known_keys = {(f["property"], f["key"]): f for f in known.get("findings", [])}
        new = []
        printed = set()
        for v in self.violations:
            kf = known_keys.get((self.pid, v["key"]))
            if kf is not None:
                if v["key"] not in printed:
                    print("KNOWN-FINDING: property=%s %s [%s]" % (self.pid, kf["what"], v["key"]))
                    printed.add(v["key"])
            else:
                new.append(v)
        # (selftest / seed-matrix runs against a scratch tree redirect their evidence)
        evdir = os.environ.get("ZVT_EVIDENCE_DIR") or os.path.join(VERIF, "evidence")
        os.makedirs(evdir, exist_ok=True)
        # remove stale violation files of this property
        for f in os.listdir(evdir):
            if f.startswith(self.pid + ".violation-"):
                os.remove(os.path.join(evdir, f))
        for i, v in enumerate(new):
            path = os.path.join(evdir, "%s.violation-%d.json" % (self.pid, i))
            with open(path, "w") as fh:
                json.dump(v, fh, indent=1, default=str)
            print("--- %s violation %d" % (self.pid, i))
            print("  rule     : %s" % v["rule"])
            print("  instance : %s" % v["instance"])
            print("  site     : %s" % v["site"])
            print("  message  : %s" % v["message"])
            if v.get("path"):
                print("  path     : %s" % v["path"])
            print("VIOLATION property=%s replay=%s" % (self.pid, path))
        n_obl = len(self.obligations)
        n_ok = sum(1 for o in self.obligations if o["ok"])
        nontriv = {(o["rule"], o["instance"]) for o in self.obligations if o["nontrivial"]}
        samples = []
        seen_rules = {}
        for o in self.obligations:
            c = seen_rules.get(o["rule"], 0)
            if c < 3:
                samples.append({k: o[k] for k in ("rule", "instance", "ok", "site", "detail")})
                seen_rules[o["rule"]] = c + 1
        per_rule = {}
        for o in self.obligations:
            r = per_rule.setdefault(o["rule"], {"obligations": 0, "discharged": 0})
            r["obligations"] += 1
            r["discharged"] += 1 if o["ok"] else 0
        ev = {
            "property_id": self.pid,
            "tier": self.tier,
            "seed": self.seed,
            "level": self.level,
            "coverage": {
                "explanation": self.explanation,
                "rule": self.rule_text,
                "obligations": n_obl,
                "discharged": n_ok,
                "evaluations": n_obl,
                "distinct_nontrivial": len(nontriv),
                "samples": samples[:60],
                "per_rule": per_rule,
                "analysed": self.analysed,
                "floors": [dict(name=a, counted=b, floor=c) for a, b, c in self.floors],
                "trusted_base": self.trusted,
                "known_findings_printed": sorted(printed),
                "notes": self.notes,
                "exhaustive": True,
            },
            "assumptions": self.assumptions,
            "wall_s": round(time.time() - self.t0, 3),
            "violations": len(new),
        }
        ev["coverage"].update(self.coverage_extra)
        if self.level == "translation_validation":
            ev["coverage"].setdefault("programs", max(1, len(nontriv)))
            ev["coverage"].setdefault("disagreements_checked", len(self.violations))
        if self.level == "model_checking":
            ev["coverage"].setdefault("states", max(1, self.coverage_extra.get("states", n_obl)))
            ev["coverage"].setdefault("transitions", max(1, self.coverage_extra.get("transitions", n_obl)))
            ev["coverage"].setdefault("traces_validated_against_impl", 0)
        if self.level == "proof":
            ev["coverage"].setdefault("checker_cmd", "./check %s --tier %s" % (self.pid, self.tier))
        with open(os.path.join(evdir, "%s.json" % self.pid), "w") as fh:
            json.dump(ev, fh, indent=1, default=str)
        print("%s: %d obligations, %d discharged, %d known finding(s), %d new violation(s) [%s, %.1fs]"
              % (self.pid, n_obl, n_ok, len(printed), len(new), self.tier, time.time() - self.t0))
        for name, counted, fl in self.floors:
            print("   floor %-40s counted=%d floor=%d" % (name, counted, fl))
        return 1 if new else 0


class Sub:
    """View of a Check used to *include* clauses of another property's rule module as necessary
    conditions of this one: obligations whose rule id passes `accept` are recorded under
    `<prefix>/<original rule id>`; everything else (including the other module's floors) is dropped."""

    def __init__(self, chk, prefix, accept, instance_filter=None):
        self.chk = chk
        self.prefix = prefix
        self.accept = accept
        self.instance_filter = instance_filter
        self.pid, self.tier, self.seed = chk.pid, chk.tier, chk.seed
        self.analysed = {}
        self.obligations = []          # local view (some modules take len() of it)
        self.trusted, self.assumptions, self.notes = [], [], []
        self.coverage_extra = {}
        self.level = "other"
        self.count = 0

    def _use(self, rule, instance):
        return self.accept(rule) and (self.instance_filter is None or self.instance_filter(instance))

    def ok(self, rule, instance, detail="", site=None, nontrivial=True):
        self.obligations.append(rule)
        if self._use(rule, instance):
            self.count += 1
            self.chk.ok(self.prefix + "/" + rule, instance, detail, site, nontrivial)

    def fail(self, rule, instance, message, site=None, path=None, key=None):
        self.obligations.append(rule)
        if self._use(rule, instance):
            self.count += 1
            self.chk.fail(self.prefix + "/" + rule, instance, message, site, path,
                          (self.prefix + "/" + key) if key else None)

    def require(self, cond, rule, instance, message_fail, detail_ok="", site=None, path=None, key=None, nontrivial=True):
        if cond:
            self.ok(rule, instance, detail_ok, site, nontrivial)
        else:
            self.fail(rule, instance, message_fail, site, path, key)
        return cond

    def floor(self, name, counted, floor):
        pass

    def note(self, s):
        pass
