"""Contracts K1-K3 (a decoder's remainder is a suffix of its input), verified on every impl,
and loop termination classification for the decode path."""
from mirlite import callee, callee_res, ty_str, op_place
from expr import show, walk, strip_ref
from discharge import (CONTRACTED, INDEX, LEN_CALLS, SPLIT_AT, Lin, canon, len_of, make_prover, split_first_parts, unq)

ITER_FINITE = ("core::ops::range::Range<", "core::slice::iter::Iter<", "core::iter::adapters::rev::Rev<core::ops::range::Range<",
               "std::collections::hash::set::IntoIter<", "alloc::vec::into_iter::IntoIter<", "core::slice::iter::IterMut<",
               "core::iter::adapters::enumerate::Enumerate<core::slice::iter::Iter<", "core::str::iter::Chars",
               "core::iter::adapters::rev::Rev<core::slice::iter::Iter<")


def is_empty_slice(e):
    e = strip_ref(e)
    while e[0] == "cast":
        e = strip_ref(e[1])
    if e[0] == "constbytes" and e[1] == 0:
        return True
    if e[0] == "agg" and e[1] == "array" and not e[2]:
        return True
    if e[0] == "const" and e[1] is None:
        return False
    return False


def suffix_of_param(pr, e, depth=0, visiting=None):
    """Is the slice expression e a suffix of the function's first parameter?"""
    visiting = visiting if visiting is not None else set()
    if depth > 12:
        return False
    e = strip_ref(unq(e))
    while e[0] == "cast" and e[3].startswith("PointerCoercion"):
        e = strip_ref(e[1])
    if is_empty_slice(e):
        return True
    vx = pr.vx
    if e[0] == "path" and e[1] == vx.root_name(1) and not e[2]:
        return True
    if e[0] == "var":
        l = e[2]
        if l in visiting:
            return True
        visiting = visiting | {l}
        ok = True
        if not (1 <= l <= vx.argc and l == 1) and not pr.tr.defs.get(l):
            return False
        if 1 <= l <= vx.argc and l != 1:
            return False
        for d in pr.tr.defs.get(l, []):
            if d[2] == "assign" and not d[3]["p"]["p"]:
                ok = ok and suffix_of_param(pr, vx.rvalue(d[3]["rv"], d[0]), depth + 1, visiting)
            else:
                ok = False
        if l in vx.mw:
            ok = False
        return ok
    if e[0] == "call" and e[1] in INDEX and len(e[2]) == 2:
        rng = strip_ref(e[2][1])
        if rng[0] == "agg" and rng[1].endswith("RangeFrom::RangeFrom"):
            return suffix_of_param(pr, e[2][0], depth + 1, visiting)
        return False
    if e[0] == "proj" and e[1][0] == "call" and e[1][1] in CONTRACTED and tuple(e[2]) == ("@Ok", "0", "1"):
        return suffix_of_param(pr, e[1][2][0], depth + 1, visiting)
    if e[0] == "call" and e[1] in ("core::ops::deref::Deref::deref",):
        return suffix_of_param(pr, e[2][0], depth + 1, visiting)
    # slice pattern `[.., rest @ ..]`: rest = s[k..]
    if e[0] in ("path", "proj") and e[2] and isinstance(e[2][-1], tuple) and e[2][-1][0] == "sub":
        _, frm, to, from_end = e[2][-1]
        if from_end and to == 0:
            base = (e[0], e[1], tuple(e[2][:-1])) + tuple(e[3:])
            return suffix_of_param(pr, base, depth + 1, visiting)
        return False
    # what a slice iterator has not yielded yet is a suffix of the slice it was made from: `it.as_slice()`
    if e[0] == "call" and e[1] in ("core::slice::iter::Iter::<'a, T>::as_slice", "core::slice::iter::IterMut::<'a, T>::as_slice",
                                   "core::slice::iter::IterMut::<'a, T>::into_slice") and e[2]:
        it = strip_ref(e[2][0])
        srcs = []
        if it[0] == "var":
            for d in pr.tr.defs.get(it[2], []):
                if d[2] == "call" and not d[3]["dest"]["p"]:
                    srcs.append(vx._call(d[3], d[0], 0))
                elif d[2] == "assign" and not d[3]["p"]["p"]:
                    srcs.append(vx.rvalue(d[3]["rv"], d[0]))
                else:
                    return False
        else:
            srcs = [it]
        ok = bool(srcs)
        for s_ in srcs:
            s_ = strip_ref(s_)
            while s_[0] == "call" and s_[1].endswith("IntoIterator::into_iter") and s_[2]:
                s_ = strip_ref(s_[2][0])
            if not (s_[0] == "call" and s_[1] in ("core::slice::<impl [T]>::iter", "core::slice::<impl [T]>::iter_mut") and
                    suffix_of_param(pr, s_[2][0], depth + 1, visiting)):
                ok = False
        return ok
    sf = split_first_parts(e)
    if sf is not None and sf[2] == 1:
        return suffix_of_param(pr, sf[0], depth + 1, visiting)
    # s.get(k..) / s.get(..) hands out a suffix (when it is Some)
    if e[0] == "proj" and e[1][0] == "call" and e[1][1].endswith("<impl [T]>::get") and tuple(e[2]) == ("@Some", "0") and len(e[1][2]) == 2:
        rng = strip_ref(e[1][2][1])
        if rng[0] == "agg" and rng[1].endswith("RangeFrom::RangeFrom"):
            return suffix_of_param(pr, e[1][2][0], depth + 1, visiting)
    # the second half of s.split_at(m) is s[m..]
    if e[0] == "proj" and e[1][0] == "call" and e[1][1] in SPLIT_AT and tuple(e[2]) == ("1",):
        return suffix_of_param(pr, e[1][2][0], depth + 1, visiting)
    return False


def ok_remainders(pr):
    """(bb, remainder expr | ('delegate', call expr)) for every Ok return of a decoder body."""
    b, vx = pr.b, pr.vx
    out = []
    # locals whose value is handed to the return place by plain moves (`_0 = move tmp`, e.g. the result of an
    # inlined helper): their definitions are result definitions too
    result_locals = {0}
    changed = True
    while changed:
        changed = False
        for i in sorted(b.reachable(0)):
            for st in b.blocks[i]["stmts"]:
                if st["s"] == "assign" and st["p"]["l"] in result_locals and not st["p"]["p"] and st["rv"]["r"] == "use":
                    p = op_place(st["rv"]["o"])
                    if p is not None and not p["p"] and p["l"] not in result_locals and not (1 <= p["l"] <= vx.argc):
                        result_locals.add(p["l"])
                        changed = True
    for i in sorted(b.reachable(0)):
        for st in b.blocks[i]["stmts"]:
            if st["s"] == "assign" and st["p"]["l"] in result_locals and not st["p"]["p"]:
                if st["rv"]["r"] == "use" and op_place(st["rv"]["o"]) is not None and not op_place(st["rv"]["o"])["p"] and \
                        op_place(st["rv"]["o"])["l"] in result_locals:
                    continue
                e = vx.rvalue(st["rv"], i)
                if e[0] == "agg" and e[1] == "core::result::Result::Ok":
                    v = e[2][0]
                    if v[0] == "agg" and v[1] == "tuple" and len(v[2]) == 2:
                        out.append((i, v[2][1]))
                    elif v[0] == "var" and not (1 <= v[2] <= vx.argc) and v[2] not in vx.mw and \
                            all(d_[2] == "assign" and not d_[3]["p"]["p"] for d_ in pr.tr.defs.get(v[2], [])):
                        # `Ok(pair)` where the pair was chosen on the way (`x.unwrap_or((None, bytes))`): each alternative
                        for d_ in pr.tr.defs.get(v[2], []):
                            e2 = vx.rvalue(d_[3]["rv"], d_[0])
                            if e2[0] == "agg" and e2[1] == "tuple" and len(e2[2]) == 2:
                                out.append((d_[0], e2[2][1]))
                            else:
                                out.append((d_[0], ("?", show(e2)[:80])))
                    else:
                        out.append((i, ("?", show(v)[:80])))
        t = b.blocks[i]["term"]
        if t["t"] == "call" and t["dest"]["l"] in result_locals and not t["dest"]["p"]:
            n = callee(t)
            if n in CONTRACTED:
                out.append((i, ("delegate", vx.operand(t["args"][0], i))))
            elif n.endswith("FromResidual::from_residual"):
                continue
            else:
                out.append((i, ("?", n)))
    return out


def check_suffix_contract(chk, pr, rule, inst):
    b = pr.b
    n = 0
    for bb, r in ok_remainders(pr):
        n += 1
        if r[0] == "delegate":
            ok = suffix_of_param(pr, r[1])
            chk.require(ok, rule, inst, "delegates to a decoder on %s, which is not (a suffix of) its own input" % show(r[1])[:80],
                        "delegation on the input", b.blocks[bb]["term"].get("sp"))
        elif r[0] == "?":
            chk.fail(rule, inst, "unrecognised Ok return shape: %s" % (r[1],), b.sp())
        else:
            ok = suffix_of_param(pr, r)
            chk.require(ok, rule, inst, "the returned remainder %s is not a suffix of the input: bytes after the consumed part "
                        "would not be handed back untouched" % show(r)[:100], "remainder is a suffix of the input", b.sp())
    return n


# ------------------------------------------------------------------ loops

def is_await_loop(b, blocks):
    return any(b.blocks[i]["term"]["t"] == "yield" for i in blocks)


def cycles_broken_by(b, hdr, blocks, cut):
    """With the blocks in `cut` removed, can control return from hdr to hdr inside the loop?"""
    seen = set()
    st = [s for s in b.succ[hdr] if s in blocks and s not in cut]
    if hdr in cut:
        return True
    while st:
        x = st.pop()
        if x == hdr:
            return False
        if x in seen or x not in blocks or x in cut:
            continue
        seen.add(x)
        st.extend(b.succ[x])
    return True


def classify_loop(pr, hdr, blocks):
    """-> (kind, ok, explanation)"""
    b, vx, tr = pr.b, pr.vx, pr.tr
    if is_await_loop(b, blocks):
        return "await", True, "await poll loop (termination = the awaited I/O future; bounded by the caller's timeout, C10)"
    # (i) finite iterator
    for i in sorted(blocks):
        t = b.blocks[i]["term"]
        if t["t"] == "call" and callee(t) == "core::iter::traits::iterator::Iterator::next":
            ity = ty_str(t["f"]["a"][0])
            if not ity.startswith(ITER_FINITE):
                continue
            if t["to"] is None:
                continue
            nt = b.blocks[t["to"]]["term"]
            if nt["t"] != "switch":
                continue
            none_t = None
            for v, tb in nt["targets"]:
                if v == 0:
                    none_t = tb
            if none_t is None:
                none_t = nt["else"]
            if none_t in blocks and not _leaves(b, none_t, blocks):
                continue
            it = strip_ref(vx.operand(t["args"][0], i))
            stable = True
            if it[0] == "var":
                for d in tr.defs.get(it[2], []):
                    if d[0] in blocks:
                        stable = False
                for w in vx.mw.get(it[2], []):
                    if w[0] in blocks and callee(w[1]) != "core::iter::traits::iterator::Iterator::next":
                        stable = False
            if stable and cycles_broken_by(b, hdr, blocks, {i}):
                return "iterator", True, "every iteration advances the finite iterator %s" % ity.split("<")[0].rsplit("::", 1)[-1]
    # slice-consuming loops
    cands = [l for l, loc in enumerate(b.locals) if ty_str(loc["ty"]) == "&[u8]" and vx.is_var(l)]
    why = []
    for l in cands:
        indefs = [d for d in tr.defs.get(l, []) if d[0] in blocks]
        if not indefs or l in vx.mw:
            continue
        defblocks = {d[0] for d in indefs}
        if not cycles_broken_by(b, hdr, blocks, defblocks):
            # (ii) progress guard: exit when an iteration leaves the length unchanged
            pg = _progress_guard(pr, hdr, blocks, l)
            if pg:
                nonincr = all(_def_is_remainder_of(pr, d, l) for d in indefs)
                if nonincr:
                    return "progress-guard", True, ("the loop is left when an iteration does not shorten `%s`; it is only "
                                                    "ever assigned remainders (suffixes) of itself" % vx.root_name(l))
                why.append("progress guard present but `%s` is assigned a value that is not a remainder of itself" % vx.root_name(l))
            continue
        allstrict = True
        for d in indefs:
            ok, w = _def_strictly_shorter(pr, d, l)
            if not ok:
                allstrict = False
                why.append("assignment to `%s` at bb%d: %s" % (vx.root_name(l), d[0], w))
        if allstrict:
            return "consuming", True, "every iteration replaces `%s` by a strictly shorter suffix" % vx.root_name(l)
        pg = _progress_guard(pr, hdr, blocks, l)
        if pg and all(_def_is_remainder_of(pr, d, l) for d in indefs):
            return "progress-guard", True, "left when an iteration does not shorten `%s`" % vx.root_name(l)
    # a slice that is not modified inside the loop at all, in a loop that is left when an iteration did
    # not shorten it: at most one full iteration
    for l, loc in enumerate(b.locals):
        if ty_str(loc["ty"]) != "&[u8]" or l in vx.mw:
            continue
        if any(d[0] in blocks for d in tr.defs.get(l, [])):
            continue
        if _progress_guard(pr, hdr, blocks, l):
            return "progress-guard", True, ("`%s` is not assigned in the loop and the loop is left when an iteration "
                                            "does not shorten it" % vx.root_name(l))
    return "unknown", False, "no termination argument found: " + "; ".join(why[:3])


def _leaves(b, bb, blocks):
    """bb is inside the loop only syntactically: from bb the header is not reachable within blocks."""
    seen = set()
    st = [bb]
    while st:
        x = st.pop()
        if x in seen or x not in blocks:
            continue
        seen.add(x)
        st.extend(b.succ[x])
    return False


def _rhs_expr(pr, d):
    if d[2] == "assign" and not d[3]["p"]["p"]:
        return pr.vx.rvalue(d[3]["rv"], d[0])
    return None


def _def_is_remainder_of(pr, d, l):
    e = _rhs_expr(pr, d)
    if e is None:
        return False
    e = strip_ref(e)
    if e[0] == "proj" and e[1][0] == "call" and e[1][1] in CONTRACTED and tuple(e[2]) == ("@Ok", "0", "1"):
        a = strip_ref(e[1][2][0])
        return a[0] == "var" and a[2] == l
    if e[0] == "call" and e[1] in INDEX:
        rng = strip_ref(e[2][1])
        a = strip_ref(e[2][0])
        return rng[0] == "agg" and rng[1].endswith("RangeFrom::RangeFrom") and a[0] == "var" and a[2] == l
    return False


def _def_strictly_shorter(pr, d, l):
    e = _rhs_expr(pr, d)
    if e is None:
        return False, "not a plain assignment"
    e = strip_ref(e)
    vx = pr.vx
    # (iii') remainder of a strictly consuming callee
    if e[0] == "proj" and e[1][0] == "call" and tuple(e[2]) == ("@Ok", "0", "1") and \
            e[1][1] == "zvt_builder::ZvtSerializerImpl::deserialize_tagged":
        c = e[1]
        a = strip_ref(c[2][0])
        tag = c[2][1]
        self_ty = c[4][0] if len(c) > 4 and c[4] else ""
        inner = self_ty
        while inner.startswith("core::option::Option<"):
            inner = inner[len("core::option::Option<"):-1]
        if a[0] == "var" and a[2] == l and tag[0] == "agg" and tag[1].endswith("Option::Some") and \
                not inner.startswith("alloc::vec::Vec<"):
            return True, "remainder of deserialize_tagged(.., Some(tag)) (K3-strict: the tag occupies at least one byte)"
    # (iii) proven by a dominating guard
    cur = ("var", vx.root_name(l), l, vx.version(l, d[0], incoming=True))
    Lr = len_of(pr, ("ref", e))
    Lv = len_of(pr, ("ref", cur))
    ok, w = pr.prove_nonneg(Lv.add(Lr, -1).add(Lin(1), -1), d[0])
    if ok:
        return True, "len(new) < len(old) " + w[:80]
    return False, "cannot show that %s is strictly shorter than the current value (%s)" % (show(e)[:60], w[:100])


def _progress_guard(pr, hdr, blocks, l):
    import codec_rules
    b = pr.b
    # a block on every cycle that follows the guard: use each in-loop block dominated by a switch
    for bb in sorted(blocks):
        t = b.blocks[bb]["term"]
        if t["t"] == "call" and callee(t) in ("zvt_builder::encoding::Encoding::decode",) and \
                cycles_broken_by(b, hdr, blocks, {bb}):
            if codec_rules.progress_guard(b, pr.tr, hdr, blocks, l, bb) or \
                    codec_rules.progress_guard_replace(b, pr.tr, hdr, blocks, l, bb):
                return True
    # the guard at the bottom of the iteration: `let before = s.len(); ...; if s.len() == before { break }` - every cycle
    # takes the snapshot and then passes the comparison on its "differs" edge
    tr = pr.tr
    for x in sorted(blocks):
        t = b.blocks[x]["term"]
        if t["t"] != "switch":
            continue
        v = tr.value(t["d"])
        if not (v.kind == "rv" and v.rv["r"] == "bin" and v.rv["op"] in ("Eq", "Ne")):
            continue
        for p_, q_ in ((v.rv["a"], v.rv["b"]), (v.rv["b"], v.rv["a"])):
            vp, vq = tr.value(p_), tr.value(q_)
            if not (codec_rules.len_of_local(tr, p_, l) and codec_rules.len_of_local(tr, q_, l) and vp.kind == "call" and vq.kind == "call"):
                continue
            if vp.bb == vq.bb or vp.bb not in blocks or vq.bb not in blocks or not b.dominates(vq.bb, vp.bb) or not b.dominates(vp.bb, x):
                continue
            # no assignment to the slice between the current-length read and the test, none before the snapshot in the cycle
            zero_t = dict((val, tb) for val, tb in t["targets"]).get(0)
            eq_t = t["else"] if v.rv["op"] == "Eq" else zero_t
            leaves = eq_t is not None and (eq_t not in blocks or cycles_broken_by(b, eq_t, blocks | {eq_t}, {hdr}) and hdr not in _reach_in(b, eq_t, blocks))
            if leaves and cycles_broken_by(b, hdr, blocks, {x}) and cycles_broken_by(b, hdr, blocks, {vq.bb}):
                defs_between = [d for d in tr.defs.get(l, []) if d[0] in blocks and b.dominates(vp.bb, d[0]) and b.dominates(d[0], x) and d[0] != vp.bb]
                if not defs_between:
                    return True
    return False


def _reach_in(b, start, blocks):
    seen, st = set(), [start]
    while st:
        y = st.pop()
        if y in seen or y not in blocks:
            continue
        seen.add(y)
        st.extend(b.succ[y])
    return seen
