"""Value-origin tracing ("derives-from") over MIR-lite.

Places are normalised by looking through single-definition temporaries:
   _8 = &(*_9); _9 = &(*_1).date      ==>   _8  ~  ref of  _1.*.date
The result is independent of how many temporaries rustc introduces, so source-level
refactorings (naming a sub-expression, reordering independent statements) do not change it.
"""
from mirlite import op_place


def proj_key(e):
    if isinstance(e, str):
        return e
    if "f" in e:
        return ("f", e["f"], e.get("n"))
    if "idx" in e:
        return ("idx", e["idx"])
    if "cidx" in e:
        return ("cidx", e["cidx"], e["from_end"])
    if "sub_from" in e:
        return ("sub", e["sub_from"], e["sub_to"], e["from_end"])
    if "dc" in e:
        return ("dc", e["dc"], e.get("n"))
    return ("?", str(e))


class NPlace:
    """Normalised place: base local + tuple of projection keys."""
    __slots__ = ("l", "p")

    def __init__(self, l, p):
        self.l = l
        self.p = tuple(p)

    def __eq__(self, o):
        return isinstance(o, NPlace) and self.l == o.l and self.p == o.p

    def __hash__(self):
        return hash((self.l, self.p))

    def fields(self):
        return [e[2] if e[2] is not None else e[1] for e in self.p if isinstance(e, tuple) and e[0] == "f"]

    def strip_deref(self):
        return NPlace(self.l, [e for e in self.p if e != "deref"])

    def __repr__(self):
        s = "_%d" % self.l
        for e in self.p:
            if e == "deref":
                s = "*" + s
            elif isinstance(e, tuple) and e[0] == "f":
                s += "." + str(e[2] if e[2] is not None else e[1])
            elif isinstance(e, tuple) and e[0] == "dc":
                s += "@" + str(e[2] if e[2] is not None else e[1])
            else:
                s += "[" + str(e) + "]"
        return s


class Val:
    """kind in {place, ref, const, call, agg, rv, unknown}"""

    def __init__(self, kind, **kw):
        self.kind = kind
        self.__dict__.update(kw)

    def __repr__(self):
        d = {k: v for k, v in self.__dict__.items() if k != "kind"}
        return "Val(%s %s)" % (self.kind, d)


class Tracer:
    def __init__(self, body):
        self.b = body
        self.defs = body.defs

    def mut_writers(self):
        """local -> list of (bb, call terminator) of calls that receive `&mut local` (possibly
        reborrowed): such a call may write the local."""
        if getattr(self, "_mw", None) is None:
            mw = {}
            for i, blk in enumerate(self.b.blocks):
                t = blk["term"]
                if t["t"] != "call":
                    continue
                for a in t["args"]:
                    v = self.value(a)
                    hops = 0
                    while v.kind == "rv" and v.rv["r"] == "cast" and "Unsize" in str(v.rv.get("kind", v.rv.get("ck", ""))) and hops < 4:
                        v = self.value(v.rv["o"])     # `&mut [u8; N]` coerced to `&mut [u8]`: the same storage
                        hops += 1
                    if v.kind == "ref" and v.mut and "deref" not in v.place.p:
                        # `&mut local...` : the local's own storage may be written.  A reborrow
                        # `&mut *r` writes the referent of r, not r.
                        mw.setdefault(v.place.l, []).append((i, t))
            self._mw = mw
        return self._mw

    def whole_defs(self, l):
        """Definitions writing the whole local (no projection on the LHS)."""
        out = []
        for d in self.defs.get(l, []):
            if d[2] == "assign":
                if not d[3]["p"]["p"]:
                    out.append(d)
            elif d[2] == "call":
                if not d[3]["dest"]["p"]:
                    out.append(d)
            else:
                out.append(d)
        return out

    def single_def(self, l):
        ds = self.defs.get(l, [])
        if len(ds) == 1 and l > self.b.raw["arg_count"]:
            d = ds[0]
            lhs = d[3]["p"] if d[2] == "assign" else (d[3]["dest"] if d[2] == "call" else None)
            if lhs is not None and not lhs["p"]:
                return d
        return None

    def nplace(self, place, depth=0):
        l = place["l"]
        proj = [proj_key(e) for e in place["p"]]
        return self._norm(l, proj, depth)

    def _norm(self, l, proj, depth=0):
        while depth < 64:
            depth += 1
            d = self.single_def(l)
            if d is None or d[2] != "assign":
                break
            rv = d[3]["rv"]
            r = rv["r"]
            if r == "use":
                p2 = op_place(rv["o"])
                if p2 is None:
                    break
                l = p2["l"]
                proj = [proj_key(e) for e in p2["p"]] + proj
            elif r == "cfd":
                p2 = rv["p"]
                l = p2["l"]
                proj = [proj_key(e) for e in p2["p"]] + proj
            elif r == "ref" and proj and proj[0] == "deref":
                p2 = rv["p"]
                l = p2["l"]
                proj = [proj_key(e) for e in p2["p"]] + proj[1:]
            elif r == "cast" and rv["kind"].startswith("PointerCoercion") and False:
                break
            else:
                break
        return NPlace(l, proj)

    def value(self, operand, depth=0):
        if "k" in operand:
            return Val("const", k=operand["k"])
        p = op_place(operand)
        if p is None:
            return Val("unknown")
        return self.place_value(p, depth)

    def place_value(self, place, depth=0):
        np = self.nplace(place)
        if not np.p:
            d = self.single_def(np.l)
            if d is not None:
                if d[2] == "call":
                    return Val("call", bb=d[0], term=d[3], place=np)
                if d[2] == "assign":
                    rv = d[3]["rv"]
                    r = rv["r"]
                    if r == "ref":
                        return Val("ref", place=self.nplace(rv["p"]), mut=rv["mut"], at=(d[0], d[1]))
                    if r == "agg":
                        return Val("agg", rv=rv, at=(d[0], d[1]))
                    if r == "use" and "k" in rv["o"]:
                        return Val("const", k=rv["o"]["k"])
                    return Val("rv", rv=rv, at=(d[0], d[1]))
        return Val("place", place=np)

    def const_int(self, operand):
        v = self.value(operand)
        if v.kind == "const" and "v" in v.k:
            return v.k["v"]
        return None

    def tag_option(self, operand):
        """Decode an Option<Tag> operand built as None | Some(Tag(const)).
        Returns ('none',) | ('some', n) | ('param',) (forwarded parameter) | None."""
        v = self.value(operand)
        if v.kind == "agg" and v.rv["kind"] == "adt" and v.rv["n"] == "core::option::Option":
            if v.rv["vname"] == "None":
                return ("none",)
            inner = self.value(v.rv["ops"][0])
            if inner.kind == "agg" and inner.rv["n"] == "zvt_builder::Tag":
                n = self.const_int(inner.rv["ops"][0])
                if n is not None:
                    return ("some", n)
            return ("some", None)
        if v.kind == "place":
            return ("place", v.place)
        if v.kind == "call":
            return ("call", v.term)
        return None

    def sources(self, operand_or_place, max_nodes=4000, through_calls=None):
        """Backward closure: the set of leaf sources a value derives from.
        Leaves: ('arg', NPlace) for places rooted at arguments / multi-def locals are expanded
        through *all* their definitions; ('const', k); ('call', callee, bb).
        `through_calls`: predicate(callee_name) -> True when the call is value-preserving
        and its arguments should be followed."""
        out = set()
        seen = set()
        work = []

        def push_op(o):
            if "k" in o:
                k = o["k"]
                if "v" in k:
                    out.add(("const", k["v"]))
                elif "str" in k:
                    out.add(("const", k["str"]))
                elif "fn" in k:
                    out.add(("fn", k["fn"]["n"]))
                else:
                    out.add(("const", "?"))
                return
            p = op_place(o)
            if p is not None:
                work.append(self.nplace(p))

        if "l" in operand_or_place and "p" in operand_or_place:
            work.append(self.nplace(operand_or_place))
        else:
            push_op(operand_or_place)
        n = 0
        while work and n < max_nodes:
            n += 1
            np = work.pop()
            if np in seen:
                continue
            seen.add(np)
            l = np.l
            if l <= self.b.raw["arg_count"] and l != 0 and not self.defs.get(l):
                out.add(("arg", l, np.p))
                continue
            ds = list(self.defs.get(l, []))
            for (wbb, wt) in self.mut_writers().get(l, []):
                # a call holding &mut l may store any of its arguments into l; writes through
                # the pointer it returns (IndexMut, deref_mut) are definitions of l as well
                ds.append((wbb, "term", "mutcall", wt))
            if not ds:
                out.add(("arg", l, np.p))
                continue
            if l <= self.b.raw["arg_count"] and l != 0:
                out.add(("arg", l, np.p))
            for d in ds:
                if d[2] == "call":
                    t = d[3]
                    name = t["f"]["n"] if "f" in t else "?"
                    if through_calls and through_calls(name, t):
                        for a in t["args"]:
                            push_op(a)
                    else:
                        out.add(("call", name, d[0]))
                elif d[2] == "mutcall":
                    t = d[3]
                    name = t["f"]["n"] if "f" in t else "?"
                    for a in t["args"]:
                        va = self.value(a)
                        if va.kind == "ref" and va.place.l == l:
                            continue
                        push_op(a)
                    # writes through the returned pointer
                    dl = t["dest"]["l"]
                    for dd in self.defs.get(dl, []):
                        if dd[2] == "assign" and dd[3]["p"]["p"] and dd[3]["p"]["p"][0] == "deref":
                            rv2 = dd[3]["rv"]
                            for key in ("o", "a", "b"):
                                if key in rv2 and isinstance(rv2[key], dict):
                                    push_op(rv2[key])
                            for o in rv2.get("ops", []):
                                push_op(o)
                    # pointers derived over several hops: `buf.iter_mut().rev()` -> `next()` -> `Some(slot)` -> `*slot = v`
                    derived = {dl}
                    grew = True
                    while grew:
                        grew = False
                        for l2 in range(len(self.b.locals)):
                            if l2 in derived:
                                continue
                            for dd in self.defs.get(l2, []):
                                srcs_ = []
                                if dd[2] == "assign":
                                    rv2 = dd[3]["rv"]
                                    if rv2["r"] in ("use", "cast") and op_place(rv2["o"]) is not None:
                                        srcs_.append(op_place(rv2["o"])["l"])
                                    elif rv2["r"] in ("ref", "rawptr"):
                                        srcs_.append(rv2["p"]["l"])
                                elif dd[2] == "call":
                                    for a in dd[3]["args"]:
                                        pa = op_place(a)
                                        if pa is not None:
                                            srcs_.append(pa["l"])
                                if any(x in derived for x in srcs_):
                                    derived.add(l2)
                                    grew = True
                                    break
                    for l2 in derived - {dl}:
                        for dd in self.defs.get(l2, []):
                            if dd[2] == "assign" and dd[3]["p"]["p"] and dd[3]["p"]["p"][0] == "deref":
                                rv2 = dd[3]["rv"]
                                for key in ("o", "a", "b"):
                                    if key in rv2 and isinstance(rv2[key], dict):
                                        push_op(rv2[key])
                                for o in rv2.get("ops", []):
                                    push_op(o)
                    # pointer copies: `_p = &mut *ret` then `*_p = v`
                    for l2 in range(len(self.b.locals)):
                        for dd in self.defs.get(l2, []):
                            if dd[2] == "assign" and dd[3]["p"]["p"] and dd[3]["p"]["p"][0] == "deref":
                                base = self._norm(l2, ["deref"])
                                if base.l == dl and l2 != dl:
                                    rv2 = dd[3]["rv"]
                                    for key in ("o", "a", "b"):
                                        if key in rv2 and isinstance(rv2[key], dict):
                                            push_op(rv2[key])
                elif d[2] == "yield":
                    out.add(("resume", d[0]))
                else:
                    st = d[3]
                    lhs_proj = [proj_key(e) for e in st["p"]["p"]]
                    # a write to a different field does not feed this place
                    if lhs_proj and np.p and not _proj_compatible(lhs_proj, list(np.p)):
                        continue
                    rv = st["rv"]
                    r = rv["r"]
                    if r in ("use", "cast", "repeat"):
                        o = rv["o"]
                        p2 = op_place(o)
                        if p2 is not None and r == "use":
                            rest = list(np.p)[len(lhs_proj):] if lhs_proj else list(np.p)
                            work.append(self._norm(p2["l"], [proj_key(e) for e in p2["p"]] + rest))
                        else:
                            push_op(o)
                    elif r in ("ref", "rawptr", "cfd", "discr"):
                        p2 = rv["p"]
                        rest = list(np.p)
                        if r == "ref" and rest and rest[0] == "deref":
                            rest = rest[1:]
                        elif r == "ref":
                            rest = []
                        work.append(self._norm(p2["l"], [proj_key(e) for e in p2["p"]] + rest))
                    elif r == "bin":
                        push_op(rv["a"])
                        push_op(rv["b"])
                    elif r == "un":
                        push_op(rv["a"])
                    elif r == "agg":
                        # field-sensitive when the projection selects one aggregate field
                        sel = None
                        rest = list(np.p)[len(lhs_proj):] if lhs_proj else list(np.p)
                        rest2 = [e for e in rest if not (isinstance(e, tuple) and e[0] == "dc")]
                        if rest2 and isinstance(rest2[0], tuple) and rest2[0][0] == "f":
                            sel = rest2[0][1]
                        if sel is not None and sel < len(rv["ops"]) and rv["kind"] in ("adt", "tuple"):
                            o = rv["ops"][sel]
                            p2 = op_place(o)
                            if p2 is not None:
                                work.append(self._norm(p2["l"], [proj_key(e) for e in p2["p"]] + rest2[1:]))
                            else:
                                push_op(o)
                        else:
                            for o in rv["ops"]:
                                push_op(o)
                    else:
                        out.add(("other", r))
        return out


def _proj_compatible(a, b):
    """True if writing place with projection a can affect reading projection b (prefix relation
    on field selections)."""
    for x, y in zip(a, b):
        if x != y:
            if isinstance(x, tuple) and isinstance(y, tuple) and x[0] == "f" and y[0] == "f":
                return False
            if isinstance(x, tuple) and isinstance(y, tuple) and x[0] == "dc" and y[0] == "dc":
                return False
    return True
