"""C05 — command sequences acknowledge every packet once and stop at the final packet."""
import seqcheck

LEVEL = "model_checking"
EXPLANATION = (
    "Every sequence stream body (12 distinct coroutines: the trait's default body shared by 7 single-reply "
    "commands, 10 overriding bodies, WriteFile) is projected from its pre-transform MIR onto transport events "
    "(write-with-ack, read, write, result edges, reply-variant edges, yields, end) and a protocol monitor is run "
    "over the event graph as a product construction, i.e. over ALL paths = all reply scripts of any length: the "
    "command is written once and outside the loop, its acknowledgement outcome is examined, every read packet is "
    "answered exactly once (Ack, or WriteData for a data request) before it is yielded and before the next read, "
    "the stream ends exactly after the first packet whose variant is final for the command (final set taken by "
    "control field from spec/sequences.json + spec/replies.json), and no transport call follows a final packet.")
RULE = ("monitor phases S0 -Wack(Input)-> S1 -ok-> L -R(Output)-> R1 -ok-> P -W(Ack|WriteData)-> W1 -ok-> P' -Yok-> "
        "(D if variants subset of Final | L if disjoint | violation if mixed); END only in D (or after the error item); "
        "any transport call in D is a violation.")


def _run_own(ctx, chk, prop="C05"):
    results, spec = seqcheck.run_all(ctx)
    n = 0
    for name, res in sorted(results.items()):
        if res.get("skipped"):
            chk.note("%s: %s" % (name, res["skipped"]))
            continue
        n += 1
        mine = [f for f in res["findings"] if f.prop == prop]
        if not mine:
            chk.ok(prop + "/monitor", name, "product states %s, events %s, final=%s" % (
                res["stats"].get("product_states"), res["stats"].get("events"), res.get("final")), res["ent"]["sp"])
        for f in mine:
            chk.fail(prop + "/" + f.rule, name, f.msg, f.bb, path=f.trace)
    for name in spec:
        if not name.startswith("_"):
            chk.require(name in results, prop + "/present", name, "sequence of the specification table not found in the crate",
                        "", nontrivial=False)
    chk.coverage_extra["states"] = sum(r["stats"].get("product_states", 0) for r in results.values())
    chk.coverage_extra["transitions"] = sum(r["stats"].get("product_states", 0) for r in results.values())
    chk.coverage_extra["traces_validated_against_impl"] = 0
    chk.coverage_extra["model_is_implementation_cfg"] = True
    chk.analysed["sequences"] = n
    chk.analysed["distinct_bodies"] = len({id(r["ent"]["body"]) for r in results.values() if r["ent"]["body"] is not None})
    chk.floor("sequences analysed", n, 18)
    chk.floor("distinct stream bodies", chk.analysed["distinct_bodies"], 12)
    chk.trusted.extend(["async-stream: `yield`/`?` inside try_stream! expand to Sender::send(Ok/Err) followed by return",
                        "tokio I/O futures perform their effect only when awaited"])


def run(ctx, chk, prop="C05"):
    _run_own(ctx, chk, prop)
    if prop != "C05":
        return
    # "each packet the terminal sends is handed out once and answered once" presupposes that a packet *is* what
    # read_packet returns: only read_exact reads the source, in the 3 / +2 / body plan (C04-a/b) - a hand-written fill
    # loop that overwrites what it already received delivers garbled packets and reads into the next exchange
    import rules_c04
    from report import Sub
    sub = Sub(chk, "C05/transport", lambda r: r.startswith(("C04-a/", "C04-b/", "C04-d/")))
    rules_c04.run(ctx, sub)
    chk.floor("read_packet / APDU header obligations (shared with C04-a/b/d)", sub.count, 6)
    # what the client writes (commands, data blocks) is delimited by the APDU length field: the writer's forms (C16-b Adpu)
    import rules_c16
    sub16 = Sub(chk, "C05/transport", lambda r: r.startswith("C16-b/"), instance_filter=lambda i: str(i).startswith("Adpu"))
    rules_c16.run(ctx, sub16)
    chk.floor("APDU length-form obligations (shared with C16-b)", sub16.count, 4)
    # the data request of the firmware upload is answered with the block it asked for - if the block cannot be produced
    # (a read that insists on a full buffer at the tail of a file) the request stays unanswered (C11-c)
    import rules_c11
    sub11 = Sub(chk, "C05/data-answer", lambda r: r.startswith("C11-c/"))
    rules_c11.run(ctx, sub11)
    chk.floor("data-answer obligations (shared with C11-c)", sub11.count, 3)
