"""C01 — every packet value survives serialise -> deserialise (structural clauses)."""
import layout
import codec_rules
from mirlite import ty_str, callee, callee_res, op_place
from flow import Tracer, NPlace

EXPLANATION = (
    "Equality decode(encode(v)) == v per value is arithmetic over values and is NOT decided. Decided are "
    "five necessary conditions visible in the resolved program, each of which, when broken, makes some "
    "canonical value fail to round-trip: (a) per struct, the encoder's and the decoder's row tables agree "
    "(field, type, length style, encoding, tag encoding, tag; positional rows in order, all positional before "
    "tagged) and every struct field is both written and read; (b) no encoder reachable from a shipped layout "
    "row ignores its input (the returned bytes derive from the parameter by data flow); (c) encode/decode of "
    "each leaf encoding use inverse std primitives of the same flavour (to_le/from_le, to_be/from_be, "
    "from_hex/encode_hex, CP437 encode/decode, clone/to_vec); (d) tag, length and payload are framed in the "
    "same order by serialize_tagged and deserialize_tagged and the length written is the payload's length; "
    "(e) tagged rows of one struct have pairwise distinct tags; (f) no narrowing cast on the encode path alters a "
    "value derived from the input unless a dominating guard proves it fits (values the wire format cannot carry are "
    "tabled exceptions). " 
    "(g) for every length-prefix style the writer's and the reader's forms agree (switch points, markers, byte order, digit count, offsets - the C16-b/d/e/f clauses, included here because a body whose length falls where they disagree cannot round-trip).")
RULE = ("C01-a sibling agreement of extracted encoder/decoder layout tables; C01-b derives-from(param) for "
        "every used Encoding::encode and every serialize_tagged impl; C01-c inverse-primitive table; C01-d frame "
        "order by def-use of the append chain and dominance of TE::decode < L::deserialize < E::decode; "
        "C01-e distinct tags.")

ENC = "zvt_builder::encoding::Encoding"
ANYCALL = lambda n, t: True

PAIRS = [
    # (encode-side callee substring, decode-side callee substring, flavour)
    ("::to_le_bytes", "::from_le_bytes", "little endian"),
    ("::to_be_bytes", "::from_be_bytes", "big endian"),
    ("hex::FromHex>::from_hex", "hex::ToHex>::encode_hex", "hex"),
    ("CP437::encode", "CP437::decode", "cp437"),
    ("core::clone::Clone>::clone", "::to_vec", "raw copy"),
]


def used_encodings(zvt, chk):
    """(E, leaf T) pairs used by shipped layout rows (encoder side), incl. nested via Option/Vec."""
    used = {}
    structs = layout.codec_impl_bodies(zvt)
    tables = {}
    for sname, d in structs.items():
        try:
            rows = layout.extract_encode(d["encode"])
            info = layout.extract_decode(d["decode"])
            tables[sname] = (rows, info)
        except layout.ShapeError as e:
            chk.fail("C01/shape", sname, "codec not analysable: %s" % e.msg, e.body.sp())
            continue
        for r in rows:
            card, inner = layout.unwrap_card(r["ty"])
            if card == "optional":
                c2, i2 = layout.unwrap_card(inner)
                if c2 == "repeated" and ty_str(i2) == "u8" and not ty_str(r["E"]).startswith("zvt_builder::encoding::"):
                    pass
            E = ty_str(r["E"])
            leaf = ty_str(inner)
            if leaf.startswith("alloc::vec::Vec<u8") or (card == "repeated" and ty_str(inner) == "u8" and "Custom" in E):
                leaf = "alloc::vec::Vec<u8, alloc::alloc::Global>"
            used.setdefault((E, leaf), []).append("%s.%s" % (sname, r["field"]))
    return structs, tables, used


def find_encoding_impl(crates, E, T):
    for c in crates:
        enc = dec = None
        for b in c.bodies.values():
            r = b.raw
            if r.get("impl_trait") == ENC and r["defkind"] == "AssocFn" and ty_str(r["impl_self"]) == E \
                    and ty_str(r["impl_trait_args"][1]) == T:
                if r["name"] == "encode":
                    enc = b
                elif r["name"] == "decode":
                    dec = b
        if enc or dec:
            return enc, dec
    return None, None


def transitive_callees(body, crates, direction, depth=0, seen=None):
    """Resolved callees of the body plus those of the encodings it delegates to (same direction)."""
    seen = seen if seen is not None else set()
    out = set()
    if body is None or body.id in seen or depth > 6:
        return out
    seen.add(body.id)
    # closures written inside the body are part of it (`.map(|(b, rest)| (u16::from_be_bytes(..), rest))`)
    for c in crates:
        for cb in c.bodies.values():
            if cb.raw.get("parent") == body.id:
                out |= transitive_callees(cb, crates, direction, depth + 1, seen)
    for _, t in body.calls():
        n_ = callee_res(t)
        if n_.endswith(("::to_be_bytes", "::to_le_bytes")) and t["args"] and "k" in t["args"][0]:
            continue            # the bytes of a compile-time constant (a sentinel to compare with): not a conversion of data
        out.add(n_)
        f = t.get("f") or {}
        r = f.get("res") or {}
        if r.get("impl_trait") == ENC and r.get("kind") == "item" and f.get("name") == direction:
            a = r.get("impl_trait_args") or []
            if len(a) >= 2:
                e2, d2 = find_encoding_impl(crates, ty_str(r["impl_self"]), ty_str(a[1]))
                out |= transitive_callees(e2 if direction == "encode" else d2, crates, direction, depth + 1, seen)
    return out


def derives_from_param(body, param=1):
    tr = Tracer(body)
    srcs = tr.sources({"l": 0, "p": []}, through_calls=ANYCALL)
    return any(s[0] == "arg" and s[1] == param for s in srcs), srcs


def _run_own(ctx, chk):
    zvt = ctx.crate("zvt")
    zb = ctx.crate("zvt_builder")
    structs, tables, used = used_encodings(zvt, chk)
    # ---- C01-a / C01-e
    nrows = 0
    for sname, (rows, info) in sorted(tables.items()):
        d = structs[sname]
        nrows += codec_rules.check_enc_dec_agree(chk, sname, rows, info, d["encode"], d["decode"], "C01")
        adt = zvt.adts.get(sname)
        fields = [f["name"] for f in adt["variants"][0]["fields"]] if adt else []
        wr = [r["field"] for r in rows]
        rd = [c["field"] for c in info.calls]
        chk.require(sorted(wr) == sorted(fields), "C01-a/all-fields-written", sname,
                    "struct fields %s but encoder writes %s" % (fields, wr), "%d fields" % len(fields),
                    d["encode"].sp(), nontrivial=bool(fields))
        chk.require(sorted(rd) == sorted(fields), "C01-a/all-fields-read", sname,
                    "struct fields %s but decoder reads %s" % (fields, rd), "%d fields" % len(fields),
                    d["decode"].sp(), nontrivial=bool(fields))
    chk.floor("structs with agreeing tables", len(tables), 55)
    chk.floor("rows compared", nrows, 162)
    # ---- closure: encodings called from used encodings, from the length styles and the tag
    # encodings of shipped rows and of the APDU framing (e.g. Adpu -> <Default as Encoding<u16>>)
    def called_encodings(body):
        out = set()
        for _, t in body.calls():
            f = t.get("f") or {}
            r = f.get("res") or {}
            if r.get("impl_trait") == ENC and r.get("kind") == "item":
                a = r.get("impl_trait_args") or []
                if len(a) >= 2:
                    out.add((ty_str(r["impl_self"]), ty_str(a[1])))
        return out
    roots = []
    for c in (zb, zvt):
        for b in c.bodies.values():
            r = b.raw
            if r.get("impl_trait") == "zvt_builder::length::Length" and r["defkind"] == "AssocFn":
                roots.append(b)
    used.setdefault(("zvt_builder::encoding::Default", "zvt_builder::Tag"), []).append("BMP/TLV tags")
    used.setdefault(("zvt_builder::encoding::BigEndian", "zvt_builder::Tag"), []).append("APDU control field")
    work = list(used)
    for b in roots:
        for et in called_encodings(b):
            if et not in used:
                used[et] = ["called from " + b.id]
                work.append(et)
    while work:
        E, T = work.pop()
        enc, dec = find_encoding_impl([zb, zvt], E, T)
        for b in (enc, dec):
            if b is None:
                continue
            for et in called_encodings(b):
                if et not in used:
                    used[et] = ["called from " + b.id]
                    work.append(et)
    # ---- C01-b / C01-c on leaf encodings used by shipped rows
    n_leaf = 0
    for (E, T), where in sorted(used.items()):
        if T in structs:
            continue  # derived struct codecs: covered by C01-a (every field is serialised)
        enc, dec = find_encoding_impl([zb, zvt], E, T)
        inst = "<%s as Encoding<%s>>" % (E, T)
        if enc is None or dec is None:
            chk.fail("C01-b/impl-present", inst, "no Encoding impl found for a layout row (used by %s)" % where[:3])
            continue
        n_leaf += 1
        ok, srcs = derives_from_param(enc)
        chk.require(ok, "C01-b/encoder-uses-input", inst + "::encode",
                    "the encoder ignores its input: returned bytes derive only from %s; every value of "
                    "fields %s serialises to the same bytes" % (sorted(map(str, srcs))[:6], where[:4]),
                    "bytes derive from input", enc.sp(),
                    key="C01-b/encoder-uses-input|%s::encode" % inst)
        okd, srcsd = derives_from_param(dec)
        chk.require(okd, "C01-b/decoder-uses-input", inst + "::decode",
                    "the decoder ignores its input bytes", "value derives from bytes", dec.sp())
        # pairing
        ec = transitive_callees(enc, [zb, zvt], "encode")
        dc = transitive_callees(dec, [zb, zvt], "decode")
        size1 = T == "u8"
        for es, ds, flavour in PAIRS:
            e_has = any(es in x for x in ec)
            d_has = any(ds in x for x in dc)
            if flavour == "raw copy" and not (e_has and "Custom" in E):
                continue
            if e_has or (d_has and flavour != "raw copy"):
                if size1 and "endian" in flavour:
                    chk.ok("C01-c/pairing", inst, "%s (1 byte: flavours coincide)" % flavour, enc.sp(), nontrivial=False)
                    continue
                chk.require(e_has and d_has, "C01-c/pairing", inst + " " + flavour,
                            "encode uses %s primitive: %s, decode: %s - not an inverse pair" % (flavour, e_has, d_has),
                            flavour, enc.sp())
        # mixed endianness
        if not size1:
            le = any("_le_bytes" in x for x in ec | dc)
            be = any("_be_bytes" in x for x in ec | dc)
            chk.require(not (le and be), "C01-c/endianness", inst,
                        "little- and big-endian primitives are mixed between encode and decode", "", enc.sp(),
                        nontrivial=le or be)
    chk.floor("leaf encodings analysed", n_leaf, 15)
    # ---- C01-b for serialize_tagged impls, C01-d frame order
    frames(chk, zb, zvt)
    encoder_truncation(chk, zb, zvt, used)


# Narrowing casts on the encode path silently alter what the caller put in, unless a dominating
# guard shows the value fits.  Values the wire format cannot carry are outside the property's domain:
ENC_TRUNCATION_EXCEPTIONS = {
    ("<zvt_builder::length::Adpu as zvt_builder::length::Length>::serialize", "usize as u16"):
        "APDU bodies above 65535 bytes are not representable",
    ("<zvt_builder::encoding::Default as zvt_builder::encoding::Encoding<zvt_builder::Tag>>::encode", "u16 as u8"):
        "tags outside the one-byte page and the two-byte pages 1Fxx / FFxx are not representable",
}


def encoder_truncation(chk, zb, zvt, used):
    import sites
    from discharge import make_prover, check_site
    crates = [zb, zvt]
    bodies = []
    for c in crates:
        for b in c.bodies.values():
            r = b.raw
            tr = r.get("impl_trait") or r.get("in_trait")
            if r["defkind"] != "AssocFn":
                continue
            if tr == "zvt_builder::length::Length" and r.get("name") == "serialize":
                bodies.append(b)
            elif tr == "zvt_builder::ZvtSerializerImpl" and r.get("name") == "serialize_tagged":
                bodies.append(b)
            elif tr == ENC and r.get("name") == "encode":
                key = (ty_str(r.get("impl_self")), ty_str(r["impl_trait_args"][1]) if len(r["impl_trait_args"]) > 1 else "")
                if key in used or r.get("x") == "Zvt":
                    bodies.append(b)
    n = 0
    for b in bodies:
        pr = None
        for s in sites.enumerate_sites(b):
            if s["kind"] != "truncation":
                continue
            pr = pr or make_prover(b, crates)
            n += 1
            ok, why = check_site(pr, s)
            exc = ENC_TRUNCATION_EXCEPTIONS.get((b.id, s["detail"]))
            if not ok and exc:
                chk.ok("C01-f/no-encoder-truncation", "%s %s" % (b.id, s["detail"]), "tabled: " + exc, s.get("sp"), nontrivial=False)
                continue
            chk.require(ok, "C01-f/no-encoder-truncation", "%s %s" % (b.id, s["detail"]),
                        "the encoder narrows a value derived from its input without a guard (%s): what the caller put in is silently "
                        "altered" % why[:140], why[:100], s.get("sp"), key="C01-f/no-encoder-truncation|%s|%s" % (b.id, s["detail"]))
    chk.floor("encoder cast sites", n, 4)


def frames(chk, zb, zvt):
    SER, DESER = layout.SER, layout.DESER
    collect_identity_encoders([zb, zvt])
    n = 0
    for c in (zb, zvt):
        for b in c.bodies.values():
            r = b.raw
            is_default = r.get("in_trait") == "zvt_builder::ZvtSerializerImpl"
            is_impl = r.get("impl_trait") == "zvt_builder::ZvtSerializerImpl"
            if not (is_default or is_impl) or r["defkind"] != "AssocFn":
                continue
            inst = b.id
            if r["name"] == "serialize_tagged":
                n += 1
                ok, srcs = derives_from_param(b)
                chk.require(ok, "C01-b/serializer-uses-input", inst,
                            "serialize_tagged ignores the value it is asked to serialise", "", b.sp())
                frame_order_ser(chk, b, inst)
            elif r["name"] == "deserialize_tagged":
                n += 1
                frame_order_deser(chk, b, inst)
    chk.floor("serialize/deserialize_tagged impls", n, 8)


def frame_order_ser(chk, b, inst):
    """tag || L::serialize(len(payload)) || payload, when the impl frames by itself (it may instead delegate to
    another serialize_tagged).  Decided on the value the function returns along every feasible path (pathsym):
    the returned vector, read as a concatenation, must be exactly those parts in that order - whether it is
    built with append, extend, extend_from_slice, concat or by starting from the encoded tag."""
    import pathsym as ps
    calls = list(b.calls())
    len_calls = [(bb, t) for bb, t in calls if callee(t) == "zvt_builder::length::Length::serialize"]
    if not len_calls:
        # no length prefix written here: then the framing must be somebody else's - a call of serialize_tagged in this body or
        # in a closure of it (Option / Vec impls).  A body that writes its own length bytes by hand has neither.
        scope = [b] + ([c_ for c_ in b.crate.bodies.values() if c_.id.startswith(b.id + "::{closure")] if b.crate is not None else [])
        deleg = [t for s_ in scope for _, t in s_.calls() if callee(t) == layout.SER]
        chk.require(bool(deleg), "C01-d/frame-shape", inst,
                    "the value is framed without L::serialize and without delegating to another serialize_tagged: a length prefix written "
                    "by hand is outside every length-style rule", "L::serialize(len(payload)) or delegation", b.sp())
        return
    GROW = ("alloc::vec::Vec::<T, A>::append", "alloc::vec::Vec::<T, A>::extend_from_slice", "core::iter::traits::collect::Extend::extend",
            "alloc::vec::Vec::<T, A>::extend_from_within")
    EMPTY = ("alloc::vec::Vec::<T>::new", "core::default::Default::default", "alloc::vec::Vec::<T>::with_capacity")

    def parts(e, depth=0):
        """the byte sequence e denotes, as a list of parts (None = not understood)"""
        e = ps.strip(e)
        if depth > 12:
            return None
        if e[0] == "call-mut":
            if e[1] not in GROW or len(e[2]) < 2:
                return None
            a, c = parts(e[3], depth + 1), parts(e[2][1], depth + 1)
            return None if a is None or c is None else a + c
        if e[0] == "call":
            if e[1] in EMPTY:
                return []
            if e[1].endswith("::concat") and e[2]:
                arr = ps.strip(e[2][0])
                if arr[0] == "agg" and arr[1] == "array":
                    out = []
                    for x in arr[2]:
                        px = parts(x, depth + 1)
                        if px is None:
                            return None
                        out += px
                    return out
            if e[1].endswith(("::into_iter", "::to_vec", "::into_vec", "::iter", "::copied", "::cloned", "::as_slice", "::drain")) and e[2]:
                return parts(e[2][0], depth + 1)
        return [e]

    def kind(x):
        if x[0] == "call" and x[1] == "zvt_builder::encoding::Encoding::encode":
            return "tag" if len(x[3]) > 1 and x[3][1] == "zvt_builder::Tag" else "payload"
        if x[0] == "call" and x[1] == "zvt_builder::length::Length::serialize":
            return "len"
        return "?"
    pe = ps.PathEval(b, {})
    rets = [i for i in sorted(b.reachable(0)) if b.blocks[i]["term"]["t"] == "return"]
    n_paths = n_empty = 0
    for r in rets:
        for path in ps.simple_paths(b, 0, r):
            n_paths += 1
            env, conds = pe.run(path)
            ps_ = parts(ps.norm(env.get(0, ("pre", 0))))
            kinds = [kind(x) for x in ps_] if ps_ is not None else None
            if kinds == []:
                # the value is omitted altogether on this path (an empty raw payload, like Option::None)
                n_empty += 1
                continue
            good = kinds is not None and "?" not in kinds and sorted(kinds) in (["len", "payload"], ["len", "payload", "tag"])
            if not chk.require(good, "C01-d/frame-shape", inst,
                               "the returned bytes are not a concatenation of the encoded tag, L::serialize(..) and the encoded "
                               "payload: parts %s" % (kinds if kinds is not None else ps.show(ps.norm(env.get(0, ("pre", 0))))[:120]), "", b.sp()):
                continue
            chk.require(kinds in (["len", "payload"], ["tag", "len", "payload"]), "C01-d/append-order", inst,
                        "bytes are concatenated as %s, not as [tag ||] length || payload" % " || ".join(kinds), "length || payload", b.sp())
            if "tag" in kinds:
                chk.require(kinds[0] == "tag", "C01-d/tag-first", inst, "the encoded tag is not the prefix of the output", "tag || ...", b.sp())
            # a tag that was handed in must be written: on a path where the tag argument is Some, the tag part exists
            tag_some = any(ps.norm(ce) == ("discr", ("pre", 2)) and taken == 1 for _, ce, taken, _ in conds)
            chk.require(not tag_some or "tag" in kinds, "C01-d/tag-first", inst,
                        "a tag is handed in but the output on this path does not start with it", "tag || ...", b.sp())
            # L::serialize argument = len(payload)
            lpart = ps_[kinds.index("len")]
            ppart = ps_[kinds.index("payload")]
            arg = ps.strip(lpart[2][0]) if lpart[2] else ("?",)
            ok_len = False
            inner = None
            if arg[0] == "len":
                inner = ps.strip(arg[1])
            elif arg[0] == "call" and arg[1].endswith("::len") and arg[2]:
                inner = ps.strip(arg[2][0])
            if inner is not None:
                ok_len = inner == ppart
                if not ok_len and inner == ("pre", 1):
                    # len(self) where the payload encoder is the identity copy of self
                    pt = [t_ for _, t_ in calls if callee(t_) == "zvt_builder::encoding::Encoding::encode" and
                          ty_str(t_["f"]["a"][1]) != "zvt_builder::Tag"]
                    ok_len = len(pt) == 1 and _payload_is_self(Tracer(b), pt[0])
            chk.require(ok_len, "C01-d/length-of-payload", inst,
                        "the length handed to L::serialize is not the length of the encoded payload: %s" % ps.show(arg)[:80], "len(payload)", b.sp())
    chk.require(n_paths > n_empty, "C01-d/frame-shape", inst, "no path returns a framed value (%d paths, %d empty)" % (n_paths, n_empty), "",
                b.sp(), nontrivial=False)


IDENTITY_ENCODERS = set()


def collect_identity_encoders(crates):
    """Encoders whose whole body is `input.clone()`: for these len(input) == len(payload)."""
    for c in crates:
        for b in c.bodies.values():
            r = b.raw
            if r.get("impl_trait") == ENC and r.get("name") == "encode" and r["defkind"] == "AssocFn":
                plumbing = ("core::ops::deref::Deref::deref", "core::convert::AsRef::as_ref", "alloc::vec::Vec::<T, A>::as_slice")
                # (the call that defines the returned value; observers such as a log statement or `len()` do not count)
                OBSERVERS = ("log::", "core::fmt::", "alloc::fmt::", "core::cmp::PartialOrd::", "core::slice::<impl [T]>::len",
                             "alloc::vec::Vec::<T, A>::len", "core::slice::<impl [T]>::is_empty", "alloc::vec::Vec::<T, A>::is_empty")
                calls = [c_ for c_ in b.calls() if callee(c_[1]) not in plumbing and not callee(c_[1]).startswith(OBSERVERS)]
                # (`clone()`, `to_vec()`, `to_owned()`, `Vec::from(..)` of the whole input are the same copy)
                if len(calls) == 1 and callee(calls[0][1]) in ("core::clone::Clone::clone", "alloc::slice::<impl [T]>::to_vec",
                                                             "alloc::borrow::ToOwned::to_owned", "core::convert::From::from",
                                                             "core::convert::Into::into") and \
                        calls[0][1]["dest"]["l"] == 0:
                    tr = Tracer(b)
                    srcs = tr.sources(calls[0][1]["args"][0], through_calls=lambda n_, t_: n_ in plumbing)
                    if srcs and all(s_[0] == "arg" and s_[1] == 1 for s_ in srcs):
                        IDENTITY_ENCODERS.add(b.id)


def _payload_is_self(tr, pt):
    f = pt.get("f") or {}
    res = (f.get("res") or {}).get("n")
    a = tr.value(pt["args"][0])
    arg_is_self = (a.kind in ("place", "ref") and a.place.l == 1)
    return res in IDENTITY_ENCODERS and arg_is_self


def _aliases(tr, b, l):
    """locals assigned `move/copy l`"""
    out = []
    for l2 in range(len(b.locals)):
        for d in tr.defs.get(l2, []):
            if d[2] == "assign" and d[3]["rv"]["r"] == "use":
                p = op_place(d[3]["rv"]["o"])
                if p is not None and not p["p"] and p["l"] == l and not d[3]["p"]["p"]:
                    out.append(l2)
    return out


def _reaches(body, a, b):
    return b in body.reachable(a) and a != b


def frame_order_deser(chk, b, inst):
    calls = list(b.calls())
    tagd = [(bb, t) for bb, t in calls if callee(t) == "zvt_builder::encoding::Encoding::decode"
            and ty_str(t["f"]["a"][1]) == "zvt_builder::Tag"]
    lend = [(bb, t) for bb, t in calls if callee(t) in ("zvt_builder::length::Length::deserialize",)]
    vald = [(bb, t) for bb, t in calls if callee(t) == "zvt_builder::encoding::Encoding::decode"
            and ty_str(t["f"]["a"][1]) != "zvt_builder::Tag"]
    if not lend:
        chk.ok("C01-d/delegates", inst, "delegates to inner deserialize_tagged", b.sp(), nontrivial=False)
        return
    good = len(lend) == 1 and len(vald) == 1 and len(tagd) <= 1
    if not chk.require(good, "C01-d/frame-shape", inst,
                       "expected one L::deserialize and one E::decode, found %d/%d" % (len(lend), len(vald)), "", b.sp()):
        return
    l_bb, v_bb = lend[0][0], vald[0][0]
    chk.require(b.dominates(l_bb, v_bb), "C01-d/read-order", inst,
                "the value is decoded before the length prefix is read", "L::deserialize dominates E::decode", b.sp())
    if tagd:
        chk.require(not _reaches(b, l_bb, tagd[0][0]), "C01-d/read-order-tag", inst,
                    "the tag is read after the length prefix", "TE::decode before L::deserialize", b.sp())


def presence_by_value(ctx, chk, prefix="C01-h"):
    """(h) A decoded field must not double as its own "seen" marker.  Pattern (all three together): a local of
    a decoder is initialised with a constant c, is assigned a decoded value, and is compared with the same c to
    steer the decoder (duplicate / missing bookkeeping).  `V == c` then means both "not seen yet" and "seen with
    value c", so the value c - which the encoder can emit - is refused or mis-ordered on the way back."""
    from discharge import VEx
    from mirlite import callee, op_place
    from expr import walk
    n = 0
    for c in (ctx.crate("zvt_builder"), ctx.crate("zvt")):
        for b in c.bodies.values():
            r = b.raw
            if (r.get("impl_trait") or r.get("in_trait")) != "zvt_builder::encoding::Encoding" or r.get("name") != "decode" or \
                    r["defkind"] != "AssocFn":
                continue
            n += 1
            vx = None
            inits = {}          # local -> set of constants it is initialised / reset to
            decoded = set()     # locals assigned from a decoder's result
            for l, ds in b.defs.items():
                if len(ds) < 2:
                    continue
                for d in ds:
                    if d[2] != "assign" or d[3]["p"]["p"]:
                        continue
                    rv = d[3]["rv"]
                    if rv["r"] == "use" and "k" in rv["o"] and isinstance(rv["o"]["k"].get("v"), int):
                        inits.setdefault(l, set()).add(rv["o"]["k"]["v"])
                    elif rv["r"] == "use" and op_place(rv["o"]) is not None:
                        vx = vx or VEx(b)
                        e = vx.rvalue(rv, d[0])
                        if any(x[0] == "call" and x[1] in ("zvt_builder::ZvtSerializerImpl::deserialize_tagged",
                                                            "zvt_builder::encoding::Encoding::decode") for x in walk(e)):
                            decoded.add(l)
                    elif rv["r"] == "call":
                        pass
                # `let v = T::default()` is a call
                for d in ds:
                    if d[2] == "call" and callee(d[3]) == "core::default::Default::default":
                        inits.setdefault(l, set()).add(0)
            cands = {l for l in decoded if l in inits}
            bad = []
            if cands:
                vx = vx or VEx(b)
                for i in sorted(b.reachable(0)):
                    t_ = b.blocks[i]["term"]
                    if t_["t"] != "switch":
                        continue
                    e = vx.operand(t_["d"], i)
                    if e[0] == "bin" and e[1] in ("Eq", "Ne"):
                        for a, k in ((e[2], e[3]), (e[3], e[2])):
                            if k[0] == "call" and k[1] == "core::default::Default::default":
                                k = ("const", 0)            # integer default
                            if a[0] == "var" and a[2] in cands and k[0] == "const" and k[1] in inits[a[2]]:
                                bad.append((a[1], k[1], t_.get("sp")))
            inst = rules_short(b.id)
            chk.require(not bad, prefix + "/presence-by-value", inst,
                        "the decoded field `%s` is also used as its own 'seen' marker (initialised to %s, assigned from the wire, "
                        "compared with %s): the legitimate value %s cannot be told from 'absent'"
                        % (bad[0][0], bad[0][1], bad[0][1], bad[0][1]) if bad else "",
                        "presence tracked separately from the value", bad[0][2] if bad else b.sp(), nontrivial=bool(cands))
    chk.floor("decoders checked for presence-by-value", n, 75)


def rules_short(bid):
    s = bid.replace("zvt_builder::encoding::", "").replace("zvt_builder::", "")
    return s if len(s) < 100 else "..." + s[-97:]


def run(ctx, chk):
    _run_own(ctx, chk)
    presence_by_value(ctx, chk)
    # (g) a value survives only if writer and reader of its length prefix agree on every form: include the
    # writer/reader agreement clauses of C16 as necessary conditions of the round trip
    import rules_c16
    from report import Sub
    # text fields: same code page both ways, decoder strips nothing but the excluded trailing NULs (shared with C17-e)
    import rules_c17
    sub_t = Sub(chk, "C01-c", lambda r: r in ("C17-e/text-pairing", "C17-e/text-codepage", "C17-e/text-trim", "C17-c/reader-total",
                                              "C17-c/pages-agree", "C17-c/two-byte-reader"))
    rules_c17.text(sub_t, [ctx.crate("zvt_builder"), ctx.crate("zvt")])
    rules_c17.tags(sub_t, [ctx.crate("zvt_builder"), ctx.crate("zvt")])
    chk.floor("text codec obligations (shared with C17-e)", sub_t.count, 4)
    # repeated fields: an element is only kept if decoding it consumed input (shared with C12-e)
    import rules_c12
    sub_v = Sub(chk, "C01-a", lambda r: r in ("C12-e/vec-item-consumed", "C12-g/optional-untagged-total", "C12-h/option-writer",
                                              "C12-h/vec-writer"))
    rules_c12.vec_items(ctx, sub_v)
    rules_c12.optional_untagged(ctx, sub_v)
    rules_c12.option_writer(ctx, sub_v)
    rules_c12.vec_writer(ctx, sub_v)
    sub = Sub(chk, "C01-g", lambda r: r.startswith(("C16-b/", "C16-d/", "C16-e/", "C16-f/")))
    rules_c16.run(ctx, sub)
    chk.floor("length-style agreement obligations (shared with C16)", sub.count, 20)
