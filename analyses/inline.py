"""MIR-lite inliner for small private helper functions.

Extracting a few lines into a private helper (or a closure-free free function) is the commonest
behaviour-preserving refactoring; every rule engine here reasons about one body at a time.  Instead of
teaching each rule about helpers, calls to *private, synchronous, non-generic, non-trait* functions of the
same crate are spliced into the caller before any analysis (depth <= 3, no recursion).  On the pinned tree
no call qualifies except the one deny-listed anchor, so the unchanged tree is analysed exactly as before.

Renumbering is purely structural over the driver's JSON: places are {"l": local, "p": [...]} (index
projections {"idx": local}), StorageDead is {"s": "dead", "l": local}, block references are the keys
to / unwind / else / resume / drop / imag and the [value, block] pairs of "targets".
"""
import copy

# functions that are analysed in place by a rule (anchors) and must not disappear into their callers
DENY = {
    "zvt::feig::sequences::convert_dir",      # C11-a/b: the id table is read from this body
}
MAX_BLOCKS = 160
MAX_DEPTH = 3
BLOCK_KEYS = ("to", "unwind", "else", "resume", "drop", "imag")


def _remap(j, lmap, bmap):
    if isinstance(j, list):
        return [_remap(x, lmap, bmap) for x in j]
    if not isinstance(j, dict):
        return j
    out = {}
    is_place = "l" in j and "p" in j and isinstance(j["p"], list)
    is_dead = j.get("s") == "dead" and "l" in j
    is_term = "t" in j and isinstance(j.get("t"), str) and j["t"] in (
        "goto", "switch", "call", "drop", "assert", "yield", "falseedge", "falseunwind", "return", "resume",
        "terminate", "unreachable", "coroutinedrop", "tailcall", "asm")
    for k, v in j.items():
        if k == "l" and (is_place or is_dead) and isinstance(v, int):
            out[k] = lmap(v)
        elif k == "idx" and isinstance(v, int):
            out[k] = lmap(v)
        elif is_term and k in BLOCK_KEYS and isinstance(v, int):
            out[k] = bmap(v)
        elif is_term and k == "targets":
            out[k] = [[val, bmap(bb)] for val, bb in v]
        elif k in ("ty", "from", "of", "dty", "fty", "f", "k"):
            out[k] = v                      # types / constants / callee refs: no locals or blocks inside
        else:
            out[k] = _remap(v, lmap, bmap)
    return out


def _subst(j, tmap):
    """Replace generic type parameters {"k": "param", "n": X} (anywhere: local types, callee generic
    arguments, unevaluated constants) by the caller's type arguments."""
    if isinstance(j, list):
        return [_subst(x, tmap) for x in j]
    if not isinstance(j, dict):
        return j
    if j.get("k") == "param" and j.get("n") in tmap and len(j) <= 3:
        return copy.deepcopy(tmap[j["n"]])
    return {k: _subst(v, tmap) for k, v in j.items()}


def _callee_name(t):
    f = t.get("f") or {}
    res = f.get("res") or {}
    if res.get("kind") == "item" and res.get("n"):
        return res["n"]
    return f.get("n")


def eligible(raw, by_id):
    if raw is None or raw["defkind"] not in ("Fn", "AssocFn"):
        return False
    if raw.get("impl_trait") or raw.get("in_trait"):
        return False
    if raw["id"] in DENY or "mock_inner" in raw["id"] or "::test" in raw["id"]:
        return False
    if raw.get("vis", "Public") == "Public":
        return False
    if raw.get("coroutine_kind"):
        return False
    inner = by_id.get(raw["id"] + "::{closure#0}")
    if inner is not None and str(inner.get("coroutine_kind", "")).startswith("Desugared(Async"):
        return False                        # async fn: the call only builds a future
    if len(raw["blocks"]) > MAX_BLOCKS:
        return False
    # a helper that itself suspends cannot be spliced
    return not any(b["term"]["t"] in ("yield", "coroutinedrop", "tailcall", "asm") for b in raw["blocks"])


def inline_crate(bodies):
    """bodies: list of raw body dicts of one crate (modified in place).  Returns {caller id: [callee ids]}."""
    by_id = {b["id"]: b for b in bodies}
    pristine = {}
    done = {}

    def original(cid):
        if cid not in pristine:
            pristine[cid] = copy.deepcopy(by_id[cid])
        return pristine[cid]
    # freeze the helpers first so that a helper inlined into another is taken in its original form
    for b in bodies:
        if eligible(b, by_id):
            original(b["id"])
    for caller in bodies:
        if "mock_inner" in caller["id"]:
            continue
        # worklist of (block index, depth, stack of callee ids)
        work = [(i, 0, (caller["id"],)) for i in range(len(caller["blocks"]))]
        while work:
            i, depth, stack = work.pop()
            t = caller["blocks"][i]["term"]
            if t["t"] != "call" or t.get("to") is None:
                continue
            cn = _callee_name(t)
            if cn is None or cn not in pristine or cn in stack or depth >= MAX_DEPTH:
                continue
            h = pristine[cn]
            targs = (t.get("f") or {}).get("a") or []
            tmap = None
            if targs:
                # generic helper: instantiate its type parameters positionally (driver emits the names in
                # substitution order, lifetimes skipped on both sides)
                gens = h.get("generics")
                if gens is None or len(gens) != len(targs):
                    continue
                tmap = dict(zip(gens, targs))
            argc = h.get("arg_count", 0)
            if len(t["args"]) != argc:
                continue
            loff = len(caller["locals"])
            boff = len(caller["blocks"])
            for k, loc in enumerate(h["locals"]):
                nl = copy.deepcopy(loc)
                nl["inlined_from"] = cn
                caller["locals"].append(nl)
            lmap = lambda l, o=loff: l + o
            bmap = lambda b_, o=boff: b_ + o
            dest, cont = t["dest"], t["to"]
            if tmap:
                for nl in caller["locals"][loff:]:
                    nl["ty"] = _subst(nl.get("ty"), tmap)
            for k, blk in enumerate(h["blocks"]):
                nb = _remap(blk, lmap, bmap)
                if tmap:
                    nb = _subst(nb, tmap)
                if nb["term"]["t"] == "return":
                    nb["stmts"].append({"s": "assign", "p": copy.deepcopy(dest),
                                        "rv": {"r": "use", "o": {"m": {"l": loff, "p": []}}},
                                        "sp": t.get("sp"), "inl": cn})
                    nb["term"] = {"t": "goto", "to": cont, "sp": t.get("sp")}
                caller["blocks"].append(nb)
                work.append((boff + k, depth + 1, stack + (cn,)))
            blk = caller["blocks"][i]
            for k, a in enumerate(t["args"]):
                blk["stmts"].append({"s": "assign", "p": {"l": loff + 1 + k, "p": []},
                                     "rv": {"r": "use", "o": copy.deepcopy(a)}, "sp": t.get("sp"), "inl": cn})
            blk["term"] = {"t": "goto", "to": boff, "sp": t.get("sp"), "inlined_call": cn}
            done.setdefault(caller["id"], []).append(cn)
    return done
