"""MIR-lite inliner for small private helper functions.

Extracting a few lines into a private helper (or a closure-free free function) is the commonest
behaviour-preserving refactoring; every rule engine here reasons about one body at a time.  Instead of
teaching each rule about helpers, calls to *private, synchronous, non-generic, non-trait* functions of the
same crate are spliced into the caller before any analysis (depth <= 3, no recursion).  On the pinned tree
no call qualifies except the one deny-listed anchor, so the unchanged tree is analysed exactly as before.

Renumbering is purely structural over the driver's JSON: places are {"l": local, "p": [...]} (index
projections {"idx": local}), StorageDead is {"s": "dead", "l": local}, block references are the keys
to / unwind / else / resume / drop / imag and the [value, block] pairs of "targets".
"""
import copy

# functions that are analysed in place by a rule (anchors) and must not disappear into their callers
DENY = {
    "zvt::feig::sequences::convert_dir",      # C11-a/b: the id table is read from this body
}
MAX_BLOCKS = 160
MAX_ASYNC_BLOCKS = 700
MAX_DEPTH = 3
# private async functions that exist on the pinned tree: the client rules analyse them in place, by name
DENY_ASYNC = {
    "zvt_feig_terminal::feig::Feig::" + n for n in (
        "get_system_info", "set_terminal_id", "initialize", "get_pending", "cancel_pending", "end_of_day",
        "cancel_transaction_by_receipt_no")
}
POLL = "core::future::future::Future::poll"
BLOCK_KEYS = ("to", "unwind", "else", "resume", "drop", "imag")


def _remap(j, lmap, bmap):
    if isinstance(j, list):
        return [_remap(x, lmap, bmap) for x in j]
    if not isinstance(j, dict):
        return j
    out = {}
    is_place = "l" in j and "p" in j and isinstance(j["p"], list)
    is_dead = j.get("s") == "dead" and "l" in j
    is_term = "t" in j and isinstance(j.get("t"), str) and j["t"] in (
        "goto", "switch", "call", "drop", "assert", "yield", "falseedge", "falseunwind", "return", "resume",
        "terminate", "unreachable", "coroutinedrop", "tailcall", "asm")
    for k, v in j.items():
        if k == "l" and (is_place or is_dead) and isinstance(v, int):
            out[k] = lmap(v)
        elif k == "idx" and isinstance(v, int):
            out[k] = lmap(v)
        elif is_term and k in BLOCK_KEYS and isinstance(v, int):
            out[k] = bmap(v)
        elif is_term and k == "targets":
            out[k] = [[val, bmap(bb)] for val, bb in v]
        elif k in ("ty", "from", "of", "dty", "fty", "f", "k"):
            out[k] = v                      # types / constants / callee refs: no locals or blocks inside
        else:
            out[k] = _remap(v, lmap, bmap)
    return out


def _subst(j, tmap):
    """Replace generic type parameters {"k": "param", "n": X} (anywhere: local types, callee generic
    arguments, unevaluated constants) by the caller's type arguments."""
    if isinstance(j, list):
        return [_subst(x, tmap) for x in j]
    if not isinstance(j, dict):
        return j
    if j.get("k") == "param" and j.get("n") in tmap and len(j) <= 3:
        return copy.deepcopy(tmap[j["n"]])
    return {k: _subst(v, tmap) for k, v in j.items()}


def _callee_name(t):
    f = t.get("f") or {}
    res = f.get("res") or {}
    if res.get("kind") == "item" and res.get("n"):
        return res["n"]
    return f.get("n")


def eligible(raw, by_id):
    if raw is None or raw["defkind"] not in ("Fn", "AssocFn"):
        return False
    if raw.get("impl_trait") or raw.get("in_trait"):
        return False
    if raw["id"] in DENY or "mock_inner" in raw["id"] or "::test" in raw["id"]:
        return False
    if raw.get("vis", "Public") == "Public":
        return False
    if raw.get("coroutine_kind"):
        return False
    inner = by_id.get(raw["id"] + "::{closure#0}")
    if inner is not None and str(inner.get("coroutine_kind", "")).startswith("Desugared(Async"):
        return False                        # async fn: the call only builds a future
    if len(raw["blocks"]) > MAX_BLOCKS:
        return False
    # a helper that itself suspends cannot be spliced
    return not any(b["term"]["t"] in ("yield", "coroutinedrop", "tailcall", "asm") for b in raw["blocks"])


def inline_crate(bodies):
    """bodies: list of raw body dicts of one crate (modified in place).  Returns {caller id: [callee ids]}."""
    by_id = {b["id"]: b for b in bodies}
    pristine = {}
    done = {}

    def original(cid):
        if cid not in pristine:
            pristine[cid] = copy.deepcopy(by_id[cid])
        return pristine[cid]
    # freeze the helpers first so that a helper inlined into another is taken in its original form
    for b in bodies:
        if eligible(b, by_id):
            original(b["id"])
    for caller in bodies:
        if "mock_inner" in caller["id"]:
            continue
        # worklist of (block index, depth, stack of callee ids)
        work = [(i, 0, (caller["id"],)) for i in range(len(caller["blocks"]))]
        while work:
            i, depth, stack = work.pop()
            t = caller["blocks"][i]["term"]
            if t["t"] != "call" or t.get("to") is None:
                continue
            cn = _callee_name(t)
            if cn is None or cn not in pristine or cn in stack or depth >= MAX_DEPTH:
                continue
            h = pristine[cn]
            targs = (t.get("f") or {}).get("a") or []
            tmap = None
            if targs:
                # generic helper: instantiate its type parameters positionally (driver emits the names in
                # substitution order, lifetimes skipped on both sides)
                gens = h.get("generics")
                if gens is None or len(gens) != len(targs):
                    continue
                tmap = dict(zip(gens, targs))
            argc = h.get("arg_count", 0)
            if len(t["args"]) != argc:
                continue
            loff = len(caller["locals"])
            boff = len(caller["blocks"])
            for k, loc in enumerate(h["locals"]):
                nl = copy.deepcopy(loc)
                nl["inlined_from"] = cn
                caller["locals"].append(nl)
            lmap = lambda l, o=loff: l + o
            bmap = lambda b_, o=boff: b_ + o
            dest, cont = t["dest"], t["to"]
            if tmap:
                for nl in caller["locals"][loff:]:
                    nl["ty"] = _subst(nl.get("ty"), tmap)
            for k, blk in enumerate(h["blocks"]):
                nb = _remap(blk, lmap, bmap)
                if tmap:
                    nb = _subst(nb, tmap)
                if nb["term"]["t"] == "return":
                    nb["stmts"].append({"s": "assign", "p": copy.deepcopy(dest),
                                        "rv": {"r": "use", "o": {"m": {"l": loff, "p": []}}},
                                        "sp": t.get("sp"), "inl": cn})
                    nb["term"] = {"t": "goto", "to": cont, "sp": t.get("sp")}
                caller["blocks"].append(nb)
                work.append((boff + k, depth + 1, stack + (cn,)))
            blk = caller["blocks"][i]
            for k, a in enumerate(t["args"]):
                blk["stmts"].append({"s": "assign", "p": {"l": loff + 1 + k, "p": []},
                                     "rv": {"r": "use", "o": copy.deepcopy(a)}, "sp": t.get("sp"), "inl": cn})
            blk["term"] = {"t": "goto", "to": boff, "sp": t.get("sp"), "inlined_call": cn}
            done.setdefault(caller["id"], []).append(cn)
    _mark_absorbed(bodies, {c for v in done.values() for c in v})
    return done


def _mark_absorbed(bodies, helper_ids):
    """A private helper whose every call was spliced into its callers is fully accounted for there: flag its
    own body (and nested closures / coroutine) so that whole-crate rules do not see the code twice."""
    if not helper_ids:
        return
    still_called = set()
    for b in bodies:
        if b.get("absorbed"):
            continue
        for blk in b["blocks"]:
            t = blk["term"]
            if t["t"] == "call":
                n = _callee_name(t)
                if n in helper_ids and not (b["id"] == n or b["id"].startswith(n + "::")):
                    still_called.add(n)
    for b in bodies:
        for h in helper_ids - still_called:
            if b["id"] == h or b["id"].startswith(h + "::"):
                b["absorbed"] = True


# ---------------------------------------------------------------- private async helpers
def async_eligible(raw, by_id):
    """raw: the outer body of an `async fn`.  Returns its coroutine body if the function is a private,
    non-trait async helper that did not exist on the pinned tree."""
    if raw is None or raw["defkind"] not in ("Fn", "AssocFn"):
        return None
    if raw.get("impl_trait") or raw.get("in_trait") or raw["id"] in DENY_ASYNC:
        return None
    if "mock_inner" in raw["id"] or "::test" in raw["id"] or raw.get("vis", "Public") == "Public":
        return None
    inner = by_id.get(raw["id"] + "::{closure#0}")
    if inner is None or not str(inner.get("coroutine_kind", "")).startswith("Desugared(Async"):
        return None
    if len(inner["blocks"]) > MAX_ASYNC_BLOCKS:
        return None
    return inner


def _single_defs(body):
    d = {}
    for i, blk in enumerate(body["blocks"]):
        for st in blk["stmts"]:
            if st.get("s") == "assign" and not st["p"]["p"]:
                d.setdefault(st["p"]["l"], []).append(("assign", i, st))
        t = blk["term"]
        if t["t"] == "call" and not t["dest"]["p"]:
            d.setdefault(t["dest"]["l"], []).append(("call", i, t))
    return d


def _op_local(o):
    for k in ("c", "m"):
        if k in o:
            return o[k]["l"] if not [e for e in o[k]["p"] if e != "deref"] else None
    return None


def _chase_future(body, defs, local, eligible, depth=0):
    """Follow pin/ref/move/into_future plumbing from the operand of Future::poll back to the call that
    created the future.  -> (block, terminator) or None."""
    while depth < 12:
        depth += 1
        ds = defs.get(local, [])
        if len(ds) != 1:
            return None
        kind, bb, x = ds[0]
        if kind == "assign":
            rv = x["rv"]
            if rv["r"] == "use":
                local = _op_local(rv["o"])
            elif rv["r"] in ("ref", "rawptr"):
                if [e for e in rv["p"]["p"] if e != "deref"]:
                    return None
                local = rv["p"]["l"]
            else:
                return None
            if local is None:
                return None
            continue
        n = _callee_name(x)
        if n in eligible:
            return bb, x
        raw_n = (x.get("f") or {}).get("n")
        if raw_n in ("core::pin::Pin::<Ptr>::new_unchecked", "core::future::into_future::IntoFuture::into_future") and x["args"]:
            local = _op_local(x["args"][0])
            if local is None:
                return None
            continue
        return None
    return None


def inline_async(bodies):
    by_id = {b["id"]: b for b in bodies}
    eligible = {}
    for b in bodies:
        inner = async_eligible(b, by_id)
        if inner is not None:
            eligible[b["id"]] = (copy.deepcopy(b), copy.deepcopy(inner))
    done = {}
    if not eligible:
        return done
    for caller in bodies:
        if "mock_inner" in caller["id"] or not caller.get("coroutine_kind"):
            continue
        rounds = 0
        progress = True
        while progress and rounds < MAX_DEPTH:
            progress = False
            rounds += 1
            defs = _single_defs(caller)
            for i in range(len(caller["blocks"])):
                pt = caller["blocks"][i]["term"]
                if pt["t"] != "call" or (pt.get("f") or {}).get("n") != POLL or pt.get("to") is None or not pt["args"]:
                    continue
                pin = _op_local(pt["args"][0])
                if pin is None:
                    continue
                found = _chase_future(caller, defs, pin, eligible)
                if found is None:
                    continue
                cbb, ct = found
                cn = _callee_name(ct)
                if cn == caller.get("root") or caller["id"].startswith(cn + "::"):
                    continue                        # recursion
                outer, inner = eligible[cn]
                targs = (ct.get("f") or {}).get("a") or []
                tmap = None
                if targs:
                    gens = outer.get("generics")
                    if gens is None or len(gens) != len(targs):
                        continue
                    tmap = dict(zip(gens, targs))
                argc = outer.get("arg_count", 0)
                if len(ct["args"]) != argc:
                    continue
                # upvar k of the coroutine = parameter k+1 of the async fn (checked on the outer body)
                order = None
                for blk in outer["blocks"]:
                    for st in blk["stmts"]:
                        if st.get("s") == "assign" and st["p"]["l"] == 0 and st["rv"]["r"] == "agg" and st["rv"].get("kind") == "coroutine":
                            order = [_op_local(o) for o in st["rv"]["ops"]]
                if order is None or any(o is None or not (1 <= o <= argc) for o in order):
                    continue
                # ---- captured arguments: fresh locals assigned where the future was created
                ubase = len(caller["locals"])
                for k in range(argc):
                    nl = copy.deepcopy(outer["locals"][1 + k])
                    if tmap:
                        nl["ty"] = _subst(nl.get("ty"), tmap)
                    nl["inlined_from"] = cn
                    caller["locals"].append(nl)
                cblk = caller["blocks"][cbb]
                for k, a in enumerate(ct["args"]):
                    cblk["stmts"].append({"s": "assign", "p": {"l": ubase + k, "p": []},
                                          "rv": {"r": "use", "o": copy.deepcopy(a)}, "sp": ct.get("sp"), "inl": cn})
                cblk["term"] = {"t": "goto", "to": ct["to"], "sp": ct.get("sp"), "inlined_call": cn}
                upvar_local = [ubase + (p_ - 1) for p_ in order]
                # ---- the coroutine body replaces the poll
                loff = len(caller["locals"])
                boff = len(caller["blocks"])
                for loc in inner["locals"]:
                    nl = copy.deepcopy(loc)
                    if tmap:
                        nl["ty"] = _subst(nl.get("ty"), tmap)
                    nl["inlined_from"] = cn
                    caller["locals"].append(nl)

                def lmap(l, o=loff):
                    return 2 if l == 2 else l + o       # the task context is the caller's

                def bmap(b_, o=boff):
                    return b_ + o
                dest = pt["dest"]
                ready_t = pt["to"]
                nb0 = caller["blocks"][pt["to"]]
                if nb0["term"]["t"] == "switch":
                    for val, tb in nb0["term"]["targets"]:
                        if val == 0:
                            ready_t = None if any(st.get("s") == "assign" and st["p"]["l"] != nb0["term"]["d"].get("m", nb0["term"]["d"].get("c", {})).get("l")
                                                  for st in nb0["stmts"]) else tb
                    if ready_t is None:
                        ready_t = pt["to"]
                for k, blk in enumerate(inner["blocks"]):
                    nb = _remap(blk, lmap, bmap)
                    if tmap:
                        nb = _subst(nb, tmap)
                    nb = _env_places(nb, loff + 1, upvar_local)
                    if nb["term"]["t"] == "return":
                        nb["stmts"].append({"s": "assign", "p": copy.deepcopy(dest),
                                            "rv": {"r": "agg", "kind": "adt", "n": "core::task::poll::Poll", "a": [],
                                                   "variant": 0, "vname": "Ready", "fields": ["0"],
                                                   "ops": [{"m": {"l": loff, "p": []}}]},
                                            "sp": pt.get("sp"), "inl": cn})
                        nb["term"] = {"t": "goto", "to": ready_t, "sp": pt.get("sp")}
                    caller["blocks"].append(nb)
                caller["blocks"][i]["term"] = {"t": "goto", "to": boff, "sp": pt.get("sp"), "inlined_call": cn}
                done.setdefault(caller["id"], []).append(cn)
                progress = True
                break           # block / local tables changed: recompute the definitions
    _mark_absorbed(bodies, {c for v in done.values() for c in v})
    return done


def _env_places(j, env_local, upvar_local):
    """Rewrite `(_env.k).rest` (captured variable k of the inlined coroutine) to the fresh local that holds
    the corresponding argument."""
    if isinstance(j, list):
        return [_env_places(x, env_local, upvar_local) for x in j]
    if not isinstance(j, dict):
        return j
    if "l" in j and "p" in j and isinstance(j["p"], list) and j["l"] == env_local:
        proj = list(j["p"])
        k = 0
        while k < len(proj) and proj[k] == "deref":
            k += 1
        if k < len(proj) and isinstance(proj[k], dict) and "f" in proj[k] and proj[k]["f"] < len(upvar_local):
            return {"l": upvar_local[proj[k]["f"]], "p": [_env_places(x, env_local, upvar_local) for x in proj[k + 1:]]}
        return j
    return {k_: (v if k_ in ("ty", "from", "of", "dty", "fty", "f", "k") else _env_places(v, env_local, upvar_local)) for k_, v in j.items()}
