"""MIR-lite inliner for small private helper functions.

Extracting a few lines into a private helper (or a closure-free free function) is the commonest
behaviour-preserving refactoring; every rule engine here reasons about one body at a time.  Instead of
teaching each rule about helpers, calls to *private, synchronous, non-generic, non-trait* functions of the
same crate are spliced into the caller before any analysis (depth <= 3, no recursion).  On the pinned tree
no call qualifies except the one deny-listed anchor, so the unchanged tree is analysed exactly as before.

Renumbering is purely structural over the driver's JSON: places are {"l": local, "p": [...]} (index
projections {"idx": local}), StorageDead is {"s": "dead", "l": local}, block references are the keys
to / unwind / else / resume / drop / imag and the [value, block] pairs of "targets".
"""
import copy
import json

# functions that are analysed in place by a rule (anchors) and must not disappear into their callers
DENY = {
    "zvt::feig::sequences::convert_dir",      # C11-a/b: the id table is read from this body
}
MAX_BLOCKS = 160
CONVERSION_TRAITS = ("core::convert::From",)
MAX_ASYNC_BLOCKS = 700
MAX_DEPTH = 3
# private async functions that exist on the pinned tree: the client rules analyse them in place, by name
DENY_ASYNC = {
    "zvt_feig_terminal::feig::Feig::" + n for n in (
        "get_system_info", "set_terminal_id", "initialize", "get_pending", "cancel_pending", "end_of_day",
        "cancel_transaction_by_receipt_no")
}
POLL = "core::future::future::Future::poll"
BLOCK_KEYS = ("to", "unwind", "else", "resume", "drop", "imag")


def _remap(j, lmap, bmap):
    if isinstance(j, list):
        return [_remap(x, lmap, bmap) for x in j]
    if not isinstance(j, dict):
        return j
    out = {}
    is_place = "l" in j and "p" in j and isinstance(j["p"], list)
    is_dead = j.get("s") == "dead" and "l" in j
    is_term = "t" in j and isinstance(j.get("t"), str) and j["t"] in (
        "goto", "switch", "call", "drop", "assert", "yield", "falseedge", "falseunwind", "return", "resume",
        "terminate", "unreachable", "coroutinedrop", "tailcall", "asm")
    for k, v in j.items():
        if k == "l" and (is_place or is_dead) and isinstance(v, int):
            out[k] = lmap(v)
        elif k == "idx" and isinstance(v, int):
            out[k] = lmap(v)
        elif is_term and k in BLOCK_KEYS and isinstance(v, int):
            out[k] = bmap(v)
        elif is_term and k == "targets":
            out[k] = [[val, bmap(bb)] for val, bb in v]
        elif k in ("ty", "from", "of", "dty", "fty", "f", "k"):
            out[k] = v                      # types / constants / callee refs: no locals or blocks inside
        else:
            out[k] = _remap(v, lmap, bmap)
    return out


def _subst(j, tmap):
    """Replace generic type parameters {"k": "param", "n": X} (anywhere: local types, callee generic
    arguments, unevaluated constants) by the caller's type arguments."""
    if isinstance(j, list):
        return [_subst(x, tmap) for x in j]
    if not isinstance(j, dict):
        return j
    if j.get("k") == "param" and j.get("n") in tmap and len(j) <= 3:
        return copy.deepcopy(tmap[j["n"]])
    return {k: _subst(v, tmap) for k, v in j.items()}


def _callee_name(t):
    f = t.get("f") or {}
    res = f.get("res") or {}
    if res.get("kind") == "item" and res.get("n"):
        return res["n"]
    return f.get("n")


def eligible(raw, by_id):
    if raw is None or raw["defkind"] not in ("Fn", "AssocFn"):
        return False
    if raw.get("in_trait"):
        return False
    if raw.get("impl_trait"):
        # trait impls are analysed in place (codecs, parsers, sequences) - except plain value conversions of
        # the workspace's own types: `impl From<Reply> for Summary` is a helper function by another name
        if raw.get("impl_trait") not in CONVERSION_TRAITS:
            return False
    if raw["id"] in DENY or "mock_inner" in raw["id"] or "::test" in raw["id"]:
        return False
    if raw.get("vis", "Public") == "Public" and raw.get("impl_trait") not in CONVERSION_TRAITS:
        return False
    if raw.get("coroutine_kind"):
        return False
    inner = by_id.get(raw["id"] + "::{closure#0}")
    if inner is not None and str(inner.get("coroutine_kind", "")).startswith("Desugared(Async"):
        return False                        # async fn: the call only builds a future
    if len(raw["blocks"]) > MAX_BLOCKS:
        return False
    # a helper that itself suspends cannot be spliced
    return not any(b["term"]["t"] in ("yield", "coroutinedrop", "tailcall", "asm") for b in raw["blocks"])


def inline_crate(bodies):
    """bodies: list of raw body dicts of one crate (modified in place).  Returns {caller id: [callee ids]}."""
    by_id = {b["id"]: b for b in bodies}
    pristine = {}
    done = {}

    def original(cid):
        if cid not in pristine:
            pristine[cid] = copy.deepcopy(by_id[cid])
        return pristine[cid]
    # freeze the helpers first so that a helper inlined into another is taken in its original form
    for b in bodies:
        if eligible(b, by_id):
            original(b["id"])
    from_impls = {}
    for b in bodies:
        if b.get("impl_trait") == "core::convert::From" and b["id"] in pristine and b.get("name") == "from" and \
                not (b.get("generics") or []) and len(b.get("impl_trait_args") or []) > 1:
            from_impls[(json.dumps(b.get("impl_self"), sort_keys=True), json.dumps(b["impl_trait_args"][1], sort_keys=True))] = b["id"]
    for caller in bodies:
        if "mock_inner" in caller["id"]:
            continue
        # worklist of (block index, depth, stack of callee ids)
        work = [(i, 0, (caller["id"],)) for i in range(len(caller["blocks"]))]
        while work:
            i, depth, stack = work.pop()
            t = caller["blocks"][i]["term"]
            if t["t"] != "call" or t.get("to") is None:
                continue
            cn = _callee_name(t)
            targs = (t.get("f") or {}).get("a") or []
            if (t.get("f") or {}).get("n") == "core::convert::Into::into" and len(targs) == 2:
                # `x.into()` is `U::from(x)`: the blanket impl only forwards
                cn = from_impls.get((json.dumps(targs[1], sort_keys=True), json.dumps(targs[0], sort_keys=True)))
                targs = []
            elif cn in pristine and pristine[cn].get("impl_trait") in CONVERSION_TRAITS:
                targs = []          # generic arguments of the trait call are those of the impl header, not of the method
            if cn is None or cn not in pristine or cn in stack or depth >= MAX_DEPTH:
                continue
            h = pristine[cn]
            tmap = None
            if targs:
                # generic helper: instantiate its type parameters positionally (driver emits the names in
                # substitution order, lifetimes skipped on both sides)
                gens = h.get("generics")
                if gens is None or len(gens) != len(targs):
                    continue
                tmap = dict(zip(gens, targs))
            argc = h.get("arg_count", 0)
            if len(t["args"]) != argc:
                continue
            loff = len(caller["locals"])
            boff = len(caller["blocks"])
            for k, loc in enumerate(h["locals"]):
                nl = copy.deepcopy(loc)
                nl["inlined_from"] = cn
                caller["locals"].append(nl)
            lmap = lambda l, o=loff: l + o
            bmap = lambda b_, o=boff: b_ + o
            dest, cont = t["dest"], t["to"]
            if tmap:
                for nl in caller["locals"][loff:]:
                    nl["ty"] = _subst(nl.get("ty"), tmap)
            for k, blk in enumerate(h["blocks"]):
                nb = _remap(blk, lmap, bmap)
                if tmap:
                    nb = _subst(nb, tmap)
                if nb["term"]["t"] == "return":
                    nb["stmts"].append({"s": "assign", "p": copy.deepcopy(dest),
                                        "rv": {"r": "use", "o": {"m": {"l": loff, "p": []}}},
                                        "sp": t.get("sp"), "inl": cn})
                    nb["term"] = {"t": "goto", "to": cont, "sp": t.get("sp")}
                caller["blocks"].append(nb)
                work.append((boff + k, depth + 1, stack + (cn,)))
            blk = caller["blocks"][i]
            for k, a in enumerate(t["args"]):
                blk["stmts"].append({"s": "assign", "p": {"l": loff + 1 + k, "p": []},
                                     "rv": {"r": "use", "o": copy.deepcopy(a)}, "sp": t.get("sp"), "inl": cn})
            blk["term"] = {"t": "goto", "to": boff, "sp": t.get("sp"), "inlined_call": cn}
            done.setdefault(caller["id"], []).append(cn)
    _mark_absorbed(bodies, {c for v in done.values() for c in v})
    return done


def _mark_absorbed(bodies, helper_ids):
    """A private helper whose every call was spliced into its callers is fully accounted for there: flag its
    own body (and nested closures / coroutine) so that whole-crate rules do not see the code twice."""
    if not helper_ids:
        return
    still_called = set()
    for b in bodies:
        if b.get("absorbed"):
            continue
        for blk in b["blocks"]:
            t = blk["term"]
            if t["t"] == "call":
                n = _callee_name(t)
                if n in helper_ids and not (b["id"] == n or b["id"].startswith(n + "::")):
                    still_called.add(n)
    for b in bodies:
        for h in helper_ids - still_called:
            if b["id"] == h or b["id"].startswith(h + "::"):
                b["absorbed"] = True


# ---------------------------------------------------------------- one generic stream body shared by several sequences
SEQ_TRAIT = "zvt::sequences::Sequence"


def specialise_sequence_helpers(bodies):
    """`fn into_stream(..) { reply_loop(input, src, |p| matches!(p, Final(..))) }`: several sequences share one generic
    stream body that is told by a predicate when to stop.  The rules read one stream body per sequence; this pass gives
    each such sequence its own copy of the shared body - type parameters replaced by the call's type arguments, the call
    of the predicate replaced by the predicate's body - which is what monomorphisation and inlining make of it anyway.
    -> {sequence into_stream id: helper id}"""
    by_id = {b["id"]: b for b in bodies}
    done = {}
    for f in list(bodies):
        if not (f.get("defkind") == "AssocFn" and f.get("name") == "into_stream" and f.get("impl_trait") == SEQ_TRAIT):
            continue
        if any(b.get("coroutine_kind") and b["id"].startswith(f["id"] + "::") for b in bodies):
            continue                                    # it has a stream body of its own
        calls = [(i, blk["term"]) for i, blk in enumerate(f["blocks"]) if blk["term"]["t"] == "call" and not blk.get("cleanup")]
        helper = [(i, t) for i, t in calls if (t.get("f") or {}).get("n") in by_id and
                  by_id.get(t["f"]["n"] + "::{closure#0}", {}).get("coroutine_kind")]
        if len(helper) != 1:
            continue
        ci, ct = helper[0]
        h = by_id[ct["f"]["n"]]
        co = by_id[ct["f"]["n"] + "::{closure#0}"]
        gens = h.get("generics") or []
        targs = ct["f"].get("a") or []
        if len(gens) != len(targs):
            continue
        tmap = dict(zip(gens, targs))
        # the predicate argument: a (non-capturing) closure or fn item turned into a fn pointer
        defs = {}
        for blk in f["blocks"]:
            for st in blk["stmts"]:
                if st.get("s") == "assign" and not st["p"]["p"]:
                    defs.setdefault(st["p"]["l"], []).append(st)
        pred = None
        pred_pos = None
        pred_item = None
        for k, a in enumerate(ct["args"]):
            if "k" in a and isinstance(a["k"], dict) and isinstance(a["k"].get("fn"), dict):
                pred_item, pred_pos = a["k"]["fn"], k          # a function item (`Reply::closes_sequence`) as the predicate
                continue
            l = _bare_local(a) if "k" not in a else None
            hops = 0
            while l is not None and hops < 4:
                hops += 1
                ds = defs.get(l, [])
                if len(ds) != 1:
                    break
                rv = ds[0]["rv"]
                if rv["r"] == "cast" and "k" not in rv["o"]:
                    l = _bare_local(rv["o"])
                    continue
                if rv["r"] == "use" and "k" not in rv["o"]:
                    l = _bare_local(rv["o"])
                    continue
                if rv["r"] == "agg" and rv.get("kind") == "closure" and rv.get("n") in by_id and not rv.get("ops"):
                    pred, pred_pos = by_id[rv["n"]], k
                if rv["r"] in ("use", "cast") and "k" in rv["o"] and isinstance(rv["o"]["k"], dict) and isinstance(rv["o"]["k"].get("fn"), dict):
                    pred_item, pred_pos = rv["o"]["k"]["fn"], k         # (`Reply::is_last as fn(&Reply) -> bool`)
                break
        if pred is not None:
            pred_item = None
        if pred is None and pred_item is None:
            continue
        if pred is not None and (pred.get("coroutine_kind") or len(pred["blocks"]) > MAX_CLOSURE_BLOCKS):
            continue
        # which captured variable of the shared body is the predicate: parameter k of the helper = upvar of that name
        pname = (h["locals"][1 + pred_pos] or {}).get("name") if 1 + pred_pos < len(h["locals"]) else None
        ups = co.get("upvars") or []
        uidx = [u["p"]["p"][0]["f"] for u in ups if u.get("name") == pname and u["p"]["p"] and isinstance(u["p"]["p"][0], dict) and "f" in u["p"]["p"][0]]
        if pname is None or len(uidx) != 1:
            continue
        uidx = uidx[0]
        c = _subst(copy.deepcopy(co), tmap)
        # indirect calls through that captured fn pointer
        cdefs = {}
        for blk in c["blocks"]:
            for st in blk["stmts"]:
                if st.get("s") == "assign" and not st["p"]["p"]:
                    cdefs.setdefault(st["p"]["l"], []).append(st)
        sites = []
        ok = True
        for i, blk in enumerate(c["blocks"]):
            t = blk["term"]
            if t["t"] != "call" or "fop" not in t:
                continue
            l = _bare_local(t["fop"])
            ds = cdefs.get(l, []) if l is not None else []
            src = ds[0]["rv"]["o"] if len(ds) == 1 and ds[0]["rv"]["r"] == "use" else None
            pl = _place_of(src) if src is not None else None
            fs = [e for e in (pl["p"] if pl else []) if e != "deref"]
            if pl is not None and pl["l"] == 1 and len(fs) == 1 and isinstance(fs[0], dict) and fs[0].get("f") == uidx:
                sites.append(i)
            else:
                ok = False
        if not ok or not sites:
            continue
        c["id"] = f["id"] + "::{shared stream body}"
        c["root"] = f["id"]
        c["parent"] = f["id"]
        for key in ("impl_trait", "impl_self", "impl_trait_args", "name"):
            if key in f:
                c[key] = copy.deepcopy(f[key])
        c["specialised_from"] = co["id"]
        lw = _Lower(c, by_id)
        stub = {"rv": {"ops": []}}
        try:
            for i in sites:
                t = c["blocks"][i]["term"]
                res = t["dest"]
                if res["p"]:
                    raise _NoLower()
                if pred is not None:
                    entry = lw.emit_call(("closure", pred, stub), t["args"], res["l"], t["to"], t.get("sp"), t.get("unwind"))
                    c["blocks"][i]["term"] = {"t": "goto", "to": entry, "sp": t.get("sp"), "inlined_call": pred["id"]}
                else:
                    # the predicate is a named function: the indirect call becomes a direct call of it (a private helper is
                    # then spliced in by the ordinary helper inlining)
                    nt = {"t": "call", "f": copy.deepcopy(pred_item), "args": copy.deepcopy(t["args"]), "dest": copy.deepcopy(res),
                          "to": t["to"], "unwind": t.get("unwind"), "sp": t.get("sp"), "fn_sp": t.get("sp")}
                    c["blocks"][i]["term"] = nt
        except _NoLower:
            continue
        bodies.append(c)
        by_id[c["id"]] = c
        done[f["id"]] = h["id"]
    return done


# ---------------------------------------------------------------- private async helpers
def async_eligible(raw, by_id):
    """raw: the outer body of an `async fn`.  Returns its coroutine body if the function is a private,
    non-trait async helper that did not exist on the pinned tree."""
    if raw is None or raw["defkind"] not in ("Fn", "AssocFn"):
        return None
    if raw.get("impl_trait") or raw.get("in_trait") or raw["id"] in DENY_ASYNC:
        return None
    if "mock_inner" in raw["id"] or "::test" in raw["id"] or raw.get("vis", "Public") == "Public":
        return None
    inner = by_id.get(raw["id"] + "::{closure#0}")
    if inner is None or not str(inner.get("coroutine_kind", "")).startswith("Desugared(Async"):
        return None
    if len(inner["blocks"]) > MAX_ASYNC_BLOCKS:
        return None
    return inner


def _single_defs(body):
    d = {}
    for i, blk in enumerate(body["blocks"]):
        for st in blk["stmts"]:
            if st.get("s") == "assign" and not st["p"]["p"]:
                d.setdefault(st["p"]["l"], []).append(("assign", i, st))
        t = blk["term"]
        if t["t"] == "call" and not t["dest"]["p"]:
            d.setdefault(t["dest"]["l"], []).append(("call", i, t))
    return d


def _op_local(o):
    for k in ("c", "m"):
        if k in o:
            return o[k]["l"] if not [e for e in o[k]["p"] if e != "deref"] else None
    return None


def _chase_future(body, defs, local, eligible, depth=0):
    """Follow pin/ref/move/into_future plumbing from the operand of Future::poll back to the call that
    created the future.  -> (block, terminator) or None."""
    while depth < 12:
        depth += 1
        ds = defs.get(local, [])
        if len(ds) != 1:
            return None
        kind, bb, x = ds[0]
        if kind == "assign":
            rv = x["rv"]
            if rv["r"] == "use":
                local = _op_local(rv["o"])
            elif rv["r"] in ("ref", "rawptr"):
                if [e for e in rv["p"]["p"] if e != "deref"]:
                    return None
                local = rv["p"]["l"]
            else:
                return None
            if local is None:
                return None
            continue
        n = _callee_name(x)
        if n in eligible:
            return bb, x
        raw_n = (x.get("f") or {}).get("n")
        if raw_n in ("core::pin::Pin::<Ptr>::new_unchecked", "core::future::into_future::IntoFuture::into_future") and x["args"]:
            local = _op_local(x["args"][0])
            if local is None:
                return None
            continue
        return None
    return None


def inline_async(bodies):
    by_id = {b["id"]: b for b in bodies}
    eligible = {}
    for b in bodies:
        inner = async_eligible(b, by_id)
        if inner is not None:
            eligible[b["id"]] = (copy.deepcopy(b), copy.deepcopy(inner))
    done = {}
    if not eligible:
        return done
    for caller in bodies:
        if "mock_inner" in caller["id"] or not caller.get("coroutine_kind"):
            continue
        rounds = 0
        progress = True
        while progress and rounds < MAX_DEPTH:
            progress = False
            rounds += 1
            defs = _single_defs(caller)
            for i in range(len(caller["blocks"])):
                pt = caller["blocks"][i]["term"]
                if pt["t"] != "call" or (pt.get("f") or {}).get("n") != POLL or pt.get("to") is None or not pt["args"]:
                    continue
                pin = _op_local(pt["args"][0])
                if pin is None:
                    continue
                found = _chase_future(caller, defs, pin, eligible)
                if found is None:
                    continue
                cbb, ct = found
                cn = _callee_name(ct)
                if cn == caller.get("root") or caller["id"].startswith(cn + "::"):
                    continue                        # recursion
                outer, inner = eligible[cn]
                targs = (ct.get("f") or {}).get("a") or []
                tmap = None
                if targs:
                    gens = outer.get("generics")
                    if gens is None or len(gens) != len(targs):
                        continue
                    tmap = dict(zip(gens, targs))
                argc = outer.get("arg_count", 0)
                if len(ct["args"]) != argc:
                    continue
                # upvar k of the coroutine = parameter k+1 of the async fn (checked on the outer body)
                order = None
                for blk in outer["blocks"]:
                    for st in blk["stmts"]:
                        if st.get("s") == "assign" and st["p"]["l"] == 0 and st["rv"]["r"] == "agg" and st["rv"].get("kind") == "coroutine":
                            order = [_op_local(o) for o in st["rv"]["ops"]]
                if order is None or any(o is None or not (1 <= o <= argc) for o in order):
                    continue
                # ---- captured arguments: fresh locals assigned where the future was created
                ubase = len(caller["locals"])
                for k in range(argc):
                    nl = copy.deepcopy(outer["locals"][1 + k])
                    if tmap:
                        nl["ty"] = _subst(nl.get("ty"), tmap)
                    nl["inlined_from"] = cn
                    caller["locals"].append(nl)
                cblk = caller["blocks"][cbb]
                for k, a in enumerate(ct["args"]):
                    cblk["stmts"].append({"s": "assign", "p": {"l": ubase + k, "p": []},
                                          "rv": {"r": "use", "o": copy.deepcopy(a)}, "sp": ct.get("sp"), "inl": cn})
                cblk["term"] = {"t": "goto", "to": ct["to"], "sp": ct.get("sp"), "inlined_call": cn}
                upvar_local = [ubase + (p_ - 1) for p_ in order]
                # ---- the coroutine body replaces the poll
                loff = len(caller["locals"])
                boff = len(caller["blocks"])
                for loc in inner["locals"]:
                    nl = copy.deepcopy(loc)
                    if tmap:
                        nl["ty"] = _subst(nl.get("ty"), tmap)
                    nl["inlined_from"] = cn
                    caller["locals"].append(nl)

                def lmap(l, o=loff):
                    return 2 if l == 2 else l + o       # the task context is the caller's

                def bmap(b_, o=boff):
                    return b_ + o
                dest = pt["dest"]
                ready_t = pt["to"]
                nb0 = caller["blocks"][pt["to"]]
                if nb0["term"]["t"] == "switch":
                    for val, tb in nb0["term"]["targets"]:
                        if val == 0:
                            ready_t = None if any(st.get("s") == "assign" and st["p"]["l"] != nb0["term"]["d"].get("m", nb0["term"]["d"].get("c", {})).get("l")
                                                  for st in nb0["stmts"]) else tb
                    if ready_t is None:
                        ready_t = pt["to"]
                for k, blk in enumerate(inner["blocks"]):
                    nb = _remap(blk, lmap, bmap)
                    if tmap:
                        nb = _subst(nb, tmap)
                    nb = _env_places(nb, loff + 1, upvar_local)
                    if nb["term"]["t"] == "return":
                        nb["stmts"].append({"s": "assign", "p": copy.deepcopy(dest),
                                            "rv": {"r": "agg", "kind": "adt", "n": "core::task::poll::Poll", "a": [],
                                                   "variant": 0, "vname": "Ready", "fields": ["0"],
                                                   "ops": [{"m": {"l": loff, "p": []}}]},
                                            "sp": pt.get("sp"), "inl": cn})
                        nb["term"] = {"t": "goto", "to": ready_t, "sp": pt.get("sp")}
                    caller["blocks"].append(nb)
                caller["blocks"][i]["term"] = {"t": "goto", "to": boff, "sp": pt.get("sp"), "inlined_call": cn}
                done.setdefault(caller["id"], []).append(cn)
                progress = True
                break           # block / local tables changed: recompute the definitions
    _mark_absorbed(bodies, {c for v in done.values() for c in v})
    return done


def _env_places(j, env_local, upvar_local):
    """Rewrite `(_env.k).rest` (captured variable k of the inlined coroutine) to the fresh local that holds
    the corresponding argument."""
    if isinstance(j, list):
        return [_env_places(x, env_local, upvar_local) for x in j]
    if not isinstance(j, dict):
        return j
    if "l" in j and "p" in j and isinstance(j["p"], list) and j["l"] == env_local:
        proj = list(j["p"])
        k = 0
        while k < len(proj) and proj[k] == "deref":
            k += 1
        if k < len(proj) and isinstance(proj[k], dict) and "f" in proj[k] and proj[k]["f"] < len(upvar_local):
            return {"l": upvar_local[proj[k]["f"]], "p": [_env_places(x, env_local, upvar_local) for x in proj[k + 1:]]}
        return j
    return {k_: (v if k_ in ("ty", "from", "of", "dty", "fty", "f", "k") else _env_places(v, env_local, upvar_local)) for k_, v in j.items()}


# ---------------------------------------------------------------- Option / Result / bool combinators
# `x.map(|v| ..).ok_or(e)` and `match x { Some(v) => Ok(..), None => Err(e) }` are the same program.  The rule
# engines know the second spelling; this pass rewrites the first into it: a switch on the receiver's
# discriminant, the closure body spliced into the arm that calls it, and the result built by an aggregate.
# A combinator applied directly to the result of another one is threaded arm by arm (no merge in between),
# so every intermediate value keeps a single definition.
#
# It is a *second* representation of the same program (used by ./check only to re-examine a report, see
# DESIGN.md "two representations"): both are faithful, so a clause proved on either one holds.
OPT = "core::option::Option"
RES = "core::result::Result"
VNAMES = {OPT: ["None", "Some"], RES: ["Ok", "Err"]}
_O = "core::option::Option::<T>::"
_R = "core::result::Result::<T, E>::"
_B = "core::bool::<impl bool>::"
COMBINATORS = {
    _O + "map": (OPT, {1: ("wrapcall", OPT, 1, 1), 0: ("unit", OPT, 0)}),
    _O + "and_then": (OPT, {1: ("call", 1), 0: ("unit", OPT, 0)}),
    _O + "ok_or": (OPT, {1: ("wrap", RES, 0), 0: ("wraparg", RES, 1, 1)}),
    _O + "ok_or_else": (OPT, {1: ("wrap", RES, 0), 0: ("wrapcall0", RES, 1, 1)}),
    _O + "map_or": (OPT, {1: ("call", 2), 0: ("arg", 1)}),
    _O + "map_or_else": (OPT, {1: ("call", 2), 0: ("call0", 1)}),
    _O + "unwrap_or": (OPT, {1: ("payload",), 0: ("arg", 1)}),
    _O + "unwrap_or_else": (OPT, {1: ("payload",), 0: ("call0", 1)}),
    _O + "unwrap_or_default": (OPT, {1: ("payload",), 0: ("default",)}),
    _O + "or": (OPT, {1: ("wrap", OPT, 1), 0: ("arg", 1)}),
    _O + "or_else": (OPT, {1: ("wrap", OPT, 1), 0: ("call0", 1)}),
    _O + "filter": (OPT, {1: ("filter", 1), 0: ("unit", OPT, 0)}),
    _O + "zip": (OPT, {1: ("zip", 1), 0: ("unit", OPT, 0)}),
    _R + "map": (RES, {0: ("wrapcall", RES, 0, 1), 1: ("wrap", RES, 1)}),
    _R + "map_err": (RES, {0: ("wrap", RES, 0), 1: ("wrapcall", RES, 1, 1)}),
    _R + "and_then": (RES, {0: ("call", 1), 1: ("wrap", RES, 1)}),
    _R + "ok": (RES, {0: ("wrap", OPT, 1), 1: ("unit", OPT, 0)}),
    _R + "err": (RES, {0: ("unit", OPT, 0), 1: ("wrap", OPT, 1)}),
    _R + "unwrap_or": (RES, {0: ("payload",), 1: ("arg", 1)}),
    _R + "unwrap_or_else": (RES, {0: ("payload",), 1: ("call", 1)}),
    _R + "unwrap_or_default": (RES, {0: ("payload",), 1: ("default",)}),
    _R + "or_else": (RES, {0: ("wrap", RES, 0), 1: ("call", 1)}),
    _B + "then": ("bool", {1: ("wrapcall0", OPT, 1, 1), 0: ("unit", OPT, 0)}),
    _B + "then_some": ("bool", {1: ("wraparg", OPT, 1, 1), 0: ("unit", OPT, 0)}),
}
MAX_CLOSURE_BLOCKS = 120


def _place_of(o):
    for k in ("c", "m"):
        if k in o:
            return o[k]
    return None


def _bare_local(o):
    p = _place_of(o)
    return p["l"] if p is not None and not p["p"] else None


def _ty_args(ty, adt):
    if isinstance(ty, dict) and ty.get("k") == "adt" and ty.get("n") == adt:
        return ty.get("a") or []
    return None


class _Lower:
    def __init__(self, caller, by_id, ctors=None):
        self.c = caller
        self.by_id = by_id
        self.ctors = ctors or {}
        self.lowered_dests = set()
        self.arms = {}       # dest local -> {"cont": block, "arms": [(exit block, adt, variant, payload operand | None)]}
        self.used_closures = []

    # -- small builders
    def new_local(self, ty, name=None):
        self.c["locals"].append({"ty": copy.deepcopy(ty) if ty is not None else {"k": "infer"}, "lowered": True,
                                 **({"name": name} if name else {})})
        return len(self.c["locals"]) - 1

    def new_block(self, stmts, term):
        self.c["blocks"].append({"cleanup": False, "stmts": stmts, "term": term, "lowered": True})
        return len(self.c["blocks"]) - 1

    def single_def(self, local):
        found = []
        for blk in self.c["blocks"]:
            for st in blk["stmts"]:
                if st.get("s") == "assign" and st["p"]["l"] == local and not st["p"]["p"]:
                    found.append(st)
            t = blk["term"]
            if t["t"] == "call" and t["dest"]["l"] == local:
                found.append(t)
        return found[0] if len(found) == 1 else None

    def fn_of(self, o):
        """how to call the function value in operand o: ("closure", raw body, agg stmt) | ("item", fn ref) | None"""
        k = o.get("k")
        if k is not None:
            return ("item", k["fn"]) if isinstance(k, dict) and isinstance(k.get("fn"), dict) else None
        l = _bare_local(o)
        if l is None:
            return None
        d = self.single_def(l)
        if d is None or d.get("s") != "assign":
            return None
        rv = d["rv"]
        if rv["r"] == "use" and "k" in rv["o"]:
            return self.fn_of(rv["o"])
        if rv["r"] == "agg" and rv.get("kind") == "closure" and rv.get("n") in self.by_id:
            h = self.by_id[rv["n"]]
            if h.get("coroutine_kind") or len(h["blocks"]) > MAX_CLOSURE_BLOCKS:
                return None
            if any(b["term"]["t"] in ("yield", "coroutinedrop", "tailcall", "asm") for b in h["blocks"]):
                return None
            if h["id"] == self.c["id"] or self.c["id"].startswith(h["id"] + "::"):
                return None
            return ("closure", h, d)
        return None

    def emit_call(self, fn, args, result, nxt, sp, unwind):
        """blocks that compute result = fn(args..) and continue at nxt; -> entry block"""
        if fn[0] == "item":
            ctor = self.ctors.get(fn[1].get("n"))
            if ctor is not None and len(args) == 1:
                # `.map(Form::TwoBytes)`: a tuple-variant constructor used as a function is the aggregate
                adt, variant, vname = ctor
                return self.new_block([{"s": "assign", "p": {"l": result, "p": []},
                                        "rv": {"r": "agg", "kind": "adt", "n": adt, "a": [], "variant": variant, "vname": vname,
                                               "fields": ["0"], "ops": [copy.deepcopy(args[0])]}, "sp": sp, "lowered": True}],
                                      {"t": "goto", "to": nxt, "sp": sp})
            return self.new_block([], {"t": "call", "f": copy.deepcopy(fn[1]), "args": [copy.deepcopy(a) for a in args],
                                       "dest": {"l": result, "p": []}, "to": nxt, "unwind": unwind, "sp": sp, "fn_sp": sp})
        _, h, agg = fn
        c = self.c
        pre = []
        upv = []
        for o in agg["rv"]["ops"]:
            l = _bare_local(o)
            if l is None:
                l = self.new_local(None)
                pre.append({"s": "assign", "p": {"l": l, "p": []}, "rv": {"r": "use", "o": copy.deepcopy(o)}, "sp": sp})
            upv.append(l)
        loff = len(c["locals"])
        boff = len(c["blocks"]) + 1            # +1: the entry block created below comes first
        for loc in h["locals"]:
            nl = copy.deepcopy(loc)
            nl["inlined_from"] = h["id"]
            c["locals"].append(nl)
        argc = h.get("arg_count", 1)
        if argc - 1 != len(args):
            # `|(a, b)|` is one parameter; anything else is a shape this pass does not know
            raise _NoLower()
        for k, a in enumerate(args):
            pre.append({"s": "assign", "p": {"l": loff + 2 + k, "p": []}, "rv": {"r": "use", "o": copy.deepcopy(a)}, "sp": sp,
                        "inl": h["id"]})
        entry = self.new_block(pre, {"t": "goto", "to": boff, "sp": sp, "inlined_call": h["id"]})
        assert entry == boff - 1
        lmap = lambda l, o=loff: l + o
        bmap = lambda b_, o=boff: b_ + o
        for blk in h["blocks"]:
            nb = _remap(copy.deepcopy(blk), lmap, bmap)
            nb = _env_places(nb, loff + 1, upv)
            nb["lowered"] = True
            if nb["term"]["t"] == "return":
                nb["stmts"].append({"s": "assign", "p": {"l": result, "p": []},
                                    "rv": {"r": "use", "o": {"m": {"l": loff, "p": []}}}, "sp": sp, "inl": h["id"]})
                nb["term"] = {"t": "goto", "to": nxt, "sp": sp}
            c["blocks"].append(nb)
        self.used_closures.append(h["id"])
        return entry

    def agg(self, dest, adt, variant, ops, sp):
        dty = self.c["locals"][dest["l"]].get("ty") if not dest["p"] else None
        return {"s": "assign", "p": copy.deepcopy(dest),
                "rv": {"r": "agg", "kind": "adt", "n": adt, "a": copy.deepcopy(_ty_args(dty, adt) or []), "variant": variant,
                       "vname": VNAMES[adt][variant], "fields": ["0"] if ops else [], "ops": ops}, "sp": sp, "lowered": True}

    def arm(self, action, payload, args, dest, cont, sp, unwind, result_ty):
        """blocks for one arm; -> (entry block, exit block, (adt, variant, payload operand | None) | None)"""
        kind = action[0]
        if kind in ("wrapcall", "wrapcall0", "call", "call0"):
            argi = action[-1]
            fn = self.fn_of(args[argi])
            if fn is None:
                raise _NoLower()
            wrap = kind.startswith("wrap")
            if wrap:
                rty = fn[1]["locals"][0].get("ty") if fn[0] == "closure" else None
                r = self.new_local(rty)
                ex = self.new_block([self.agg(dest, action[1], action[2], [{"m": {"l": r, "p": []}}], sp)],
                                    {"t": "goto", "to": cont, "sp": sp})
                known = (action[1], action[2], {"c": {"l": r, "p": []}})
            else:
                if dest["p"]:
                    raise _NoLower()
                r = self.new_local(self.c["locals"][dest["l"]].get("ty"))
                ex = self.new_block([{"s": "assign", "p": copy.deepcopy(dest), "rv": {"r": "use", "o": {"m": {"l": r, "p": []}}}, "sp": sp}],
                                    {"t": "goto", "to": cont, "sp": sp})
                known = None
            cargs = [payload] if kind in ("wrapcall", "call") and payload is not None else []
            if kind in ("wrapcall", "call") and payload is None:
                raise _NoLower()
            entry = self.emit_call(fn, cargs, r, ex, sp, unwind)
            return entry, [(ex, known)]
        if kind == "wrap":
            st_w = self.agg(dest, action[1], action[2], [copy.deepcopy(payload)], sp)
            st_w["rewrap"] = True           # the receiver's own payload handed on (`?`-like propagation), not a new value
            ex = self.new_block([st_w], {"t": "goto", "to": cont, "sp": sp})
            return ex, [(ex, (action[1], action[2], _as_copy(payload)))]
        if kind == "wraparg":
            ex = self.new_block([self.agg(dest, action[1], action[2], [copy.deepcopy(args[action[3]])], sp)],
                                {"t": "goto", "to": cont, "sp": sp})
            return ex, [(ex, (action[1], action[2], None))]
        if kind == "unit":
            ex = self.new_block([self.agg(dest, action[1], action[2], [], sp)], {"t": "goto", "to": cont, "sp": sp})
            return ex, [(ex, (action[1], action[2], None))]
        if kind == "payload":
            ex = self.new_block([{"s": "assign", "p": copy.deepcopy(dest), "rv": {"r": "use", "o": copy.deepcopy(payload)}, "sp": sp}],
                                {"t": "goto", "to": cont, "sp": sp})
            return ex, [(ex, None)]
        if kind == "filter":
            # Some(v) => if pred(&v) { Some(v) } else { None }
            fn = self.fn_of(args[action[1]])
            if fn is None or payload is None or _bare_local(payload) is None:
                raise _NoLower()
            v = _bare_local(payload)
            r = self.new_local({"k": "ref", "m": False, "t": copy.deepcopy(self.c["locals"][v].get("ty"))})
            b = self.new_local({"k": "prim", "n": "bool"})
            ex_some = self.new_block([self.agg(dest, OPT, 1, [{"c": {"l": v, "p": []}}], sp)], {"t": "goto", "to": cont, "sp": sp})
            ex_none = self.new_block([self.agg(dest, OPT, 0, [], sp)], {"t": "goto", "to": cont, "sp": sp})
            sw = self.new_block([], {"t": "switch", "d": {"m": {"l": b, "p": []}}, "dty": {"k": "prim", "n": "bool"},
                                     "targets": [[0, ex_none]], "else": ex_some, "sp": sp})
            call = self.emit_call(fn, [{"m": {"l": r, "p": []}}], b, sw, sp, unwind)
            pre = self.new_block([{"s": "assign", "p": {"l": r, "p": []},
                                   "rv": {"r": "ref", "mut": False, "fake": False, "p": {"l": v, "p": []}}, "sp": sp, "lowered": True}],
                                 {"t": "goto", "to": call, "sp": sp})
            return pre, [(ex_some, (OPT, 1, {"c": {"l": v, "p": []}})), (ex_none, (OPT, 0, None))]
        if kind == "zip":
            # Some(x) => match other { Some(y) => Some((x, y)), None => None }
            other = args[action[1]]
            if payload is None or _place_of(other) is None or dest["p"]:
                raise _NoLower()
            dty = self.c["locals"][dest["l"]].get("ty")
            tty = (_ty_args(dty, OPT) or [None])[0]
            yty = tty["a"][1] if isinstance(tty, dict) and tty.get("k") == "tuple" and len(tty.get("a", [])) == 2 else None
            st_y, y = self.payload_of(other, OPT, 1, yty, sp)
            tup = self.new_local(tty)
            ex_some = self.new_block([st_y,
                                      {"s": "assign", "p": {"l": tup, "p": []},
                                       "rv": {"r": "agg", "kind": "tuple", "ops": [copy.deepcopy(payload), y]}, "sp": sp, "lowered": True},
                                      self.agg(dest, OPT, 1, [{"m": {"l": tup, "p": []}}], sp)], {"t": "goto", "to": cont, "sp": sp})
            ex_none = self.new_block([self.agg(dest, OPT, 0, [], sp)], {"t": "goto", "to": cont, "sp": sp})
            dl = self.new_local({"k": "prim", "n": "isize"})
            dead = self.new_block([], {"t": "unreachable", "sp": sp})
            ol = _bare_local(other)
            sw = self.new_block([{"s": "assign", "p": {"l": dl, "p": []},
                                  "rv": {"r": "discr", "p": copy.deepcopy(_place_of(other)),
                                         "of": copy.deepcopy(self.c["locals"][ol].get("ty")) if ol is not None else {"k": "infer"}},
                                  "sp": sp, "lowered": True}],
                                {"t": "switch", "d": {"m": {"l": dl, "p": []}}, "dty": {"k": "prim", "n": "isize"},
                                 "targets": [[0, ex_none], [1, ex_some]], "else": dead, "sp": sp})
            return sw, [(ex_some, (OPT, 1, {"c": {"l": tup, "p": []}})), (ex_none, (OPT, 0, None))]
        if kind == "default":
            # `unwrap_or_default()` on the empty variant: the call `Default::default()`
            if dest["p"]:
                raise _NoLower()
            dty = self.c["locals"][dest["l"]].get("ty")
            ex = self.new_block([], {"t": "goto", "to": cont, "sp": sp})
            call = self.new_block([], {"t": "call", "f": {"n": "core::default::Default::default", "a": [copy.deepcopy(dty)],
                                                              "trait": "core::default::Default", "name": "default"},
                                       "args": [], "dest": copy.deepcopy(dest), "to": ex, "unwind": unwind, "sp": sp, "fn_sp": sp})
            return call, [(ex, None)]
        if kind == "arg":
            ex = self.new_block([{"s": "assign", "p": copy.deepcopy(dest), "rv": {"r": "use", "o": copy.deepcopy(args[action[1]])}, "sp": sp}],
                                {"t": "goto", "to": cont, "sp": sp})
            return ex, [(ex, None)]
        raise _NoLower()

    def payload_of(self, recv, adt, variant, ty, sp):
        """(stmt, operand): read the payload of `recv` known to be adt::variant"""
        p = copy.deepcopy(_place_of(recv))
        v = self.new_local(ty)
        p["p"] = p["p"] + [{"dc": variant, "n": VNAMES[adt][variant]}, {"f": 0, "n": "0", "ty": copy.deepcopy(ty) if ty else {"k": "infer"}}]
        st = {"s": "assign", "p": {"l": v, "p": []}, "rv": {"r": "use", "o": {"m": p}}, "sp": sp, "lowered": True}
        return st, {"m": {"l": v, "p": []}}

    def lower_fold(self, i):
        """`it.fold(init, f)`, `it.try_fold(init, f)`, `it.for_each(f)` written out as the loop they are:
              acc = init; loop { match it.next() { Some(v) => acc = f(acc, v) [? stop on None/Err], None => break } }
        (the definition of these adapters; the closure body is spliced in)."""
        c = self.c
        t = c["blocks"][i]["term"]
        n = (t.get("f") or {}).get("n")
        kind = n.rsplit("::", 1)[-1]
        args, dest, cont, sp, unwind = t["args"], t["dest"], t["to"], t.get("sp"), t.get("unwind")
        ga = (t.get("f") or {}).get("a") or []
        if dest["p"] or not ga:
            return False
        want = {"fold": 3, "try_fold": 3, "for_each": 2}[kind]
        if len(args) != want:
            return False
        keep = (len(c["locals"]), len(c["blocks"]), copy.deepcopy(c["blocks"][i]), len(self.used_closures))
        try:
            fn = self.fn_of(args[-1])
            if fn is None or fn[0] != "closure":
                raise _NoLower()
            iter_ty = ga[0]
            OPT_ANY = {"k": "adt", "n": OPT, "a": [{"k": "infer"}]}
            pre = []
            if kind == "try_fold":
                # receiver is `&mut iter`
                rcv = _bare_local(args[0])
                if rcv is None:
                    raise _NoLower()
                it_ref = lambda: {"m": {"l": self._reborrow(pre_h, rcv, sp), "p": []}}
            else:
                it = self.new_local(iter_ty)
                pre.append({"s": "assign", "p": {"l": it, "p": []}, "rv": {"r": "use", "o": copy.deepcopy(args[0])}, "sp": sp, "lowered": True})
                it_ref = None
            acc = None
            if kind != "for_each":
                acc = self.new_local(ga[1] if len(ga) > 1 else None)
                pre.append({"s": "assign", "p": {"l": acc, "p": []}, "rv": {"r": "use", "o": copy.deepcopy(args[1])}, "sp": sp, "lowered": True})
            nloc = self.new_local(OPT_ANY)
            pre_h = []
            if kind == "try_fold":
                ro = it_ref()
            else:
                r2 = self.new_local({"k": "ref", "m": True, "t": copy.deepcopy(iter_ty)})
                pre_h.append({"s": "assign", "p": {"l": r2, "p": []}, "rv": {"r": "ref", "mut": True, "fake": False, "p": {"l": it, "p": []}},
                              "sp": sp, "lowered": True})
                ro = {"m": {"l": r2, "p": []}}
            H = self.new_block(pre_h, {"t": "call", "f": {"n": "core::iter::traits::iterator::Iterator::next", "a": [copy.deepcopy(iter_ty)]},
                                       "args": [ro], "dest": {"l": nloc, "p": []}, "to": None, "unwind": unwind, "sp": sp, "fn_sp": sp,
                                       "lowered": n})
            dl = self.new_local({"k": "prim", "n": "isize"})
            dead = self.new_block([], {"t": "unreachable", "sp": sp})
            S = self.new_block([{"s": "assign", "p": {"l": dl, "p": []}, "rv": {"r": "discr", "p": {"l": nloc, "p": []}, "of": copy.deepcopy(OPT_ANY)},
                                 "sp": sp, "lowered": True}],
                               {"t": "switch", "d": {"m": {"l": dl, "p": []}}, "dty": {"k": "prim", "n": "isize"}, "targets": [[0, None], [1, None]],
                                "else": dead, "sp": sp, "lowered": n})
            c["blocks"][H]["term"]["to"] = S
            v = self.new_local(None)
            take = {"s": "assign", "p": {"l": v, "p": []},
                    "rv": {"r": "use", "o": {"m": {"l": nloc, "p": [{"dc": 1, "n": "Some"}, {"f": 0, "n": "0", "ty": {"k": "infer"}}]}}}, "sp": sp,
                    "lowered": True}
            # ---- exit: the iterator is exhausted
            if kind == "fold":
                E = self.new_block([{"s": "assign", "p": copy.deepcopy(dest), "rv": {"r": "use", "o": {"m": {"l": acc, "p": []}}}, "sp": sp,
                                     "lowered": True}], {"t": "goto", "to": cont, "sp": sp})
            elif kind == "for_each":
                E = self.new_block([{"s": "assign", "p": copy.deepcopy(dest), "rv": {"r": "agg", "kind": "tuple", "ops": []}, "sp": sp,
                                     "lowered": True}], {"t": "goto", "to": cont, "sp": sp})
            else:
                rty = ga[3] if len(ga) > 3 else c["locals"][dest["l"]].get("ty")
                radt = rty.get("n") if isinstance(rty, dict) else None
                if radt not in (OPT, RES):
                    raise _NoLower()
                okv = 1 if radt == OPT else 0
                E = self.new_block([self.agg(dest, radt, okv, [{"m": {"l": acc, "p": []}}], sp)], {"t": "goto", "to": cont, "sp": sp})
            # ---- body
            if kind == "fold":
                call = self.emit_call(fn, [{"m": {"l": acc, "p": []}}, {"m": {"l": v, "p": []}}], acc, H, sp, unwind)
                Bd = self.new_block([take], {"t": "goto", "to": call, "sp": sp})
            elif kind == "for_each":
                tmp = self.new_local(None)
                call = self.emit_call(fn, [{"m": {"l": v, "p": []}}], tmp, H, sp, unwind)
                Bd = self.new_block([take], {"t": "goto", "to": call, "sp": sp})
            else:
                res = self.new_local(rty)
                d2 = self.new_local({"k": "prim", "n": "isize"})
                dead2 = self.new_block([], {"t": "unreachable", "sp": sp})
                contv = 1 if radt == OPT else 0           # Some / Ok: go on with the new accumulator
                stopv = 1 - contv
                go_on = self.new_block([{"s": "assign", "p": {"l": acc, "p": []},
                                         "rv": {"r": "use", "o": {"m": {"l": res, "p": [{"dc": contv, "n": VNAMES[radt][contv]},
                                                                                          {"f": 0, "n": "0", "ty": {"k": "infer"}}]}}},
                                         "sp": sp, "lowered": True}], {"t": "goto", "to": H, "sp": sp})
                if radt == OPT:
                    stop = self.new_block([self.agg(dest, OPT, 0, [], sp)], {"t": "goto", "to": cont, "sp": sp})
                else:
                    ev = self.new_local(None)
                    stop = self.new_block([{"s": "assign", "p": {"l": ev, "p": []},
                                            "rv": {"r": "use", "o": {"m": {"l": res, "p": [{"dc": 1, "n": "Err"}, {"f": 0, "n": "0", "ty": {"k": "infer"}}]}}},
                                            "sp": sp, "lowered": True},
                                           self.agg(dest, RES, 1, [{"m": {"l": ev, "p": []}}], sp)], {"t": "goto", "to": cont, "sp": sp})
                K = self.new_block([{"s": "assign", "p": {"l": d2, "p": []}, "rv": {"r": "discr", "p": {"l": res, "p": []}, "of": copy.deepcopy(rty)},
                                     "sp": sp, "lowered": True}],
                                   {"t": "switch", "d": {"m": {"l": d2, "p": []}}, "dty": {"k": "prim", "n": "isize"},
                                    "targets": [[contv, go_on], [stopv, stop]] if contv < stopv else [[stopv, stop], [contv, go_on]],
                                    "else": dead2, "sp": sp, "lowered": n})
                call = self.emit_call(fn, [{"m": {"l": acc, "p": []}}, {"m": {"l": v, "p": []}}], res, K, sp, unwind)
                Bd = self.new_block([take], {"t": "goto", "to": call, "sp": sp})
            c["blocks"][S]["term"]["targets"] = [[0, E], [1, Bd]]
            blk = c["blocks"][i]
            blk["stmts"].extend(pre)
            blk["term"] = {"t": "goto", "to": H, "sp": sp, "lowered": n}
            return True
        except _NoLower:
            del c["locals"][keep[0]:]
            del c["blocks"][keep[1]:]
            del self.used_closures[keep[3]:]
            c["blocks"][i] = keep[2]
            return False

    def _reborrow(self, stmts, ref_local, sp):
        r = self.new_local(self.c["locals"][ref_local].get("ty"))
        stmts.append({"s": "assign", "p": {"l": r, "p": []}, "rv": {"r": "ref", "mut": True, "fake": False, "p": {"l": ref_local, "p": ["deref"]}},
                      "sp": sp, "lowered": True})
        return r

    def lower_at(self, i):
        c = self.c
        t = c["blocks"][i]["term"]
        if t["t"] != "call" or t.get("to") is None:
            return False
        n = (t.get("f") or {}).get("n")
        if n in ("core::iter::traits::iterator::Iterator::fold", "core::iter::traits::iterator::Iterator::try_fold",
                 "core::iter::traits::iterator::Iterator::for_each"):
            return self.lower_fold(i)
        spec = COMBINATORS.get(n)
        if spec is None or not t["args"]:
            return False
        radt, actions = spec
        recv, args, dest, cont, sp, unwind = t["args"][0], t["args"], t["dest"], t["to"], t.get("sp"), t.get("unwind")
        ga = (t.get("f") or {}).get("a") or []
        if _place_of(recv) is None and radt != "bool":
            return False
        keep = (len(c["locals"]), len(c["blocks"]), copy.deepcopy(c["blocks"][i]), len(self.used_closures))
        saved_exits = None
        try:
            rl = _bare_local(recv)
            chain = self.arms.get(rl) if rl is not None else None
            blk = c["blocks"][i]
            if chain is not None and chain["cont"] == i and radt != "bool" and \
                    all(a[1] == radt for a in chain["arms"]) and self._only_preds(i, [a[0] for a in chain["arms"]]):
                # ---- threaded: each arm of the previous combinator continues straight into its own arm here
                own = self._assigned_locals(blk["stmts"])
                new_arms = []
                saved_exits = [(a[0], copy.deepcopy(c["blocks"][a[0]]["term"])) for a in chain["arms"]]
                for (ex, adt_, variant, pay) in chain["arms"]:
                    ren = {l: self.new_local(c["locals"][l].get("ty"), c["locals"][l].get("name")) for l in own}
                    lm = lambda l, r_=ren: r_.get(l, l)
                    stmts = [_remap(copy.deepcopy(s), lm, lambda b_: b_) for s in blk["stmts"]]
                    a2 = [_remap(copy.deepcopy(a), lm, lambda b_: b_) for a in args]
                    act = actions[variant]
                    payload = None
                    if VNAMES[radt][variant] in ("Some", "Ok", "Err"):
                        if pay is not None:
                            payload = copy.deepcopy(pay)
                        else:
                            st_, payload = self.payload_of(recv, radt, variant, self._payload_ty(radt, variant, ga), sp)
                            stmts.append(st_)
                    # (the copied statements go in first: they define the closures the arm is about to look up)
                    pre = self.new_block(stmts, {"t": "goto", "to": None, "sp": sp})
                    entry, exits = self.arm(act, payload, a2, dest, cont, sp, unwind, None)
                    c["blocks"][pre]["term"]["to"] = entry
                    c["blocks"][ex]["term"]["to"] = pre
                    for ex2, known in exits:
                        new_arms.append((ex2,) + known if known is not None else None)
                c["blocks"][i] = {"cleanup": False, "stmts": [], "term": {"t": "unreachable", "sp": sp}, "lowered": True}
                self._register(dest, cont, new_arms)
                return True
            # `x.ok_or(e)?` / `.map_err(f)?` on a plain value (also the `match` that try_stream! makes of `?`): the
            # rules read this spelling directly (discharge.unq); rewriting it would only put a merge in front of
            # the test that follows
            # (unless the value is itself the merge of a rewritten combinator: then the test that follows is
            # threaded into those arms afterwards)
            if n.rsplit("::", 1)[-1] in ("ok_or", "ok_or_else", "map_err") and rl not in self.lowered_dests:
                raise _NoLower()
            # ---- plain: switch on the receiver
            new_arms = []
            targets = {}
            for variant, act in sorted(actions.items()):
                stmts = []
                payload = None
                if radt != "bool" and VNAMES[radt][variant] in ("Some", "Ok", "Err"):
                    st_, payload = self.payload_of(recv, radt, variant, self._payload_ty(radt, variant, ga), sp)
                    stmts.append(st_)
                entry, exits = self.arm(act, payload, args, dest, cont, sp, unwind, None)
                targets[variant] = self.new_block(stmts, {"t": "goto", "to": entry, "sp": sp})
                for ex2, known in exits:
                    new_arms.append((ex2,) + known if known is not None else None)
            if radt == "bool":
                blk["term"] = {"t": "switch", "d": copy.deepcopy(recv), "dty": {"k": "prim", "n": "bool"},
                               "targets": [[0, targets[0]]], "else": targets[1], "sp": sp, "lowered": n}
            else:
                dl = self.new_local({"k": "prim", "n": "isize"})
                rty = c["locals"][rl].get("ty") if rl is not None else None
                blk["stmts"].append({"s": "assign", "p": {"l": dl, "p": []},
                                     "rv": {"r": "discr", "p": copy.deepcopy(_place_of(recv)), "of": copy.deepcopy(rty) if rty else {"k": "infer"}},
                                     "sp": sp, "lowered": True})
                dead = self.new_block([], {"t": "unreachable", "sp": sp})
                blk["term"] = {"t": "switch", "d": {"m": {"l": dl, "p": []}}, "dty": {"k": "prim", "n": "isize"},
                               "targets": [[0, targets[0]], [1, targets[1]]], "else": dead, "sp": sp, "lowered": n}
            self._register(dest, cont, new_arms)
            return True
        except _NoLower:
            del c["locals"][keep[0]:]
            del c["blocks"][keep[1]:]
            del self.used_closures[keep[3]:]
            c["blocks"][i] = keep[2]
            for ex, term in saved_exits or []:
                c["blocks"][ex]["term"] = term
            return False

    def _feeds_try(self, cont, dest):
        t = self.c["blocks"][cont]["term"]
        return t["t"] == "call" and (t.get("f") or {}).get("n") == "core::ops::try_trait::Try::branch" and t["args"] and \
            _bare_local(t["args"][0]) == dest["l"] and not dest["p"]

    def _register(self, dest, cont, new_arms):
        if not dest["p"]:
            self.lowered_dests.add(dest["l"])
        if dest["p"] or not new_arms or any(a is None for a in new_arms):
            self.arms.pop(dest["l"], None)
            return
        self.arms[dest["l"]] = {"cont": cont, "arms": new_arms}

    def _payload_ty(self, radt, variant, ga):
        if radt == OPT:
            return ga[0] if ga else None
        if radt == RES:
            return ga[variant] if len(ga) > variant else None
        return None

    def _assigned_locals(self, stmts):
        return {s["p"]["l"] for s in stmts if s.get("s") == "assign" and not s["p"]["p"]}

    def _only_preds(self, i, exits):
        preds = set()
        for j, blk in enumerate(self.c["blocks"]):
            t = blk["term"]
            outs = [t.get(k) for k in BLOCK_KEYS if isinstance(t.get(k), int) and k != "unwind"]
            outs += [tb for _, tb in t.get("targets", [])]
            if i in outs:
                preds.add(j)
        return preds == set(exits)


class _NoLower(Exception):
    pass


def _as_copy(o):
    p = _place_of(o)
    return {"c": copy.deepcopy(p)} if p is not None else copy.deepcopy(o)


def lower_combinators(bodies, adts=()):
    """Rewrite Option/Result/bool combinator calls into switches (see above).  -> {body id: number lowered}"""
    by_id = {b["id"]: b for b in bodies}
    ctors = {}
    for a in adts or ():
        for vi, v in enumerate(a.get("variants", [])):
            if len(v.get("fields", [])) == 1 and v.get("name"):
                ctors["%s::%s" % (a["n"], v["name"])] = (a["n"], vi, v["name"])
    frozen = {k: copy.deepcopy(v) for k, v in by_id.items() if v["defkind"] == "Closure" or "{closure#" in k}
    done = {}
    used = set()
    for caller in bodies:
        if "mock_inner" in caller["id"]:
            continue
        lw = _Lower(caller, frozen, ctors)
        # reverse postorder from the entry: a chain's first link is lowered before its second
        order = _rpo(caller)
        n = 0
        guard = 0
        idx = 0
        while idx < len(order) and guard < 400:
            guard += 1
            i = order[idx]
            idx += 1
            before = len(caller["blocks"])
            if lw.lower_at(i):
                n += 1
                # the arms (and the spliced closure bodies) may contain further combinators, and the
                # continuation may be the next link of a chain: revisit in order
                new = [b_ for b_ in _rpo(caller) if b_ >= before or b_ not in order[:idx]]
                order = order[:idx] + [b_ for b_ in new if b_ not in order[:idx]]
        if n:
            done[caller["id"]] = n
            used |= set(lw.used_closures)
    # a closure whose only use was a lowered call now lives in its parent
    for b in bodies:
        if b["id"] in used or any(b["id"].startswith(u + "::") for u in used):
            b["absorbed"] = True
    return done


def _rpo(body):
    blocks = body["blocks"]
    seen, post = set(), []
    stack = [(0, iter(_succs(blocks[0])))]
    seen.add(0)
    while stack:
        bb, it = stack[-1]
        adv = False
        for s in it:
            if s is not None and s not in seen and s < len(blocks):
                seen.add(s)
                stack.append((s, iter(_succs(blocks[s]))))
                adv = True
                break
        if not adv:
            post.append(bb)
            stack.pop()
    return post[::-1]


def _succs(blk):
    t = blk["term"]
    out = [tb for _, tb in t.get("targets", [])]
    for k in ("to", "else", "resume", "imag"):
        if isinstance(t.get(k), int):
            out.append(t[k])
    return out


# ---------------------------------------------------------------- jump threading on known constants
class _Raw:
    """just enough of mirlite.Body for bool_transfer / bool_switch_target"""
    def __init__(self, raw):
        self.blocks = raw["blocks"]
        self.locals = raw["locals"]


PURE_CHAIN_CALLS = ("core::ops::try_trait::Try::branch", "core::ops::try_trait::FromResidual::from_residual")


def thread_known_switches(bodies, max_chain=12, max_rounds=6):
    """Tail duplication driven by constant tracking.  When the statements of a block P decide a switch a few
    blocks further on (`form = Short(..)` in P, `match form` after the merge), the straight-line blocks between
    P and that switch are copied for P and the copy jumps straight to the decided arm:

        P: x = A(..); goto M      M: y = move x; goto S      S: d = discriminant(y); switch d [A: a, B: b]
     => P: x = A(..); goto M'     M': y = move x; goto S'    S': d = discriminant(y); goto a

    The program is unchanged (only infeasible edges disappear), but in arm `a` the value `(y as A).0` now has
    one reaching definition, so every engine sees which value it is.  Second-representation only."""
    from mirlite import bool_transfer, bool_switch_target
    done = {}
    for raw in bodies:
        if "mock_inner" in raw["id"] or raw.get("absorbed"):
            continue
        body = _Raw(raw)
        blocks = raw["blocks"]
        n_thr = 0
        for _ in range(max_rounds):
            changed = False
            for p in range(len(blocks)):
                t = blocks[p]["term"]
                # (`x = from_residual(..)` - the Err / None that a failing `?` rebuilds - decides a later test just like
                # an aggregate does: e.g. the `?` in the caller of an inlined helper)
                is_fr = t["t"] == "call" and str((t.get("f") or {}).get("n")).endswith("FromResidual::from_residual") and \
                    not blocks[p].get("cleanup")
                if (t["t"] not in ("goto", "drop", "falseedge") and not is_fr) or not isinstance(t.get("to"), int):
                    continue
                if not is_fr and not any(s.get("s") == "assign" and s["rv"]["r"] in ("agg", "use") for s in blocks[p]["stmts"]):
                    continue
                known = bool_transfer(body, p, {})
                if not known:
                    continue
                chain = []            # [(block, decided successor | None)]
                cur = t["to"]
                last = -1
                visited = {p}
                while len(chain) < max_chain and cur is not None and cur not in visited:
                    visited.add(cur)
                    ct = blocks[cur]["term"]
                    if blocks[cur].get("cleanup"):
                        break
                    known = bool_transfer(body, cur, known)
                    if ct["t"] == "switch":
                        dec = bool_switch_target(body, cur, known)
                        if dec is None:
                            break
                        chain.append((cur, dec))
                        last = len(chain) - 1
                        cur = dec                       # keep going: a later switch may be decided as well
                        continue
                    chain.append((cur, None))
                    if ct["t"] in ("goto", "drop", "falseedge") and isinstance(ct.get("to"), int):
                        cur = ct["to"]
                        continue
                    if ct["t"] == "call" and (ct.get("f") or {}).get("n") in PURE_CHAIN_CALLS and isinstance(ct.get("to"), int):
                        cur = ct["to"]
                        continue
                    break
                if last < 0:
                    continue
                chain = chain[:last + 1]
                # copy the chain for P
                base = len(blocks)
                dead = base + len(chain)
                for k, (c, dec) in enumerate(chain):
                    nb = copy.deepcopy(blocks[c])
                    nb["threaded_from"] = c
                    nxt = base + k + 1 if k + 1 < len(chain) else None
                    st_t = nb["term"]
                    if dec is None:
                        nb["term"]["to"] = nxt
                    else:
                        # a discriminant temporary gets its own local in the copy, so that it keeps a single definition
                        if _bare_local(st_t["d"]) is not None:
                            dl_ = _bare_local(st_t["d"])
                            dd = [s_ for s_ in nb["stmts"] if s_.get("s") == "assign" and s_["p"]["l"] == dl_ and not s_["p"]["p"]]
                            if len(dd) == 1 and dd[0]["rv"]["r"] == "discr" and "m" in st_t["d"]:
                                raw["locals"].append(copy.deepcopy(raw["locals"][dl_]))
                                nl_ = len(raw["locals"]) - 1
                                dd[0]["p"]["l"] = nl_
                                st_t["d"] = {"m": {"l": nl_, "p": []}}
                        # keep the switch (its edge labels carry meaning), but only the decided edge remains
                        tgt = nxt if nxt is not None else dec
                        keep_else = st_t["else"] == dec and not any(tb == dec for _, tb in st_t["targets"])
                        st_t["targets"] = [[v_, (tgt if tb == dec else dead)] for v_, tb in st_t["targets"]]
                        st_t["else"] = tgt if keep_else else dead
                        st_t["threaded"] = True
                    blocks.append(nb)
                blocks.append({"cleanup": False, "stmts": [], "term": {"t": "unreachable", "sp": t.get("sp")}, "lowered": True})
                t["to"] = base
                n_thr += 1
                changed = True
            if not changed:
                break
        if n_thr:
            done[raw["id"]] = n_thr
    return done
