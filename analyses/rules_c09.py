"""C09 — a connection that saw a failure is never reused; fresh ones are vetted."""
from collections import deque
from mirlite import callee, ty_str, op_place
from client import Fn, FEIG, STREAM, NEXT, variant_switches, follow, is_call, mentions_path, config_field
from expr import show, walk, strip_ref
from rules_c08 import agg_field, unwrap_some

EXPLANATION = (
    "Path-sensitive product analysis of ResetSequence::into_stream_with_retry (coroutine MIR) and dominance rules on "
    "outer::inner::connect. (a/b) The CFG is explored in product with three abstract facts - the error flag the code "
    "keeps (T/F/unknown), a ghost 'this attempt failed' bit set on the timeout edge, when an Err item is sent and "
    "when the flag is loaded from Result::is_err of the item being yielded (forked both ways), and the connection slot "
    "(None/Some/unknown): at every start of a new attempt and at every return, failed => slot == None (reset on "
    "failure), and the slot is never cleared on a path without failure (kept on success); inner::connect is called "
    "only on the true edge of is_none(&src.inner) and only its Ok value is stored. (c) In connect every path to "
    "Ok(socket) passes, in order, a Registration exchange wired with the configured password and currency whose items "
    "are all `?`-checked, a GetSystemInfo exchange, and the TRUE edge of String == String on to_lowercase(config."
    "feig_serial) and to_lowercase(packet.device_id); the Abort arm and the unequal edge return Err. (d) Sequence::"
    "into_stream is called only inside connect and the retry wrapper, TcpStream.inner is private, and the client "
    "module reaches the terminal only through ResetSequence on self.socket. (e) The wrapper clears the slot only "
    "*after* it has yielded the failing item, so the reset runs only if the consumer polls the stream again: in every "
    "client function, on the edge where a polled item is an Err, every path polls the same stream again before the "
    "function can return (a `?` / early return there would drop the coroutine suspended at the yield, the failed "
    "connection would stay in the slot and be reused unvetted by the next call).")
RULE = ("product CFG x (flag, failed, slot); edge-dominance of connect by is_none; ordered dominance chain in connect; "
        "who-may-call / visibility tables.")

RETRY = "zvt_feig_terminal::stream::ResetSequence::into_stream_with_retry::{closure#0}"
CONNECT = "zvt_feig_terminal::stream::outer::inner::connect::{closure#0}"
SEND = "async_stream::yielder::Sender::<T>::send"
SEQ_STREAM = "zvt::sequences::Sequence::into_stream"


def inner_path(e):
    e = strip_ref(e)
    if e[0] == "proj" and strip_ref(e[1])[0] in ("var", "path") and tuple(e[2])[-1:] == ("inner",):
        return True         # the slot through a borrowed binding (`self.inner` of an inlined `&mut self` helper)
    return e[0] == "path" and e[2][-1:] == ("inner",)          # the connection slot of the TcpStream argument (any name)


def _is_slot(x):
    """the Option is the connection slot itself (through &, as_ref, as_mut), not some value computed from it - the item
    `stream.next()` yields is computed from the slot (the stream runs on it) but says nothing about the slot"""
    x = strip_ref(x)
    while x[0] == "call" and x[2] and x[1].endswith(("Option::<T>::as_mut", "Option::<T>::as_ref", "Option::<T>::as_deref_mut",
                                                     "Option::<T>::as_deref")):
        x = strip_ref(x[2][0])
    return inner_path(x)


def run(ctx, chk):
    crate = ctx.crate("zvt_feig_terminal")
    retry(chk, crate)
    connect(chk, crate)
    bypass(chk, crate, ctx)
    drained(chk, crate, ctx)


# ------------------------------------------------------------------ (a)(b)

def retry(chk, crate):
    f = Fn(crate, "into_stream_with_retry", RETRY)
    b, tr, ex = f.b, f.tr, f.ex
    # classify blocks
    slot_writes = {}       # bb -> 'N' | 'S'
    for i in sorted(f.reach):
        for st in b.blocks[i]["stmts"]:
            if st["s"] != "assign" or not st["p"]["p"]:
                continue
            last = st["p"]["p"][-1]
            if isinstance(last, dict) and last.get("n") == "inner" and "core::option::Option" in ty_str(last.get("ty")):
                e = ex.rvalue(st["rv"])
                if e[0] == "agg" and e[1].endswith("Option::None"):
                    slot_writes[i] = ("N", e)
                elif e[0] == "agg" and e[1].endswith("Option::Some"):
                    slot_writes[i] = ("S", e)
                else:
                    slot_writes[i] = ("U", e)
    takes = [bb for bb, t_ in b.calls() if callee(t_) == "core::option::Option::<T>::take" and t_["args"] and
             any(inner_path(x) for x in walk(ex.operand(t_["args"][0])))]
    chk.require(any(v[0] == "N" for v in slot_writes.values()) or bool(takes), "C09-a/anchor", "src.inner = None",
                "no statement clears the connection slot", "", f.sp(), nontrivial=False)
    # the error flag(s): every bool local is tracked path-sensitively (constants, copies, and the two
    # outcomes of Result::is_err); the anchor only requires that the item's status is inspected at all
    is_err_calls = [bb for bb, t in f.b.calls() if callee(t) == "core::result::Result::<T, E>::is_err"]
    chk.require(len(is_err_calls) >= 1, "C09-a/anchor", "is_err flag", "the status of the yielded item is never inspected "
                "(no Result::is_err)", "", f.sp(), nontrivial=False)
    bool_locals = {l for l, loc in enumerate(b.locals) if ty_str(loc["ty"]) == "bool"}
    # loop head = the `retry.next()` call; inner poll = `stream.next()`
    heads = []
    for bb, t in f.b.calls():
        if callee(t) == NEXT and "RetryStream" in ty_str(t["f"]["a"][0]):
            heads.append(bb)
    if not chk.require(len(heads) == 1, "C09-a/anchor", "retry.next()", "retry loop head not found (%d)" % len(heads), "", f.sp(),
                       nontrivial=False):
        return
    head = heads[0]
    timeouts = []
    for i in sorted(f.reach):
        t = b.blocks[i]["term"]
        if t["t"] == "switch":
            v = tr.value(t["d"])
            if v.kind == "rv" and v.rv["r"] == "discr" and ty_str(v.rv["of"]).startswith("core::result::Result<") and \
                    "tokio::time::error::Elapsed" in ty_str(v.rv["of"]):
                timeouts.append((i, t))
    # product exploration: (block, failed-ghost, slot, known constants).  Constant tracking (bool flags, enum
    # variants incl. payloads, Try::branch, from_residual) is mirlite.bool_transfer - the same machinery as
    # feasible_reach - plus one fork: Result::is_err(item) is true exactly when this attempt failed.
    from mirlite import bool_transfer, bool_switch_target, switch_relevant_locals, prune_known
    relevant = switch_relevant_locals(b)
    findings = {}
    pending_at_yield = []
    start = (0, False, "U", frozenset())
    seen = {start: None}
    dq = deque([start])

    def report(rule, msg, state):
        if (rule, msg) not in findings:
            findings[(rule, msg)] = f.sp(state[0])
            import os
            if os.environ.get("C09_DEBUG"):
                cur = state
                tr_ = []
                while cur is not None:
                    tr_.append(cur)
                    cur = seen.get(cur)
                print("TRACE", rule, [("bb%d" % s[0], s[1], s[2]) for s in reversed(tr_)][-60:])

    def slot_call(t):
        """'S' / 'N' if the call stores into / empties the connection slot through the Option API."""
        n = callee(t)
        if not t["args"]:
            return None
        a0 = ex.operand(t["args"][0])
        if not any(inner_path(x) for x in walk(a0)):
            return None
        if n in ("core::option::Option::<T>::insert", "core::option::Option::<T>::replace", "core::option::Option::<T>::get_or_insert"):
            return "S"
        if n == "core::option::Option::<T>::take":
            return "N"
        return None

    def succs(state):
        bb, failed, slot, kn = state
        blk = b.blocks[bb]
        t = blk["term"]
        known = prune_known(bool_transfer(b, bb, dict(kn)), relevant)
        only = bool_switch_target(b, bb, known)
        if bb in slot_writes:
            kind = slot_writes[bb][0]
            if kind == "N":
                if not failed:
                    report("C09-b/keep-on-success", "the connection is dropped on a path on which no step of the exchange failed", state)
                slot = "N"
            elif kind == "S":
                slot = "S"
            else:
                slot = "U"
        out = []
        k = t["t"]
        if k == "call":
            n = callee(t)
            sc = slot_call(t)
            if sc == "N":
                if not failed:
                    report("C09-b/keep-on-success", "the connection is dropped on a path on which no step of the exchange failed", state)
                slot = "N"
            elif sc == "S":
                slot = "S"
            if bb == head:
                if failed and slot != "N":
                    report("C09-a/reset-on-failure", "a new attempt starts although the previous one failed and the "
                           "connection was not dropped", state)
                failed = False
            if n == SEQ_STREAM and slot == "N":
                report("C09-b/stream-on-live-connection", "the command stream is started on a path on which the connection slot is "
                       "empty (a failed or timed-out reconnect that is not reported: the exchange runs on `None` - a panic, neither "
                       "a result nor an error)", state)
            if n == SEND:
                a = ex.operand(t["args"][1])
                if a[0] == "agg" and a[1] == "core::result::Result::Err":
                    failed = True
                if failed and slot != "N":
                    pending_at_yield.append(bb)     # the failing item is handed out before the slot is cleared
            if t["to"] is None:
                return out
            if n == "core::result::Result::<T, E>::is_err" and not t["dest"]["p"] and t["dest"]["l"] in bool_locals:
                dl = t["dest"]["l"]
                kt, kf = dict(known), dict(known)
                kt[dl], kf[dl] = ("b", True), ("b", False)
                out.append((t["to"], True, slot, frozenset(kt.items())))
                out.append((t["to"], failed, slot, frozenset(kf.items())))
                return out
            out.append((t["to"], failed, slot, frozenset(known.items())))
            return out
        kn2 = frozenset(known.items())
        if k == "switch":
            e = ex.operand(t["d"])
            if only is not None:
                return [(only, failed, slot, kn2)]
            if is_call(e, "Option::<T>::is_none") and any(inner_path(x) for x in walk(e)):
                for v, tb in t["targets"]:
                    if v == 0 and slot != "N":
                        out.append((tb, failed, "S", kn2))
                if slot != "S":
                    out.append((t["else"], failed, "N", kn2))
                return out
            if is_call(e, "Option::<T>::is_some") and any(inner_path(x) for x in walk(e)):
                # the same test the other way round (`if src.inner.is_some() { return Ok(()) }` of an inlined helper)
                for v, tb in t["targets"]:
                    if v == 0 and slot != "S":
                        out.append((tb, failed, "N", kn2))
                if slot != "N":
                    out.append((t["else"], failed, "S", kn2))
                return out
            if (bb, t) in [(x, y) for x, y in timeouts]:
                for v, tb in t["targets"]:
                    out.append((tb, failed or v == 1, slot, kn2))
                if b.blocks[t["else"]]["term"]["t"] != "unreachable":
                    out.append((t["else"], True, slot, kn2))
                return out
            v = tr.value(t["d"])
            if v.kind == "rv" and v.rv["r"] == "discr":
                ty_ = ty_str(v.rv["of"])
                if ty_.startswith("core::task::poll::Poll"):
                    return [(tb, failed, slot, kn2) for val, tb in t["targets"] if val == 0]
                # Some/None of the slot itself: `match src.inner.as_mut() { Some(t) => .., None => .. }`
                de = ex.operand(t["d"])
                if ty_.startswith("core::option::Option<") and _is_slot(de[1] if de[0] == "discr" else de):
                    some_t = [tb for val, tb in t["targets"] if val == 1] or [t["else"]]
                    none_t = [tb for val, tb in t["targets"] if val == 0] or [t["else"]]
                    if slot != "N":
                        out.append((some_t[0], failed, "S", kn2))
                    if slot != "S":
                        out.append((none_t[0], failed, "N", kn2))
                    return out
            return [(s, failed, slot, kn2) for s in b.succ[bb]]
        if k == "return":
            if failed and slot != "N":
                report("C09-a/reset-on-failure", "the stream ends after a failed attempt without dropping the connection", state)
            return out
        return [(s, failed, slot, kn2) for s in b.succ[bb]]

    n = 0
    while dq:
        s = dq.popleft()
        n += 1
        for ns in succs(s):
            if ns[0] is None:
                continue
            if ns not in seen:
                seen[ns] = s
                dq.append(ns)
    chk.analysed["retry_product_states"] = n
    chk.analysed["reset_pending_at_yield"] = sorted(set(pending_at_yield))
    for rule in ("C09-a/reset-on-failure", "C09-b/keep-on-success", "C09-b/stream-on-live-connection"):
        mine = [(m, sp) for (r, m), sp in findings.items() if r == rule]
        if mine:
            for m, sp in mine:
                chk.fail(rule, "into_stream_with_retry", m, sp)
        else:
            chk.ok(rule, "into_stream_with_retry", "%d product states" % n, f.sp())
    chk.require(len(timeouts) >= 1, "C09-a/timeout-arm", "into_stream_with_retry",
                "no timeout result test found", "", f.sp(), nontrivial=False)
    # connect only when no live connection, and only its Ok value is stored
    cc = f.calls(lambda n_, t: n_ == "zvt_feig_terminal::stream::outer::inner::connect")
    tests = f.bool_switches(lambda e: is_call(e, "Option::<T>::is_none") and any(inner_path(x) for x in walk(e)))
    for sbb, sx, st_, sf_ in f.bool_switches(lambda e: is_call(e, "Option::<T>::is_some") and any(inner_path(x) for x in walk(e))):
        tests.append((sbb, sx, sf_, st_))       # is_some: the "no connection" edge is the false edge
    # the same test spelled as a match on the slot: `match src.inner.as_mut() { Some(t) => .., None => <connect> }`
    from client import option_switches
    def is_slot(x):
        # the tested Option *is* the slot (through &, as_ref, as_mut), not some value computed from it
        x = strip_ref(x)
        while x[0] == "call" and x[2] and x[1].endswith(("Option::<T>::as_mut", "Option::<T>::as_ref", "Option::<T>::as_deref_mut",
                                                         "Option::<T>::as_deref")):
            x = strip_ref(x[2][0])
        return inner_path(x)
    for obb, ox, some_t, none_t in option_switches(f, is_slot):
        if obb not in [x[0] for x in tests]:
            tests.append((obb, ox, none_t, some_t))
    if chk.require(len(cc) == 1 and len(tests) == 1, "C09-b/reconnect-shape", "into_stream_with_retry",
                   "expected one connect call and one is_none(&src.inner) test, found %d/%d" % (len(cc), len(tests)), "", f.sp()):
        tbb, e, tt, ft = tests[0]
        chk.require(f.edge_dominates((tbb, tt), cc[0][0]), "C09-b/reconnect-only-when-dead", "inner::connect",
                    "a new connection is opened although a live one exists (normal completion must keep the connection)",
                    "under src.inner.is_none()", f.sp(cc[0][0]))
        # the sequence stream is started only when a connection exists: dominated by the test
        seqs = f.calls(lambda n_, t: n_ == SEQ_STREAM)
        chk.require(len(seqs) == 1 and f.b.dominates(tbb, seqs[0][0]), "C09-b/stream-after-check", "Sequence::into_stream",
                    "the command stream is started without checking the connection slot", "", f.sp(), nontrivial=False)
        if seqs:
            a = f.ex.operand(seqs[0][1]["args"][1])

            def from_slot(x):
                # the slot or its content (`(src.inner as Some).0` of a `Some(ref mut t)` pattern)
                x = strip_ref(x)
                return inner_path(x) or (x[0] == "path" and "inner" in tuple(x[2])) or \
                    (x[0] == "proj" and strip_ref(x[1])[0] in ("var", "path") and "inner" in tuple(x[2]))
            uses = any(from_slot(x) for x in walk(a))
            if not uses:
                # a borrowed binding of the slot's content (`match src.inner.as_mut() { Some(t) => t, None => src.inner.insert(..) }`):
                # every definition of the variable must come out of the slot
                va = strip_ref(a)
                if va[0] == "var":
                    ds = f.tr.defs.get(va[2], [])
                    exprs = [f.ex.rvalue(d[3]["rv"]) if d[2] == "assign" else f.call_expr(d[3], d[0]) for d in ds if d[2] in ("assign", "call")]
                    uses = bool(exprs) and all(any(from_slot(x) for x in walk(e_)) for e_ in exprs)
            chk.require(uses, "C09-d/uses-slot", "Sequence::into_stream",
                        "the command stream does not run on the vetted connection slot: %s" % show(a)[:100], "src.inner", f.sp(seqs[0][0]))
    stores = dict(slot_writes)
    for bb, t_ in b.calls():
        if callee(t_) in ("core::option::Option::<T>::insert", "core::option::Option::<T>::replace", "core::option::Option::<T>::get_or_insert") \
                and len(t_["args"]) == 2 and any(inner_path(x) for x in walk(ex.operand(t_["args"][0]))):
            stores[bb] = ("S", ("agg", "core::option::Option::Some", (ex.operand(t_["args"][1]),)))
    for bb, (kind, e) in stores.items():
        if kind == "S":
            e = ex.select_variant(e)          # `Ok(conn)` of an inlined helper
            from_connect = any(x[0] == "call" and x[1] == "zvt_feig_terminal::stream::outer::inner::connect" for x in walk(e))
            flds = [x[2] for x in walk(e) if x[0] == "proj"]
            ok_payload = any("@Ok" in fl for fl in flds)
            chk.require(from_connect and ok_payload, "C09-c/only-vetted-stored", "src.inner = Some(..)",
                        "the stored connection is %s, not the Ok value of inner::connect" % show(e)[:140], "Ok(connect())", f.sp(bb))
        elif kind == "U":
            chk.fail("C09-c/only-vetted-stored", "src.inner = ..", "unrecognised write to the connection slot: %s" % show(e)[:100], f.sp(bb))


# ------------------------------------------------------------------ (c)

def connect(chk, crate):
    f = Fn(crate, "connect", CONNECT)
    oks = [(bb, e) for bb, e in f.ret_writes() if f.classify_ret(e) == "ok"]
    if not chk.require(len(oks) == 1, "C09-c/ok-return", "connect", "expected exactly one Ok return, found %d" % len(oks), "", f.sp()):
        return
    okbb, oke = oks[0]
    seqs = f.calls(lambda n, t: n == SEQ_STREAM)
    reg = [(bb, t) for bb, t in seqs if ty_str(t["f"]["a"][0]) == "zvt::sequences::Registration"]
    inf = [(bb, t) for bb, t in seqs if ty_str(t["f"]["a"][0]) == "zvt::feig::sequences::GetSystemInfo"]
    if not chk.require(len(reg) == 1 and len(inf) == 1 and len(seqs) == 2, "C09-c/handshake-shape", "connect",
                       "expected exactly Registration and GetSystemInfo exchanges, found %s" % [ty_str(t["f"]["a"][0]) for _, t in seqs],
                       "", f.sp()):
        return
    rbb, rt = reg[0]
    ibb, it = inf[0]
    chk.require(f.b.dominates(rbb, ibb) and f.b.dominates(ibb, okbb), "C09-c/handshake-order", "connect",
                "a connection can be handed out without registration followed by the identity query", "Registration < GetSystemInfo < Ok",
                f.sp(okbb))
    # registration request wiring
    req = f.ex.operand(rt["args"][0])
    R = "zvt::packets::Registration::Registration"
    pw = agg_field(req, R, "password")
    cur = unwrap_some(agg_field(req, R, "currency"))
    chk.require(pw is not None and config_field(pw, "feig_config", "password"), "C09-c/registration-password", "connect",
                "registration password is %s, expected config.feig_config.password" % (show(pw) if pw else None), "config password",
                f.sp(rbb))
    chk.require(cur is not None and config_field(cur, "feig_config", "currency"), "C09-c/registration-currency", "connect",
                "registration currency is %s, expected config.feig_config.currency" % (show(cur) if cur else None), "config currency",
                f.sp(rbb))
    # every registration item is `?`-checked: the loop over the registration stream propagates Err
    # `?` or its spelled-out form `Err(e) => return Err(e)`
    props = [(bb, e) for bb, e in f.ret_writes() if f.classify_ret(e) in ("propagate", "err")]

    def from_stream(e, call_bb):
        return any(x[0] == "call" and x[1] == SEQ_STREAM and x[3] == call_bb for x in walk(e))
    chk.require(any(from_stream(e, rbb) for _, e in props), "C09-c/registration-checked", "connect",
                "a failed registration item does not abort the handshake", "`?` on every registration item", f.sp(rbb))
    # ... and *every* failed item does: from the Err side of any test of an item of the two handshake streams, neither the next
    # exchange nor the successful return is reachable (a failure that is only logged lets an unregistered connection through)
    from mirlite import feasible_reach
    for what, call_bb, later in (("registration", rbb, [ibb, okbb]), ("identity query", ibb, [okbb])):
        for i in sorted(f.reach):
            t = f.b.blocks[i]["term"]
            if t["t"] != "switch":
                continue
            e = f.ex.operand(t["d"])
            if e[0] != "discr" or not any(x[0] == "call" and x[1] == NEXT and any(from_stream(y, call_bb) for y in walk(x)) for x in walk(e)):
                continue
            v = f.tr.value(t["d"])
            of = ty_str(v.rv.get("of")) if v.kind == "rv" and v.rv["r"] == "discr" else ""
            if not of.startswith(("core::result::Result<", "core::ops::control_flow::ControlFlow<")):
                continue
            err_t = dict((v_, tb) for v_, tb in t["targets"]).get(1)
            if err_t is None:
                err_t = t["else"] if not any(v_ == 1 for v_, _ in t["targets"]) and any(v_ == 0 for v_, _ in t["targets"]) else None
            if err_t is None:
                continue
            fr = feasible_reach(f.b, err_t)
            passed = [b_ for b_ in later if b_ in fr]
            chk.require(not passed, "C09-c/failed-item-aborts", "connect (%s)" % what,
                        "after a failed %s item the handshake can still go on (to the next exchange or to Ok): the failure is not "
                        "returned on every path" % what, "Err -> return Err", f.sp(i))
    chk.require(any(from_stream(e, ibb) for _, e in props), "C09-c/identity-checked", "connect",
                "a failed identity query does not abort the handshake", "`?` on the system-info item", f.sp(ibb))
    # both streams run on the socket under construction, which is what is returned
    def base_local(operand):
        v = f.tr.value(operand)
        if v.kind in ("ref", "place"):
            return v.place.l
        if v.kind == "agg" or v.kind == "call" or v.kind == "rv":
            p = op_place(operand)
            return f.tr.nplace(p).l if p is not None else None
        return None
    ok_local = None
    for i in sorted(f.reach):
        for st in f.b.blocks[i]["stmts"]:
            if st["s"] == "assign" and st["p"]["l"] == 0 and st["rv"]["r"] == "agg" and st["rv"].get("vname") == "Ok":
                ok_local = base_local(st["rv"]["ops"][0])
    locs = {nm: base_local(t["args"][1]) for nm, (bb, t) in (("Registration", reg[0]), ("GetSystemInfo", inf[0]))}
    chk.require(ok_local is not None and all(v == ok_local for v in locs.values()), "C09-c/returns-vetted-socket", "connect",
                "the returned transport (_%s) is not the one the handshake ran on (%s)" % (ok_local, locs),
                "Ok(socket) == handshake socket", f.sp(okbb))
    # serial comparison
    eqs = f.bool_switches(lambda e: is_call(e, "PartialEq::eq") or is_call(e, "PartialEq::ne"))
    cand = []
    for bb, e, tt, ft in eqs:
        e2 = strip_ref(e)
        if e2[1].endswith("PartialEq::ne"):
            tt, ft = ft, tt          # `a != b`: the equal edge is the false edge
        lows = [x for x in walk(e2) if x[0] == "call" and x[1] == "alloc::str::<impl str>::to_lowercase"]
        if len(e2[2]) == 2:
            cand.append((bb, e2, tt, ft, lows))
    if chk.require(len(cand) == 1, "C09-c/serial-test", "connect", "expected one equality test of serial numbers, found %d" % len(cand),
                   "", f.sp()):
        bb, e2, tt, ft, lows = cand[0]
        a, b_ = strip_ref(e2[2][0]), strip_ref(e2[2][1])

        def lowered_of(x, what):
            return x[0] == "call" and x[1] == "alloc::str::<impl str>::to_lowercase" and what(x)
        is_cfg = lambda x: any(y[0] in ("path", "proj") and y[2][-1:] == ("feig_serial",) for y in walk(x))
        is_dev = lambda x: any(y[0] in ("path", "proj") and y[2][-1:] == ("device_id",) for y in walk(x))
        sides = (lowered_of(a, is_cfg) and lowered_of(b_, is_dev)) or (lowered_of(a, is_dev) and lowered_of(b_, is_cfg))
        chk.require(sides, "C09-c/serial-operands", "connect",
                    "the identity check compares %s with %s; expected to_lowercase(config.feig_serial) == to_lowercase(packet.device_id)"
                    % (show(a)[:80], show(b_)[:80]), "case-insensitive serial comparison", f.sp(bb))
        chk.require(f.edge_dominates((bb, tt), okbb), "C09-c/serial-guards-ok", "connect",
                    "Ok(socket) is reachable without the serial numbers having compared equal", "Ok only on the equal edge", f.sp(okbb))
        fr = f.reach_from(ft)
        rets = [(rb, e) for rb, e in f.ret_writes() if rb in fr]
        # (no successful return is reachable from the unequal edge - the reachability follows known Ok/Err values through
        # `?`, so an `Err` built in an inlined helper and handed on by the caller's `?` counts as the failure it is)
        chk.require(rets and all(f.classify_ret(e) in ("err", "propagate") for _, e in rets), "C09-c/wrong-device-rejected", "connect",
                    "a terminal with a different serial number does not make connect fail", "Err on the unequal edge", f.sp(ft))
        # device_id comes from the system-info reply of this connection
        chk.require(any(from_stream(x, ibb) for x in (a, b_)), "C09-c/serial-source", "connect",
                    "the compared device id does not come from this connection's system-info reply", "", f.sp(bb), nontrivial=False)


# ------------------------------------------------------------------ (d)

def bypass(chk, crate, ctx):
    callers = {}
    for b in crate.bodies.values():
        root = b.raw.get("root", "")
        if "::mock_inner::" in root or "::test::" in root:
            continue
        for bb, t in b.calls():
            n = callee(t)
            if n == SEQ_STREAM:
                callers.setdefault(root, []).append(t.get("sp"))
    allowed = {"zvt_feig_terminal::stream::outer::inner::connect",
               "zvt_feig_terminal::stream::ResetSequence::into_stream_with_retry"}
    for root, sps in callers.items():
        chk.require(root in allowed, "C09-d/no-bypass", root,
                    "Sequence::into_stream is called directly from %s: the exchange bypasses reconnect/reset handling" % root,
                    "allowed caller", sps[0])
    chk.require(set(callers) == allowed, "C09-d/callers-present", "Sequence::into_stream callers",
                "expected callers %s, found %s" % (sorted(allowed), sorted(callers)), "", nontrivial=False)
    adt = crate.adts.get("zvt_feig_terminal::stream::TcpStream")
    if chk.require(adt is not None, "C09-d/anchor", "TcpStream", "struct not found", "", nontrivial=False):
        for fld in adt["variants"][0]["fields"]:
            if fld["name"] == "inner":
                chk.require(fld["vis"] != "Public" and fld["vis"].endswith("::stream))"), "C09-d/slot-private", "TcpStream.inner",
                            "the connection slot is visible outside the stream module (%s)" % fld["vis"], "private to stream",
                            adt.get("sp"))
    # who writes TcpStream.inner at all (any body in the crate outside stream.rs)
    for b in crate.bodies.values():
        if "::mock_inner::" in b.id or b.id.startswith("zvt_feig_terminal::stream::"):
            continue
        for i, blk in enumerate(b.blocks):
            for st in blk["stmts"]:
                if st["s"] == "assign" and st["p"]["p"]:
                    last = st["p"]["p"][-1]
                    if isinstance(last, dict) and last.get("n") == "inner" and "PacketTransport" in ty_str(last.get("ty")):
                        chk.fail("C09-d/slot-private", b.id, "connection slot written outside the stream module", st.get("sp"))
    chk.floor("C09 obligations", len(chk.obligations), 24)


# ------------------------------------------------------------------ (e)

CLIENT_FNS = ["read_card", "begin_transaction", "commit_transaction", "cancel_transaction_by_receipt_no", "end_of_day",
              "initialize", "set_terminal_id", "get_system_info", "get_pending"]


def item_error_edges(f, zvt_adts):
    """Edges on which an item polled from a reply stream is known to be Err:
    value 1 of a switch on discr(Result<ReplyEnum, anyhow::Error>), or the Break edge of the
    switch that follows Try::branch on such a Result."""
    out = []
    def is_item_ty(ty):
        if not ty or ty.get("k") != "adt" or ty.get("n") != "core::result::Result":
            return False
        a = ty.get("a") or []
        if len(a) != 2 or ty_str(a[1]) != "anyhow::Error":
            return False
        return a[0].get("k") == "adt" and a[0].get("n") in zvt_adts
    for i in sorted(f.reach):
        t = f.b.blocks[i]["term"]
        if t["t"] == "switch":
            v = f.tr.value(t["d"])
            if v.kind == "rv" and v.rv["r"] == "discr" and is_item_ty(v.rv["of"]):
                ed = f.switch_edges(i)
                tgt = ed.get(1, ed["else"])
                out.append((i, tgt, "is Err"))
        if t["t"] == "call" and callee(t) == "core::ops::try_trait::Try::branch" and t["f"]["a"] and is_item_ty(t["f"]["a"][0]):
            nb = t["to"]
            seen = set()
            while nb is not None and nb not in seen:
                seen.add(nb)
                nt = f.b.blocks[nb]["term"]
                if nt["t"] == "switch":
                    ed = f.switch_edges(nb)
                    out.append((nb, ed.get(1, ed["else"]), "`?` on the item"))
                    break
                if nt["t"] in ("goto", "falseedge"):
                    nb = nt["to"]
                else:
                    break
    return out


def drained(chk, crate, ctx):
    zvt = ctx.crate("zvt")
    # reply enums = the types a packet can be parsed into (impl ZvtParser)
    replies = {ty_str(im["self"]) for im in zvt.impls if im.get("trait") == "zvt_builder::ZvtParser"}
    # (counted per command: several commands may share one reply enum)
    n_cmd = sum(1 for im in zvt.impls if im.get("trait") == "zvt::sequences::Sequence" and
                any(ty_str(t_["ty"]) in replies for t_ in im.get("types", []) if t_.get("name") == "Output"))
    chk.floor("commands whose reply enum implements ZvtParser", n_cmd, 17)
    n_edges = 0
    for name in CLIENT_FNS:
        try:
            f = Fn(crate, name)
        except KeyError:
            chk.fail("C09-e/anchor", name, "client function not found")
            continue
        if not f.stream_calls():
            continue
        if not chk.analysed.get("reset_pending_at_yield"):
            chk.ok("C09-e/failed-exchange-drained", name, "the wrapper clears the slot before it yields a failing item: "
                   "nothing is left to do after the yield", f.sp(), nontrivial=False)
            n_edges += 1
            continue
        polls = {bb for bb, t in f.b.calls() if callee(t) == NEXT}
        rets = {i for i in f.reach if f.b.blocks[i]["term"]["t"] == "return"}
        edges = item_error_edges(f, replies)
        if not edges:
            # errors may be dropped by a combinator before the loop sees them: `.filter_map(|r| r.ok())` polls the
            # wrapped stream again for every Err item, which drains it just like `continue`
            fm = [t_ for _, t_ in f.b.calls() if callee(t_) == NEXT and "FilterMap<" in ty_str(t_["f"]["a"][0])]
            bare = False
            for i_ in sorted(f.reach):
                t_ = f.b.blocks[i_]["term"]
                if t_["t"] == "switch":
                    v_ = f.tr.value(t_["d"])
                    if v_.kind == "rv" and v_.rv["r"] == "discr":
                        ty_ = v_.rv["of"]
                        if ty_ and ty_.get("n") == "core::option::Option" and ty_.get("a") and ty_str(ty_["a"][0]) in replies:
                            bare = True
            if fm and bare:
                chk.ok("C09-e/item-check", name, "error items are filtered out by filter_map (which keeps polling the stream)", f.sp(),
                       nontrivial=False)
                chk.ok("C09-e/failed-exchange-drained", name, "no Err item reaches the loop; FilterMap drains the stream", f.sp())
                n_edges += 1
                continue
        chk.require(len(edges) >= 1, "C09-e/item-check", name,
                    "no test of the polled item's Ok/Err status found: cannot show that a failed exchange is drained", "",
                    f.sp(), nontrivial=False)
        for sw, tgt, how in edges:
            n_edges += 1
            region = f.reach_from(tgt, cut_blocks=polls)
            bad = sorted(region & rets)
            chk.require(not bad, "C09-e/failed-exchange-drained", name,
                        "when a polled item %s the function can return without polling the stream again: the wrapper's "
                        "coroutine is dropped while suspended at the yield of that item, its `src.inner = None` never runs, "
                        "and the failed connection is reused by the next call" % how,
                        "stream polled again before any return", f.sp(sw))
    chk.floor("C09-e item error edges", n_edges, 6)
