"""Compact view of a body: only calls (non-await-plumbing), switches, asserts, returns, aggregates of ADTs."""
import sys, facts, mirlite
from mirlite import *
out, idx = facts.build()
crate = sys.argv[1]; pat = sys.argv[2]
c = mirlite.Crate(facts.load(out, idx, crate))
def body_named(b,l):
    return b.locals[l].get("name") is not None
PLUMB = ("core::future::", "core::pin::Pin", "core::fmt::", "log::", "core::ops::drop", "core::mem::drop")
for b in c.bodies.values():
    if pat not in b.id: continue
    print("fn", b.id, b.sp())
    reach = b.reachable(0)
    for i in sorted(reach):
        blk = b.blocks[i]
        lines = []
        for st in blk["stmts"]:
            if st["s"] == "assign" and "x" in st and ("log" in st["x"] or "format_args" in st["x"] or "Await" in st["x"]) : continue
            if st["s"] == "assign":
                rv = st["rv"]
                if rv["r"] in ("agg","bin","discr","cast","un") or st["p"]["p"] or body_named(b, st["p"]["l"]):
                    lines.append("    %s = %s" % (place_str(st["p"], b.raw), rv_str(rv, b.raw)))
        t = blk["term"]
        x = t.get("x","")
        show = False
        if t["t"] == "call":
            n = callee(t)
            if not n.startswith(PLUMB) and not ("log" in x or "format_args" in x): show = True
        elif t["t"] == "switch" and "Await" not in x and "log" not in x: show = True
        elif t["t"] in ("return","assert","yield") and "Await" not in x: show = True
        if show or lines:
            print("  bb%d:" % i)
            for l in lines: print(l[:240])
            if show: print("    " + term_str(t, b.raw)[:260] + "   //" + t.get("sp","").rsplit("/",1)[-1])
