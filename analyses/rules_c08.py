"""C08 — commit releases exactly the unused part of the pre-authorisation."""
from mirlite import callee, ty_str
from client import Fn, FEIG, STREAM, config_field, mentions_path
from expr import show, walk, strip_ref, Ex
from rules_c07 import field_of_agg, expand_var

EXPLANATION = (
    "Shape and provenance rules on the request/summary construction in the client (expression trees rebuilt from MIR "
    "def-use). Decided: the released amount is usize::saturating_sub(config.pre_authorization_amount, amount as usize) "
    "- resolved callee, operand order and operand sources (a plain `-`, wrapping_sub, swapped operands or another "
    "source are reported), the u64->usize cast is lossless on the analysed target (pointer width read from the "
    "compiler session); every request field is wired from the source the specification names (configured amount / "
    "currency, payment type constant 0x40, BMP60 prefix 'AC' + caller token, receipt number of the reservation); the "
    "TransactionSummary fields are the same-named fields of the last StatusInformation of the reversal exchange, "
    "mapped by closures that only convert their argument. Not decided: digit formatting of date/time strings, the "
    "terminal's ledger. " 
    "Receipt chain: the receipt number recorded for a token is the last one announced during its reservation and the one sent with the partial reversal (clauses shared with C07-c/d).")
RULE = "expression-tree equality of request fields with the wiring table; callee identity saturating_sub; closure purity."

PAY = "const zvt_feig_terminal::feig::PAYMENT_TYPE"
PREFIX = "const zvt_feig_terminal::feig::BMP_PREFIX"


def const_item_value(crate, name):
    """Evaluate a simple const item body: Some(<int>) | <int> | "str"."""
    b = crate.bodies.get(name)
    if b is None:
        return None
    ex = Ex(b)
    for i in sorted(b.reachable(0)):
        for st in b.blocks[i]["stmts"]:
            if st["s"] == "assign" and st["p"]["l"] == 0:
                return ex.rvalue(st["rv"])
    return None


def is_cfg(e, *fields):
    return config_field(e, "feig_config", *fields)


def unwrap_some(e):
    if e is not None and e[0] == "agg" and e[1].endswith("Option::Some"):
        return e[2][0]
    return None


def agg_field(e, agg_name, field):
    for x in walk(e):
        if x[0] == "agg" and x[1] == agg_name and field in x[3]:
            return x[2][x[3].index(field)]
    return None


def to_string_of(e):
    """inner expr of `ToString::to_string(&X)`"""
    # (`to_string()`, `to_owned()`, `String::from(..)`, `.into()` of a &str are the same String)
    if e is not None and e[0] == "call" and e[1] in ("alloc::string::ToString::to_string", "alloc::borrow::ToOwned::to_owned",
                                                     "core::convert::From::from", "core::convert::Into::into",
                                                     "alloc::str::<impl str>::to_owned", "alloc::string::String::from") and len(e[2]) == 1:
        return strip_ref(e[2][0])
    return None


def _run_own(ctx, chk):
    crate = ctx.crate("zvt_feig_terminal")
    ptr = crate.data.get("ptr_width")
    pay = const_item_value(crate, "zvt_feig_terminal::feig::PAYMENT_TYPE")
    chk.require(pay is not None and unwrap_some(pay) == ("const", 0x40), "C08-b/payment-type-const", "PAYMENT_TYPE",
                "payment type constant is %s, specification table 4 says 0x40" % (show(pay) if pay else None), "Some(0x40)")
    pre = const_item_value(crate, "zvt_feig_terminal::feig::BMP_PREFIX")
    chk.require(pre == ("const", "AC"), "C08-b/bmp-prefix-const", "BMP_PREFIX",
                "BMP60 prefix constant is %s, expected 'AC'" % (show(pre) if pre else None), "'AC'")

    def check_bmp60(f, req, inst, sp):
        b60p = agg_field(req, "zvt::packets::tlv::Bmp60::Bmp60", "bmp_prefix")
        b60d = agg_field(req, "zvt::packets::tlv::Bmp60::Bmp60", "bmp_data")
        p = to_string_of(b60p)
        d = to_string_of(b60d)
        chk.require(p is not None and (p == ("const", PREFIX) or p == ("const", "AC")), "C08-b/wiring", inst + ".tlv.bmp_data.bmp_prefix",
                    "BMP60 prefix is %s, expected the constant 'AC'" % (show(b60p) if b60p else None), "'AC'", sp)
        chk.require(d is not None and d[0] == "path" and d[1] == f.param(2) and not d[2], "C08-b/wiring", inst + ".tlv.bmp_data.bmp_data",
                    "BMP60 reference is %s, expected the caller's token" % (show(b60d) if b60d else None), "token", sp)

    def wired(f, req, agg, field, pred, what, inst, sp):
        v = agg_field(req, agg, field)
        inner = unwrap_some(v) if v is not None else None
        chk.require(inner is not None and pred(inner), "C08-b/wiring", "%s.%s" % (inst, field),
                    "%s.%s is %s, expected %s" % (inst, field, show(v)[:120] if v else None, what), what, sp)

    # ---- begin: Reservation
    f = Fn(crate, "begin_transaction")
    st = [(bb, t) for bb, t in f.stream_calls() if f.seq_of(t) == "zvt::sequences::Reservation"]
    if chk.require(len(st) == 1, "C08/anchor", "begin_transaction", "Reservation exchange not found", "", nontrivial=False):
        req = f.ex.operand(st[0][1]["args"][0])
        R = "zvt::packets::Reservation::Reservation"
        sp = f.sp(st[0][0])
        wired(f, req, R, "amount", lambda e: is_cfg(e, "pre_authorization_amount"), "config.feig_config.pre_authorization_amount", "Reservation", sp)
        wired(f, req, R, "currency", lambda e: is_cfg(e, "currency"), "config.feig_config.currency", "Reservation", sp)
        v = agg_field(req, R, "payment_type")
        chk.require(v == ("const", PAY), "C08-b/wiring", "Reservation.payment_type",
                    "payment_type is %s, expected the PAYMENT_TYPE constant" % (show(v) if v else None), "PAYMENT_TYPE", sp)
        check_bmp60(f, req, "Reservation", sp)
        # all other fields come from Default::default()
        for x in walk(req):
            if x[0] == "agg" and x[1] == R:
                for name, val in zip(x[3], x[2]):
                    if name in ("amount", "currency", "payment_type", "tlv"):
                        continue
                    dflt = any(y[0] == "call" and y[1] == "core::default::Default::default" for y in walk(val))
                    chk.require(dflt, "C08-b/wiring", "Reservation." + name,
                                "field %s is set to %s; the reservation request carries only amount, currency, payment type "
                                "and reference" % (name, show(val)[:80]), "default", sp, nontrivial=False)
    # ---- commit: PartialReversal
    f = Fn(crate, "commit_transaction")
    st = [(bb, t) for bb, t in f.stream_calls() if f.seq_of(t) == "zvt::sequences::PartialReversal"]
    if chk.require(len(st) == 1, "C08/anchor", "commit_transaction", "PartialReversal exchange not found", "", nontrivial=False):
        req = f.ex.operand(st[0][1]["args"][0])
        P = "zvt::packets::PartialReversal::PartialReversal"
        sp = f.sp(st[0][0])
        amt = unwrap_some(agg_field(req, P, "amount"))
        ok = amt is not None and amt[0] == "call"
        chk.require(ok and amt[1] == "core::num::<impl usize>::saturating_sub", "C08-a/saturating", "PartialReversal.amount",
                    "released amount is computed by %s, not by usize::saturating_sub (a larger final amount would wrap "
                    "or panic)" % (show(amt)[:140] if amt else None), "saturating_sub", sp)
        if ok and len(amt[2]) == 2:
            a, b = amt[2]
            chk.require(is_cfg(a, "pre_authorization_amount"), "C08-a/minuend", "PartialReversal.amount",
                        "minuend is %s, expected the configured pre-authorisation amount" % show(a)[:100],
                        "config.pre_authorization_amount", sp)
            b2 = strip_ref(b)
            is_cast = b2[0] == "cast" and strip_ref(b2[1])[0] == "path" and strip_ref(b2[1])[1] == f.param(3) and b2[2] == "usize"
            plain = b2[0] == "path" and b2[1] == f.param(3)
            chk.require(is_cast or plain, "C08-a/subtrahend", "PartialReversal.amount",
                        "subtrahend is %s, expected the final amount argument" % show(b)[:100], "amount as usize", sp)
            chk.require(ptr == 64, "C08-a/cast-lossless", "amount as usize",
                        "u64 -> usize is not lossless on a %s-bit target" % ptr, "64-bit target", sp)
        wired(f, req, P, "currency", lambda e: is_cfg(e, "currency"), "config.feig_config.currency", "PartialReversal", sp)
        v = agg_field(req, P, "payment_type")
        chk.require(v == ("const", PAY), "C08-b/wiring", "PartialReversal.payment_type",
                    "payment_type is %s, expected the PAYMENT_TYPE constant" % (show(v) if v else None), "PAYMENT_TYPE", sp)
        check_bmp60(f, req, "PartialReversal", sp)
        summary(chk, crate, f)
    # ---- cancel: PreAuthReversal
    f = Fn(crate, "cancel_transaction_by_receipt_no")
    st = [(bb, t) for bb, t in f.stream_calls() if f.seq_of(t) == "zvt::sequences::PreAuthReversal"]
    if chk.require(len(st) == 1, "C08/anchor", f.short, "PreAuthReversal exchange not found", "", nontrivial=False):
        req = f.ex.operand(st[0][1]["args"][0])
        A = "zvt::packets::PreAuthReversal::PreAuthReversal"
        sp = f.sp(st[0][0])
        wired(f, req, A, "currency", lambda e: is_cfg(e, "currency"), "config.feig_config.currency", "PreAuthReversal", sp)
        v = agg_field(req, A, "payment_type")
        chk.require(v == ("const", PAY), "C08-b/wiring", "PreAuthReversal.payment_type",
                    "payment_type is %s, expected the PAYMENT_TYPE constant" % (show(v) if v else None), "PAYMENT_TYPE", sp)
    chk.floor("wiring obligations", len(chk.obligations), 20)


def summary(chk, crate, f):
    oks = [(bb, e) for bb, e in f.ret_writes() if f.classify_ret(e) == "ok"]
    if not chk.require(len(oks) == 1, "C08-b/summary", "commit_transaction", "expected one Ok(TransactionSummary) return", "",
                       f.sp()):
        return
    bb, e = oks[0]
    S = "zvt_feig_terminal::feig::TransactionSummary::TransactionSummary"
    agg = [x for x in walk(e) if x[0] == "agg" and x[1] == S]
    if not chk.require(len(agg) == 1, "C08-b/summary", "commit_transaction", "summary construction not found", "", f.sp(bb)):
        return
    agg = agg[0]
    for name, val in zip(agg[3], agg[2]):
        inst = "TransactionSummary." + name
        good = False
        why = show(val)[:140]
        if val[0] == "call" and val[1] == "core::option::Option::<T>::map" and len(val[2]) == 2:
            src, clo = val[2]
            # src = <status information>.name
            flds = []
            base = src
            while base[0] == "proj":
                flds = list(base[2]) + flds
                base = base[1]
            if base[0] == "path":
                flds = list(base[2]) + flds
            from_si = flds[-1:] == [name] and status_payload(f, src)
            clo_ok = False
            if clo[0] == "agg" and clo[1].startswith(FEIG):
                cb = crate.bodies.get(clo[1]) or getattr(crate, "absorbed", {}).get(clo[1])
                if cb is not None:
                    clo_ok = closure_converts_arg(cb, name)
            good = from_si and clo_ok
            if not clo_ok:
                why += " (closure is not a pure conversion of its argument)"
        elif (val[0] == "path" and not val[2] and val[1].startswith("_") and val[1][1:].isdigit()) or \
                (val[0] == "agg" and val[1] == "one-of"):
            # the same thing spelled as a match: `match si.f { Some(v) => Some(conv(v)), None => None }` - two
            # definitions, None and Some(conversion of the payload of <status information>.name)
            if val[0] == "agg":
                vals = list(val[2])             # (already listed as the alternatives the temporary carries)
                defs = vals
            else:
                defs = f.tr.defs.get(int(val[1][1:]), [])
                vals = [f.ex.rvalue(d_[3]["rv"]) for d_ in defs if d_[2] == "assign"]
            nones = [v_ for v_ in vals if v_[0] == "agg" and v_[1].endswith("Option::None")]
            somes = [v_ for v_ in vals if v_[0] == "agg" and v_[1].endswith("Option::Some") and len(v_[2]) == 1]
            if len(vals) == len(defs) == 2 and len(nones) == 1 and len(somes) == 1:
                conv = somes[0][2][0]
                payloads = []
                for x in walk(conv):
                    if x[0] in ("proj", "path"):
                        flds = []
                        base = x
                        while base[0] == "proj":
                            flds = list(base[2]) + flds
                            base = base[1]
                        if base[0] == "path":
                            flds = list(base[2]) + flds
                        if flds[-3:] == [name, "@Some", "0"] and status_payload(f, x, 3):
                            payloads.append(x)
                arith = any(x[0] == "bin" for x in walk(conv))
                # every leaf of the conversion is the payload itself (or a constant): a value that arrives through
                # another local (a helper's branches, an accumulator) is not "a conversion of the reported field"
                inside = set()
                for p_ in payloads:
                    inside |= {id(y) for y in walk(p_)}
                others = [x for x in walk(conv) if x[0] in ("var", "upvar", "path") and id(x) not in inside and
                          not any(x == y for p_ in payloads for y in walk(p_))]
                # calls on the way are library conversions; a function of this workspace is not taken on trust
                local_calls = [x[1] for x in walk(conv) if x[0] == "call" and str(x[1]).startswith(("zvt_feig_terminal::", "zvt::", "zvt_builder::"))]
                # ... nor a value chosen between alternatives on the way (a helper that formats one way or another depending
                # on the value): the carrier of such a choice shows up as `one-of`
                chosen = any(x[0] == "agg" and x[1] == "one-of" for x in walk(conv))
                good = bool(payloads) and not arith and not others and not local_calls and not chosen
                why = show(conv)[:140] + ("" if good else " (not a pure conversion of the reported field)")
        chk.require(good, "C08-b/summary-wiring", inst,
                    "summary field %s is %s, expected a conversion of the reported StatusInformation.%s" % (name, why, name),
                    "= status.%s" % name, f.sp(bb))
    # the status_information variable holds the StatusInformation of the reversal stream
    var = [x for x in walk(e) if x[0] == "var" and x[1] == "status_information"]
    if var:
        vals = expand_var(f, ("proj", var[0], ("@Some", "0")))
        good = bool(vals)
        for v in vals:
            flds = []
            base = v
            while base[0] == "proj":
                flds = list(base[2]) + flds
                base = base[1]
            if not ("@StatusInformation" in flds and any(x[0] == "call" and x[1].startswith(STREAM) for x in walk(v))):
                good = False
        chk.require(good, "C08-b/summary-source", "status_information",
                    "the summary is not built from a StatusInformation reply of the reversal exchange: %s" % [show(v)[:100] for v in vals],
                    "last StatusInformation of the PartialReversal stream", f.sp(bb))


def status_payload(f, x, drop=1):
    """x = <v>.<field>[...]: v (x without its last `drop` fields) is, through `?`, `ok_or`, an accumulator
    variable or the `Ok(..)` of an inlined helper, the payload of a StatusInformation reply of a stream."""
    from discharge import unq
    e = unq(f.ex.select_variant(unq(x)))
    flds = []
    base = e
    while base[0] == "proj":
        flds = list(base[2]) + flds
        base = base[1]
    if base[0] == "path":
        flds = list(base[2]) + flds
        base = ("path", base[1], ())
    if len(flds) < drop:
        return False
    flds = flds[:len(flds) - drop]
    e = ("proj", base, tuple(flds)) if flds else base
    if e[0] == "proj" and e[1][0] == "path":
        e = ("path", e[1][1], tuple(e[2]))
    vals = expand_var(f, e)
    if not vals:
        return False
    for v in vals:
        v = unq(f.ex.select_variant(unq(v)))
        if v != e and v[0] in ("proj", "path", "var") and v not in vals:
            sub = expand_var(f, v)
        else:
            sub = [v]
        for w in sub:
            fl = []
            b = w
            while b[0] == "proj":
                fl = list(b[2]) + fl
                b = b[1]
            if b[0] == "path":
                fl = list(b[2]) + fl
            if not ("@StatusInformation" in fl and any(y[0] == "call" and y[1].startswith(STREAM) for y in walk(w))):
                return False
    return True


def closure_converts_arg(cb, field):
    """The closure returns a value derived from its single argument only: a cast, to_string or a
    formatting of the argument (no constants other than format pieces, no other captures)."""
    from flow import Tracer
    tr = Tracer(cb)
    srcs = tr.sources({"l": 0, "p": []}, through_calls=lambda n, t: True)
    args = [s for s in srcs if s[0] == "arg"]
    ints = [s for s in srcs if s[0] == "const" and isinstance(s[1], int)]
    # integer constants would alter the value (x + 1, x & mask); format widths are not operands of the value
    uses_arg = any(s[1] == 2 for s in args)
    arith = False
    for i in range(cb.n):
        for st in cb.blocks[i]["stmts"]:
            if st["s"] == "assign" and st["rv"]["r"] in ("bin",):
                arith = True
    return uses_arg and not arith


def currency_codes(ctx, chk):
    """"in the configured currency": the configuration names the currency by its ISO 4217 letters and the client sends the
    numeric code - every (letters, number) pair of the conversion table agrees with the standard (spec/iso4217.json)."""
    from mirlite import feasible_reach, callee
    iso = {k: v for k, v in ctx.spec("iso4217.json").items() if not k.startswith("_")}
    crate = ctx.crate("zvt_feig_terminal")
    pairs = []
    where = None
    for b in list(crate.bodies.values()) + list(crate.absorbed.values()):
        if "::config::" not in b.id or "::test" in b.id:
            continue
        eqs = []
        for bb, t in b.calls():
            if callee(t).endswith("cmp::PartialEq::eq") and len(t["args"]) == 2:
                for a in t["args"]:
                    k = a.get("k") if isinstance(a, dict) else None
                    s = k.get("str") if isinstance(k, dict) else None
                    if isinstance(s, str) and len(s) == 3 and s.isalpha() and s.isupper():
                        eqs.append((bb, t, s))
        if not eqs:
            continue
        where = b
        cut = [bb for bb, _, _ in eqs]
        for bb, t, s in eqs:
            sw = b.blocks[t["to"]]["term"] if t.get("to") is not None else None
            if sw is None or sw["t"] != "switch":
                continue
            true_t = sw["else"]
            nums = set()
            for i in feasible_reach(b, true_t, cut_blocks=[c for c in cut if c != bb]):
                for st in b.blocks[i]["stmts"]:
                    if st["s"] == "assign" and st["rv"]["r"] == "agg" and st["rv"].get("vname") == "Ok" and st["rv"]["ops"]:
                        kk = st["rv"]["ops"][0].get("k")
                        if isinstance(kk, dict) and isinstance(kk.get("v"), int):
                            nums.add(kk["v"])
            pairs.append((s, sorted(nums), b.blocks[bb]["term"].get("sp")))
        break
    if not chk.require(bool(pairs), "C08-b/currency-code", "iso_4217", "currency conversion table not found", "", nontrivial=False):
        return
    for s, nums, sp in pairs:
        if s not in iso:
            chk.note("currency %s (-> %s) is not in spec/iso4217.json: not checked" % (s, nums))
            continue
        chk.require(nums == [iso[s]], "C08-b/currency-code", "iso_4217 %s" % s,
                    "currency %s is sent as %s, ISO 4217 says %d" % (s, nums, iso[s]), "%s = %d" % (s, iso[s]), sp)
    chk.floor("currency table rows checked", len([p for p in pairs if p[0] in iso]), 3)


def run(ctx, chk):
    _run_own(ctx, chk)
    currency_codes(ctx, chk)
    # "... against the receipt number and reference token of that reservation": the receipt-number chain
    # (last announced receipt -> token map -> reversal request) is decided by the C07-c/d clauses
    import rules_c07
    from report import Sub
    crate = ctx.crate("zvt_feig_terminal")
    # "the summary reproduces the amount ... the terminal reported" over the fields' full ranges: the status-information fields
    # are wide enough for their BCD digits (C03-a/bcd-width)
    import rules_c03
    sub3 = Sub(chk, "C08-b", lambda r: r == "C03-a/bcd-width", instance_filter=lambda i: "StatusInformation" in str(i) or "PartialReversal" in str(i)
               or "Reservation" in str(i))
    rules_c03._run_own(ctx, sub3)
    chk.floor("BCD field widths of the packets of this exchange (shared with C03-a)", sub3.count, 4)
    # "against the receipt number ... of that reservation": the receipt number travels through its own codec (C17-d)
    import rules_c17
    sub17 = Sub(chk, "C08-c", lambda r: r.startswith("C17-d/"))
    rules_c17.sentinel(sub17, [ctx.crate("zvt_builder"), ctx.crate("zvt")])
    chk.floor("receipt-number codec obligations (shared with C17-d)", sub17.count, 3)
    sub = Sub(chk, "C08-c", lambda r: r in ("C07-c/value", "C07-c/insert", "C07-c/key", "C07-d/receipt", "C07-d/request"))
    rules_c07.begin(sub, crate)
    rules_c07.close(sub, crate, "commit_transaction")
    chk.floor("receipt-chain obligations (shared with C07)", sub.count, 3)
    # the reservation released is the caller's own: no step of commit/cancel empties the whole map while others are open
    subc = Sub(chk, "C08-c", lambda r: r == "C07-a/clear-only-when-idle")
    rules_c07.clear_only_when_idle(subc, crate)
    chk.floor("own-reservation obligations (shared with C07-a)", subc.count, 2)
    # the reference token travels in a BER-TLV container: its length forms (shared with C16-b)
    import rules_c16
    sub16 = Sub(chk, "C08-c", lambda r: r.startswith("C16-b/"), instance_filter=lambda i: str(i).startswith("Tlv"))
    rules_c16.run(ctx, sub16)
    chk.floor("TLV length-form obligations (shared with C16-b)", sub16.count, 4)
