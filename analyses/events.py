"""Event-graph projection of sequence coroutines and the protocol monitor for C05/C06/C11-d.

A `try_stream!`/`stream!` body is one coroutine.  We project its CFG onto transport events
and run a small protocol monitor over it as a product construction (all paths, no
enumeration of reply scripts):

  Wack(T)  call of PacketTransport::write_packet_with_ack::<_, T>   (send command, read Ack)
  R(E)     call of PacketTransport::read_packet::<_, E>
  W(T)     call of PacketTransport::write_packet::<_, T>
  RWA(E)   call of PacketTransport::read_packet_with_ack::<_, E>
  ok/err   the two edges of the switch on the Result the awaited future produced
  V{..}    edge of the switch on the discriminant of the reply enum value
  Yok/Yerr async_stream Sender::send(Ok(..)) / send(Err(..))
  END      Return

Await poll loops are removed by dropping the Poll::Pending edge; coroutine-drop edges of
yields are not followed (a consumer that stops polling performs no further I/O).
"""
from collections import deque

from mirlite import ty_str, callee, op_place, bool_transfer, bool_switch_target, prune_known, switch_relevant_locals
from flow import Tracer
from codec_rules import agg_tree

IO = "zvt::io::PacketTransport::<S>::"
IO_KINDS = {
    IO + "write_packet_with_ack": "Wack",
    IO + "read_packet": "R",
    IO + "write_packet": "W",
    IO + "read_packet_with_ack": "RWA",
}
SEND = "async_stream::yielder::Sender::<T>::send"
THROUGH = ("core::future::into_future::IntoFuture::into_future", "core::future::future::Future::poll",
           "core::pin::Pin::<Ptr>::new_unchecked", "core::future::get_context", "core::pin::Pin::<Ptr>::new",
           "core::ops::try_trait::Try::branch")


def through(n, t):
    return n in THROUGH


class EventGraph:
    def __init__(self, body, adts):
        self.b = body
        self.tr = Tracer(body)
        self.adts = adts
        self.event = {}        # bb -> event tuple (at the block's terminator)
        self.edges = {}        # bb -> list of (label, succ)
        self.notes = []
        self._build()

    def _result_origin(self, local):
        """I/O (or other) call a Result-typed local derives from."""
        srcs = self.tr.sources({"l": local, "p": []}, through_calls=through)
        calls = [s for s in srcs if s[0] == "call"]
        return calls

    ERR_PRESERVING = ("core::result::Result::<T, E>::map", "core::result::Result::<T, E>::map_err",
                      "core::result::Result::<T, E>::inspect", "core::result::Result::<T, E>::inspect_err")

    def propagated(self, call_bb):
        """The Result the call at call_bb (or the future it made, once awaited) produced is handed to the caller as the
        body's own return value, at most through combinators that keep an Err an Err (`r.map(..)`, `r.map_err(..)`): the
        failure is the helper's failure, exactly as with `r?` - and nothing else happens after it."""
        keep = self.ERR_PRESERVING
        srcs = self.tr.sources({"l": 0, "p": []}, through_calls=lambda n, t: through(n, t) or n in keep)
        if not any(s_[0] == "call" and s_[2] == call_bb for s_ in srcs):
            return False
        # no further transport call once the Result exists
        seen, st = set(), [nb for _, nb in self.edges.get(call_bb, [])]
        while st:
            x = st.pop()
            if x in seen:
                continue
            seen.add(x)
            ev = self.event.get(x)
            if ev and ev[0] == "io":
                return False
            st.extend(n2 for _, n2 in self.edges.get(x, []))
        return True

    def _build(self):
        b = self.b
        tr = self.tr
        for i in range(b.n):
            t = b.blocks[i]["term"]
            k = t["t"]
            succs = []
            if k == "call":
                n = callee(t)
                if n in IO_KINDS:
                    ty = ty_str(t["f"]["a"][-1])
                    self.event[i] = ("io", IO_KINDS[n], ty, i)
                elif n == SEND:
                    tree = agg_tree(tr, t["args"][1])
                    kind = "?"
                    if tree[0] == "adt" and tree[1] == "core::result::Result::Ok":
                        kind = "ok"
                    elif tree[0] == "adt" and tree[1] == "core::result::Result::Err":
                        kind = "err"
                    self.event[i] = ("yield", kind, None, i)
                elif n.startswith("zvt::io::PacketTransport"):
                    self.event[i] = ("io", "?", n, i)
                if t["to"] is not None:
                    succs.append((None, t["to"]))
            elif k == "switch":
                succs = self._switch_edges(i, t)
            elif k == "return":
                self.event[i] = ("end", None, None, i)
            elif k == "yield":
                succs.append((None, t["resume"]))
            elif k in ("goto", "drop", "assert", "falseunwind", "falseedge"):
                succs.append((None, t["to"]))
            self.edges[i] = succs

    def _switch_edges(self, i, t):
        b, tr = self.b, self.tr
        out = []
        v = tr.value(t["d"])
        dty = None
        dlocal = None
        if v.kind == "rv" and v.rv["r"] == "discr":
            dty = v.rv["of"]
            np = tr.nplace(v.rv["p"])
            dlocal = np
        tn = dty["n"] if dty and dty.get("k") == "adt" else None
        if tn == "core::task::poll::Poll":
            # Ready = 0, Pending = 1: the Pending edge only re-polls
            for val, tb in t["targets"]:
                if val == 0:
                    out.append((None, tb))
            return out
        if tn in ("core::result::Result", "core::ops::control_flow::ControlFlow") and dlocal is not None:
            calls = self._result_origin(dlocal.l)
            origin = None
            if len(calls) == 1:
                c = calls[0]
                ev = self.event.get(c[2]) if c[2] in self.event else None
                ct = b.blocks[c[2]]["term"]
                cn = callee(ct)
                if cn in IO_KINDS:
                    origin = ("io", IO_KINDS[cn], ty_str(ct["f"]["a"][-1]), c[2])
                else:
                    origin = ("other", cn, None, c[2])
            elif len(calls) == 0:
                origin = ("other", "?", None, None)
            else:
                ios = [c for c in calls if callee(b.blocks[c[2]]["term"]) in IO_KINDS]
                if len(ios) == 1:
                    ct = b.blocks[ios[0][2]]["term"]
                    origin = ("io", IO_KINDS[callee(ct)], ty_str(ct["f"]["a"][-1]), ios[0][2])
                else:
                    origin = ("other", "+".join(sorted(c[1] for c in calls)), None, None)
            for val, tb in t["targets"]:
                out.append((("ok" if val == 0 else "err", origin), tb))
            if b.blocks[t["else"]]["term"]["t"] != "unreachable":
                vals = {val for val, _ in t["targets"]}
                lab = "err" if 0 in vals else ("ok" if 1 in vals else "?")
                out.append(((lab, origin), t["else"]))
            return out
        if tn in self.adts and self.adts[tn]["kind"] == "enum":
            names = [vv["name"] for vv in self.adts[tn]["variants"]]
            discr = {vv.get("discr", idx): vv["name"] for idx, vv in enumerate(self.adts[tn]["variants"])}
            bytarget = {}
            used = set()
            for val, tb in t["targets"]:
                bytarget.setdefault(tb, set()).add(discr.get(val, "?%d" % val))
                used.add(discr.get(val))
            for tb, vs in bytarget.items():
                out.append((("V", tn, frozenset(vs)), tb))
            rest = frozenset(set(names) - used)
            if b.blocks[t["else"]]["term"]["t"] != "unreachable" and rest:
                out.append((("V", tn, rest), t["else"]))
            return out
        for val, tb in t["targets"]:
            out.append((None, tb))
        out.append((None, t["else"]))
        # dedupe
        seen = []
        for e in out:
            if e not in seen:
                seen.append(e)
        return seen


# ------------------------------------------------------------------ monitor

class Finding:
    def __init__(self, prop, rule, msg, bb, trace):
        self.prop, self.rule, self.msg, self.bb, self.trace = prop, rule, msg, bb, trace


def monitor(eg, input_ty, output_enum, final_variants, all_variants, data_request=None, data_answer=None,
            single_reply=False):
    """Product exploration.  Monitor state:
      phase: 'S0' start | 'S1' command written, awaiting result | 'L' may read next |
             'R1' read issued | 'P' packet in hand | 'W1' answer written awaiting result |
             'D' done after final | 'E' error pending (must yield Err) | 'X' error yielded
      written: bool, yielded: bool, varset: frozenset | None(=all)
    Returns (findings, stats)."""
    b = eg.b
    findings = []
    seen = {}
    relevant = switch_relevant_locals(b)
    start = (0, ("S0", False, None), frozenset())
    dq = deque([start])
    seen[start] = None
    reported = set()

    def trace_of(state):
        out = []
        cur = state
        n = 0
        while cur is not None and n < 4000:
            out.append(cur)
            cur = seen.get(cur)
            n += 1
        out.reverse()
        # compress to event-bearing blocks
        evs = []
        for (bb, ms, _kn) in out:
            if bb in eg.event:
                e = eg.event[bb]
                evs.append("bb%d:%s%s" % (bb, e[1] if e[0] != "end" else "END",
                                          "(" + str(e[2]).rsplit("::", 1)[-1] + ")" if e[2] else ""))
        return " -> ".join(evs[-14:])

    def report(prop, rule, msg, state):
        key = (prop, rule, msg)
        if key in reported:
            return
        reported.add(key)
        bb = state[0]
        sp = b.blocks[bb]["term"].get("sp")
        findings.append(Finding(prop, rule, msg, sp, trace_of(state)))

    all_v = frozenset(all_variants)
    fin = frozenset(final_variants)

    def step_event(ms, ev, state):
        """Apply a block event; returns new monitor state or None (stop exploring)."""
        phase, written, varset = ms
        kind = ev[0]
        if phase in ("S1", "R1", "W1") and kind in ("io", "yield"):
            for prop in ("C05", "C06"):
                report(prop, "result-checked", "the outcome of the preceding transport call is never examined "
                       "before the exchange continues (a failure would go unnoticed)", state)
            return None
        if kind == "io":
            k, ty = ev[1], ev[2]
            if phase in ("E", "X"):
                report("C06", "no-io-after-failure", "transport call %s(%s) after a failed step of the exchange" % (k, ty), state)
                return None
            if phase == "D":
                report("C05", "nothing-after-final", "transport call %s(%s) after the final packet was handed out" % (k, ty), state)
                return None
            if k == "Wack":
                if phase != "S0":
                    report("C05", "command-once", "the command is written more than once (or inside the reply loop)", state)
                    return None
                if ty != input_ty:
                    report("C05", "command-type", "write_packet_with_ack sends %s, the sequence's command is %s" % (ty, input_ty), state)
                return ("S1", False, None)
            if k == "R":
                if phase == "P":
                    report("C05", "answer-before-next-read", "a packet is read while the previous one is still unanswered / not handed out", state)
                    return None
                if phase != "L":
                    report("C05", "read-in-order", "read_packet in phase %s (command not yet acknowledged?)" % phase, state)
                    return None
                if ty != output_enum:
                    report("C05", "reply-type", "read_packet parses %s, the sequence's reply enum is %s" % (ty, output_enum), state)
                return ("R1", False, None)
            if k == "W":
                if phase != "P":
                    report("C05", "write-needs-packet", "write_packet(%s) without an unanswered packet in hand (phase %s)" % (ty, phase), state)
                    return None
                if written:
                    report("C05", "answer-once", "a received packet is answered twice", state)
                    return None
                if ty == "zvt::packets::Ack":
                    if data_request and varset is not None and varset <= frozenset([data_request]):
                        report("C05", "data-answer", "a data request is answered with Ack instead of %s" % data_answer, state)
                elif data_answer and ty == data_answer:
                    if varset is None or not varset <= frozenset([data_request]):
                        report("C05", "data-answer", "%s is written for a packet that is not known to be a data request" % ty, state)
                else:
                    report("C05", "answer-type", "a received packet is answered with %s" % ty, state)
                return ("W1", True, varset)
            if k == "RWA":
                # transport helper read_packet_with_ack = read, then (only on success) write Ack; its own
                # discipline is checked on the helper's body (C06/helper)
                if phase == "P":
                    report("C05", "answer-before-next-read", "a packet is read while the previous one is still unanswered / not handed out", state)
                    return None
                if phase != "L":
                    report("C05", "read-in-order", "read_packet_with_ack in phase %s (command not yet acknowledged?)" % phase, state)
                    return None
                if ty != output_enum:
                    report("C05", "reply-type", "read_packet_with_ack parses %s, the sequence's reply enum is %s" % (ty, output_enum), state)
                if data_request:
                    report("C05", "data-answer", "read_packet_with_ack acknowledges every packet, but %s must be answered with %s"
                           % (data_request, data_answer), state)
                return ("W1", True, None)
            report("C05", "unknown-io", "unrecognised transport call %s" % (ty,), state)
            return None
        if kind == "yield":
            yk = ev[1]
            if yk == "err":
                if phase != "E":
                    report("C06", "error-only-after-failure", "an Err item is produced although no step failed (phase %s)" % phase, state)
                    return None
                return ("X", written, varset)
            if yk == "ok":
                if phase in ("E", "X"):
                    report("C06", "one-error-then-silence", "a packet is handed out after a failure", state)
                    return None
                if phase != "P":
                    report("C05", "yield-needs-packet", "an item is yielded without a freshly read packet (phase %s)" % phase, state)
                    return None
                if not written:
                    report("C05", "answer-before-yield", "a packet is handed to the caller before it was answered", state)
                    return None
                vs = all_v if varset is None else varset
                if vs <= fin:
                    return ("D", True, None)
                if not (vs & fin):
                    return ("L", False, None)
                report("C05", "final-classification", "a packet is yielded without deciding whether it is final: "
                       "variants %s reach one yield" % sorted(vs), state)
                return None
            report("C05", "yield-shape", "yield of a value that is neither Ok(..) nor Err(..)", state)
            return None
        if kind == "end":
            if phase == "D" or phase == "X":
                return ms
            if phase == "E":
                report("C06", "failure-reported", "the stream ends after a failure without yielding the error", state)
            elif phase == "L":
                report("C05", "stop-at-final", "the stream ends although the last packet handed out was not final "
                       "(or before any reply was read)", state)
            elif phase == "S0" and single_reply is None:
                pass
            else:
                report("C05", "complete-exchange", "the stream ends in the middle of an exchange (phase %s)" % phase, state)
            return ms
        return ms

    def step_edge(ms, label, state):
        phase, written, varset = ms
        if label is None:
            return ms
        if label[0] in ("ok", "err"):
            origin = label[1]
            is_io = origin is not None and origin[0] == "io"
            if label[0] == "err":
                if phase in ("E", "X"):
                    # a second failure while handling one: still must only yield one error
                    return ms
                return ("E", written, varset)
            # ok edge
            if is_io:
                k = origin[1]
                if k == "Wack" and phase == "S1":
                    return ("L", False, None)
                if k == "R" and phase == "R1":
                    return ("P", False, None)
                if k in ("W", "RWA") and phase == "W1":
                    return ("P", True, varset)
            return ms
        if label[0] == "V":
            if label[1] != output_enum:
                return ms
            vs = all_v if varset is None else varset
            nv = vs & label[2]
            if not nv:
                return None  # infeasible
            return (phase, written, frozenset(nv))
        return ms

    n_states = 0
    while dq:
        state = dq.popleft()
        n_states += 1
        bb, ms, kn = state
        # bool temporaries (`let last = matches!(packet, ..); ..; if last { break }`) are followed path-sensitively
        known = prune_known(bool_transfer(b, bb, kn), relevant)
        only = bool_switch_target(b, bb, known)
        kn2 = frozenset(known.items())
        ev = eg.event.get(bb)
        ms2 = ms
        if ev is not None:
            ms2 = step_event(ms, ev, state)
            if ms2 is None:
                continue
            if ev[0] == "end":
                continue
        # pending I/O results must be examined: leaving S1/R1/W1 through an unlabelled path
        for label, nb in eg.edges.get(bb, []):
            if only is not None and nb != only:
                continue
            ms3 = step_edge(ms2, label, state)
            if ms3 is None:
                continue
            ns = (nb, ms3, kn2)
            if ns not in seen:
                seen[ns] = state
                dq.append(ns)
    # unchecked results: a phase S1/R1/W1 reaching another event means the Result was not tested
    return findings, {"product_states": n_states}
