"""C07 — transaction tokens map one-to-one onto open pre-authorisations."""
from mirlite import callee, ty_str, op_place
from client import Fn, HM, FEIG, STREAM, is_call, mentions_path
from expr import show, walk, strip_ref, Ex
from flow import Tracer

EXPLANATION = (
    "Guard/dominance and data-flow rules over the async bodies of Feig::{begin,commit,cancel}_transaction (MIR of the "
    "real client). Decided: (a) the token map is private and is mutated only where the protocol allows (insert in "
    "begin, remove in commit/cancel, clear in cancel_pending); (b) in begin every path to any terminal traffic passes "
    "the 'not full' edge of the len/max comparison and the 'not open' edge of contains_key(token), and the refusing "
    "edges return Error::ActiveTransaction without traffic; in commit/cancel the map removal dominates all traffic "
    "and its None edge returns Error::UnknownToken without traffic; (c) what is inserted is (token, receipt number of "
    "a StatusInformation reply of this very reservation), the only Ok return is dominated by the insert and nothing "
    "talks to the terminal after it; (d) the reversal requests carry exactly the receipt number the removal returned. "
    "Not mechanised: the inductive step from these per-call facts to the whole-history refinement (stated in DESIGN).")
RULE = ("edge-dominance of guards over traffic calls; reachability of refusing edges (no traffic, Err kind); who-may-write "
        "table for Feig.transactions; expression provenance of insert key/value and of request.receipt_no.")

MUTATORS = ("insert", "remove", "clear", "drain", "retain", "entry", "get_mut", "extend", "remove_entry",
            "iter_mut", "values_mut", "try_insert", "get_or_insert_with")
ALLOWED = {"insert": {"begin_transaction"}, "remove": {"commit_transaction", "cancel_transaction"},
           "clear": {"cancel_pending"}}


def short_fn(body):
    r = body.raw.get("root", "")
    return r[len(FEIG):] if r.startswith(FEIG) else r


def _run_own(ctx, chk):
    crate = ctx.crate("zvt_feig_terminal")
    # ---------------- (a) encapsulation + who-may-write
    adt = crate.adts.get("zvt_feig_terminal::feig::Feig")
    if adt is None:
        chk.fail("C07-a/struct", "Feig", "struct Feig not found")
        return
    for f in adt["variants"][0]["fields"]:
        if f["name"] in ("transactions", "transactions_max_num", "socket"):
            chk.require(f["vis"] != "Public", "C07-a/private", "Feig." + f["name"],
                        "field is public: callers could edit the token map behind the client's back",
                        f["vis"].split("~")[-1], adt.get("sp"))
    # (the clean-up that empties the map is cancel_pending on the pinned tree; written out in end_of_day it is that function)
    allowed = dict(ALLOWED)
    if (FEIG + "cancel_pending") not in crate.bodies and (FEIG + "cancel_pending::{closure#0}") not in crate.bodies:
        allowed["clear"] = {"end_of_day"}
    writers = {}
    for b in crate.bodies.values():
        ex = None
        for bb, t in b.calls():
            n = callee(t)
            if not n.startswith("std::collections::hash::map::HashMap"):
                continue
            meth = n.rsplit("::", 1)[-1]
            if meth not in MUTATORS:
                continue
            ex = ex or Ex(b)
            a0 = ex.operand(t["args"][0])
            if mentions_path(a0, "self", ("transactions",)) or any(
                    x[0] == "path" and "transactions" in x[2] for x in walk(a0)):
                writers.setdefault(meth, []).append((short_fn(b), t.get("sp")))
        # direct field assignment
        for i, blk in enumerate(b.blocks):
            for st in blk["stmts"]:
                if st["s"] == "assign" and st["p"]["p"]:
                    last = st["p"]["p"][-1]
                    if isinstance(last, dict) and last.get("n") == "transactions" and \
                            "std::collections::hash::map::HashMap" in ty_str(last.get("ty")):
                        writers.setdefault("assign", []).append((short_fn(b), st.get("sp")))
    for meth, ws in sorted(writers.items()):
        for fn, sp in ws:
            chk.require(fn in allowed.get(meth, set()), "C07-a/who-may-write", "%s in %s" % (meth, fn),
                        "Feig.transactions is mutated by `%s` in %s; allowed: %s" % (meth, fn, sorted(allowed.get(meth, []))),
                        "allowed", sp)
    for meth, fns in allowed.items():
        for fn in fns:
            chk.require(any(w[0] == fn for w in writers.get(meth, [])), "C07-a/writer-present", "%s in %s" % (meth, fn),
                        "expected map %s in %s not found (anchor missing)" % (meth, fn), "", nontrivial=False)
    clear_only_when_idle(chk, crate)
    begin(chk, crate)
    for name in ("commit_transaction", "cancel_transaction"):
        close(chk, crate, name)
    by_receipt(chk, crate)
    chk.floor("client functions analysed", 4, 4)


def refuse_region_ok(chk, f, rule, inst, start_bb, err_agg, traffic, error_built_before=False):
    """error_built_before: the refusal error was constructed before the test (e.g. by the closure of
    `ok_or_else(..)?`) and is only handed on inside the region."""
    reach = f.reach_from(start_bb)
    bad_traffic = [bb for bb, t, k in traffic if bb in reach]
    chk.require(not bad_traffic, rule + "/no-traffic", inst,
                "a refused call still reaches terminal traffic at %s" % [f.sp(b) for b in bad_traffic],
                "no traffic after refusal", f.sp(start_bb))
    # what is returned on each feasible path from the refusal edge (symbolic evaluation: the error may be built
    # in a helper and handed on with `?`)
    import pathsym as ps
    pe = ps.PathEval(f.b)
    rets = []
    for r in sorted(reach):
        if f.b.blocks[r]["term"]["t"] != "return":
            continue
        for path in ps.simple_paths(f.b, start_bb, r):
            env, _ = pe.run(path)
            rets.append(ps.norm(env.get(0, ("konst", "no return value"))))

    def is_refusal(e):
        errs = [x for x in ps.walk(e) if x[0] == "agg" and str(x[1]).endswith("Result::Err")]
        named = [x for x in ps.walk(e) if x[0] == "agg" and x[1] == err_agg] or ps.closure_builds(f.b.crate, e, err_agg)
        oks = e[0] == "agg" and str(e[1]).endswith("Result::Ok")
        if error_built_before and not oks and e[0] == "call" and e[1].endswith("FromResidual::from_residual"):
            return True
        return bool(errs) and bool(named) and not oks
    ok = rets and all(is_refusal(e) for e in rets)
    chk.require(ok, rule + "/error", inst,
                "the refused call does not fail with %s: returns %s" % (err_agg, [ps.show(e)[:120] for e in rets if not is_refusal(e)][:3]),
                "Err(%s)" % err_agg.rsplit("::", 1)[-1], f.sp(start_bb))


def begin(chk, crate):
    f = Fn(crate, "begin_transaction")
    traffic = f.traffic_calls()
    chk.require(len(traffic) >= 1, "C07/anchor", "begin_transaction", "no terminal traffic found in begin_transaction", "",
                nontrivial=False)

    def is_len(e):
        return is_call(e, "HashMap::<K, V, S, A>::len") and mentions_path(e, "self", ("transactions",))

    def is_max(e):
        # the stored limit: a plain field of the client (directly, or of the private struct that holds the map) - which
        # field it is, is settled by C07-b/limit-source (it must hold config.transactions_max_num)
        e = strip_ref(e)
        return e[0] == "path" and e[1] == "self" and len(e[2]) in (1, 2) and all(isinstance(x, str) and not x.startswith(("@", "[")) for x in e[2])

    def full_guard(e):
        return e[0] == "bin" and e[1] in ("Eq", "Ge", "Lt", "Gt", "Le") and (
            (is_len(e[2]) and is_max(e[3])) or (is_len(e[3]) and is_max(e[2])))
    g1 = f.bool_switches(full_guard)
    if chk.require(len(g1) == 1, "C07-b/full-guard", "begin_transaction",
                   "expected one comparison of transactions.len() with transactions_max_num, found %d" % len(g1), "",
                   f.sp()):
        bb, e, tt, ft = g1[0]
        op = e[1]
        len_left = is_len(e[2])
        # which edge means 'room left'?
        if op in ("Eq",):
            proceed, refuse = ft, tt
        elif (op == "Ge" and len_left) or (op == "Le" and not len_left):
            proceed, refuse = ft, tt
        elif (op == "Lt" and len_left) or (op == "Gt" and not len_left):
            proceed, refuse = tt, ft
        else:
            proceed, refuse = None, None
        if chk.require(proceed is not None, "C07-b/full-guard-sense", "begin_transaction",
                       "comparison %s does not bound the number of open transactions by the maximum" % show(e),
                       show(e), f.sp(bb)):
            for tb, t, k in traffic:
                chk.require(f.edge_dominates((bb, proceed), tb), "C07-b/full-guard-dominates",
                            "begin_transaction -> %s" % callee(t).rsplit("::", 1)[-1],
                            "terminal traffic is reachable without passing the maximum-transactions check",
                            "guarded", f.sp(tb))
            refuse_region_ok(chk, f, "C07-b/full-refusal", "begin_transaction", refuse,
                             "zvt_feig_terminal::feig::Error::ActiveTransaction", traffic)
    g2 = f.bool_switches(lambda e: is_call(e, "::contains_key") and mentions_path(e, "self", ("transactions",))
                         and mentions_path(e, f.param(2), ()))
    if chk.require(len(g2) == 1, "C07-b/open-guard", "begin_transaction",
                   "expected one contains_key(token) test on the token map, found %d" % len(g2), "", f.sp()):
        bb, e, tt, ft = g2[0]
        for tb, t, k in traffic:
            chk.require(f.edge_dominates((bb, ft), tb), "C07-b/open-guard-dominates",
                        "begin_transaction -> %s" % callee(t).rsplit("::", 1)[-1],
                        "terminal traffic is reachable for a token that is already open", "guarded", f.sp(tb))
        refuse_region_ok(chk, f, "C07-b/open-refusal", "begin_transaction", tt,
                         "zvt_feig_terminal::feig::Error::ActiveTransaction", traffic)
    # (c) what is recorded
    ins = f.calls(lambda n, t: n == HM + "insert")
    if not chk.require(len(ins) == 1, "C07-c/insert", "begin_transaction",
                       "expected exactly one insert into the token map, found %d" % len(ins), "", f.sp()):
        return
    ibb, it = ins[0]
    key = f.ex.operand(it["args"][1])
    chk.require(mentions_path(key, f.param(2), ()) and not any(x[0] == "const" and isinstance(x[1], str) for x in walk(key)),
                "C07-c/key", "begin_transaction", "the map key is %s, not the caller's token" % show(key)[:100],
                "key = token", f.sp(ibb))
    # value: resolve a multiply assigned variable through its definitions
    from discharge import unq
    val = unq(f.ex.operand(it["args"][2]))          # `x?` / `x.ok_or(..)?` carry the value of x
    val = unq(f.ex.select_variant(val))             # ... returned by an inlined helper as `Ok(x)`
    vals = expand_var(f, val)
    streams = [t for bb, t in f.stream_calls() if f.seq_of(t) == "zvt::sequences::Reservation"]
    good = bool(vals)
    why = []
    for v in vals:
        flds = []
        base = v
        while base[0] == "proj":
            flds = list(base[2]) + flds
            base = base[1]
        if base[0] == "path":
            flds = list(base[2]) + flds
        from_stream = any(x[0] == "call" and x[1] == "tokio_stream::stream_ext::StreamExt::next" for x in walk(v)) and \
            any(x[0] == "call" and x[1].startswith(STREAM) for x in walk(v))
        if not ("receipt_no" in flds and "@StatusInformation" in flds and from_stream):
            good = False
            why.append(show(v)[:160])
    chk.require(good and len(streams) == 1, "C07-c/value", "begin_transaction",
                "the recorded value is not the receipt_no of a StatusInformation reply of this reservation: %s" % why,
                "value = StatusInformation.receipt_no of the Reservation stream", f.sp(ibb))
    oks = [(bb, e) for bb, e in f.ret_writes() if f.classify_ret(e) == "ok"]
    chk.require(len(oks) >= 1 and all(f.b.dominates(ibb, bb) for bb, _ in oks), "C07-c/ok-after-insert", "begin_transaction",
                "begin can succeed without recording the token", "Ok dominated by insert", f.sp(ibb))
    after = f.reach_from(it["to"]) if it["to"] is not None else set()
    chk.require(not [bb for bb, t, k in traffic if bb in after], "C07-c/no-traffic-after-insert", "begin_transaction",
                "terminal traffic after the token was recorded (a later failure would leave a stale token)", "", f.sp(ibb))
    # every traffic call precedes the insert: insert only on the success path of this exchange
    chk.require(all(ibb in f.reach_from(tb) for tb, t, k in traffic), "C07-c/insert-after-exchange", "begin_transaction",
                "the token is recorded before the reservation exchange", "", f.sp(ibb), nontrivial=False)


def clear_only_when_idle(chk, crate):
    """begin / commit / cancel close at most their own token: a step that empties the whole map (cancel_pending's
    `clear()`, reached directly or through end_of_day ...) is taken only on the `is_empty()` edge, where it closes
    nothing."""
    from client import emptiness_switches
    clears = set()
    calls = {}
    for b in crate.bodies.values():
        fn = short_fn(b)
        for bb, t in b.calls():
            n = callee(t)
            if n.startswith(FEIG):
                calls.setdefault(fn, set()).add(n[len(FEIG):])
            if n.startswith("std::collections::hash::map::HashMap") and n.rsplit("::", 1)[-1] in ("clear", "drain", "retain"):
                a0 = Ex(b).operand(t["args"][0])
                if any(x[0] == "path" and "transactions" in x[2] for x in walk(a0)):
                    clears.add(fn)
    changed = True
    while changed:
        changed = False
        for fn, cs in calls.items():
            if fn not in clears and cs & clears:
                clears.add(fn)
                changed = True
    chk.require("cancel_pending" in clears or "end_of_day" in clears, "C07-a/clear-anchor", "cancel_pending",
                "the whole-map clear was not found (anchor)", "",
                nontrivial=False)
    for name in ("begin_transaction", "commit_transaction", "cancel_transaction"):
        f = Fn(crate, name)
        sites = f.calls(lambda n, t: n.startswith(FEIG) and n[len(FEIG):] in clears)
        tests = emptiness_switches(f, lambda x: mentions_path(x, "self", ("transactions",)),
                                   len_suffixes=("HashMap::<K, V, S, A>::len",), empty_suffixes=("HashMap::<K, V, S, A>::is_empty",))
        for bb, t in sites:
            ok = any(f.edge_dominates((tbb, true_t), bb) for tbb, e, true_t, false_t in tests)
            chk.require(ok, "C07-a/clear-only-when-idle", "%s -> %s" % (name, callee(t)[len(FEIG):]),
                        "%s empties the whole token map and is reachable while other tokens are open (not under the is_empty() "
                        "edge): their pre-authorisations stay open on the terminal" % callee(t)[len(FEIG):], "only when idle", f.sp(bb))
        if name != "begin_transaction":
            chk.require(len(sites) >= 1, "C07-a/clear-anchor", name, "expected the idle clean-up call (anchor)", "", nontrivial=False)


def expand_var(f, e, depth=0):
    """Resolve ('var',..) leaves (possibly under projections) into the expressions of their
    non-trivial definitions (skipping `None` initialisers)."""
    proj = ()
    base = e
    while base[0] == "proj":
        proj = tuple(base[2]) + proj
        base = base[1]
    if base[0] != "var" or depth > 4:
        return [e]
    out = []
    for d in f.tr.defs.get(base[2], []):
        if d[2] == "assign":
            rv = f.ex.rvalue(d[3]["rv"])
            if rv[0] == "agg" and rv[1].endswith("Option::None"):
                continue
            if rv[0] == "call" and rv[1] == "core::option::Option::<T>::or" and len(rv[2]) == 2:
                # `acc = new.or(acc)` == conditional overwrite; `acc.or(new)` keeps the first value (not accepted)
                new_v, old_v = strip_ref(rv[2][0]), strip_ref(rv[2][1])
                if old_v[0] == "var" and old_v[2] == base[2] and not (new_v[0] == "var" and new_v[2] == base[2]):
                    out.extend(expand_var(f, new_v, depth + 1))
                    continue
            if rv[0] == "agg" and rv[1].endswith("Option::Some") and "@Some" in proj:
                inner = rv[2][0]
                out.extend(expand_var(f, inner, depth + 1))
            else:
                out.extend(expand_var(f, rv, depth + 1))
        elif d[2] == "call":
            ce = f.call_expr(d[3], d[0])
            # `acc = new.or(acc)`: keep the previous value only when the new reply carries none - the same as the
            # conditional overwrite.  (`acc.or(new)` keeps the FIRST value and is not accepted.)
            if ce[1] == "core::option::Option::<T>::or" and len(ce[2]) == 2:
                new_v, old_v = strip_ref(ce[2][0]), strip_ref(ce[2][1])
                if old_v[0] == "var" and old_v[2] == base[2] and not (new_v[0] == "var" and new_v[2] == base[2]):
                    if "@Some" in proj:
                        out.extend(expand_var(f, ("proj", new_v, ("@Some",) + tuple(p_ for p_ in proj if p_ != "@Some")[0:]), depth + 1)
                                   if False else expand_var(f, new_v, depth + 1))
                    else:
                        out.extend(expand_var(f, new_v, depth + 1))
                    continue
            out.append(ce)
    return out


def close(chk, crate, name):
    f = Fn(crate, name)
    traffic = f.traffic_calls()
    rem = f.calls(lambda n, t: n == HM + "remove")
    if not chk.require(len(rem) == 1, "C07-b/remove", name,
                       "expected exactly one removal from the token map, found %d" % len(rem), "", f.sp()):
        return
    rbb, rt = rem[0]
    a0, a1 = f.ex.operand(rt["args"][0]), f.ex.operand(rt["args"][1])
    chk.require(mentions_path(a0, "self", ("transactions",)) and mentions_path(a1, f.param(2), ()), "C07-b/remove-args", name,
                "the removal is remove(%s, %s), not remove(self.transactions, token)" % (show(a0), show(a1)),
                "remove(&mut self.transactions, token)", f.sp(rbb))
    for tb, t, k in traffic:
        chk.require(f.b.dominates(rbb, tb) and tb != rbb, "C07-b/remove-dominates",
                    "%s -> %s" % (name, callee(t).rsplit("::", 1)[-1]),
                    "terminal traffic is reachable before the token was looked up", "lookup first", f.sp(tb))
    # the None edge
    rexpr = f.call_expr(rt, rbb)

    def on_removed(e):
        return any(x[0] == "call" and x[1] == HM + "remove" for x in walk(e))
    none_edges = []
    some_edges = []
    error_before = False
    for i in sorted(f.reach):
        t = f.b.blocks[i]["term"]
        if t["t"] != "switch":
            continue
        e = f.ex.operand(t["d"])
        ed = f.switch_edges(i)
        if is_call(e, "Option::<T>::is_none") and on_removed(e):
            none_edges.append((i, ed["else"]))
            some_edges.append((i, ed.get(0)))
        elif is_call(e, "Option::<T>::is_some") and on_removed(e):
            none_edges.append((i, ed.get(0)))
            some_edges.append((i, ed["else"]))
        elif e[0] == "discr" and strip_ref(e[1])[0] == "call" and strip_ref(e[1])[1] == HM + "remove":
            # `match` lists both variants; `let Some(x) = .. else` / `if let` list one and use the fall-through
            none_edges.append((i, ed[0] if 0 in ed else ed["else"]))
            some_edges.append((i, ed[1] if 1 in ed else ed["else"]))
        elif e[0] == "discr" and strip_ref(e[1])[0] == "call" and strip_ref(e[1])[1] == "core::ops::try_trait::Try::branch":
            # `remove(token).ok_or(..)?` / `.ok_or_else(..)?`: Continue (0) = known token, Break (1) = unknown
            arg = strip_ref(strip_ref(e[1])[2][0])
            if arg[0] == "call" and arg[1] in ("core::option::Option::<T>::ok_or", "core::option::Option::<T>::ok_or_else") and \
                    strip_ref(arg[2][0])[0] == "call" and strip_ref(arg[2][0])[1] == HM + "remove":
                none_edges.append((i, ed[1] if 1 in ed else ed["else"]))
                some_edges.append((i, ed[0] if 0 in ed else ed["else"]))
                # the error handed on by `?` is the one ok_or / ok_or_else was given
                if len(arg) > 3 and isinstance(arg[3], int):
                    ot = f.b.blocks[arg[3]]["term"]
                    if ot["t"] == "call" and len(ot["args"]) == 2:
                        dv = f.tr.value(ot["args"][1])
                        if dv.kind == "agg" and dv.rv.get("kind") == "closure":
                            cb = (f.b.crate.bodies.get(dv.rv.get("n")) or getattr(f.b.crate, "absorbed", {}).get(dv.rv.get("n"))) if f.b.crate is not None else None
                            if cb is not None:
                                for blk_ in cb.blocks:
                                    for st_ in blk_["stmts"]:
                                        if st_.get("s") == "assign" and st_["rv"]["r"] == "agg" and st_["rv"].get("kind") == "adt" and \
                                                "%s::%s" % (st_["rv"]["n"], st_["rv"]["vname"]) == "zvt_feig_terminal::feig::Error::UnknownToken":
                                            error_before = True
                        else:
                            de = f.ex.operand(ot["args"][1])
                            if f.contains_agg(de, "zvt_feig_terminal::feig::Error::UnknownToken"):
                                error_before = True
    if not chk.require(len(none_edges) == 1 and none_edges[0][1] is not None, "C07-b/unknown-token-test", name,
                       "the result of the token lookup is not tested exactly once (found %d tests)" % len(none_edges),
                       "", f.sp(rbb)):
        return
    sbb, ntarget = none_edges[0]
    starget = some_edges[0][1]
    from rules_c07 import refuse_region_ok as rr
    rr(chk, f, "C07-b/unknown-refusal", name, ntarget, "zvt_feig_terminal::feig::Error::UnknownToken", traffic,
       error_built_before=error_before)
    for tb, t, k in traffic:
        chk.require(f.edge_dominates((sbb, starget), tb), "C07-b/known-token-dominates",
                    "%s -> %s" % (name, callee(t).rsplit("::", 1)[-1]),
                    "terminal traffic is reachable for an unknown token", "guarded", f.sp(tb))
    # (d) what is acted on
    def acted_on(act_bb, what):
        # once the token is closed (removed from the map) the call cannot end without having asked the terminal to close
        # the pre-authorisation: no return is reachable from the known-token edge around the reversal
        rets = [i for i in f.reach if f.b.blocks[i]["term"]["t"] == "return"]
        around = f.reach_from(starget, cut_blocks=[act_bb])
        chk.require(not [r for r in rets if r in around], "C07-d/closed-token-acted-on", name,
                    "the call can return after closing the token without %s (e.g. an error return between the removal and the "
                    "exchange): the pre-authorisation stays open on the terminal with no token for it" % what,
                    "every path from the removal passes the reversal", f.sp(act_bb))
    if name == "commit_transaction":
        st = [(bb, t) for bb, t in f.stream_calls() if f.seq_of(t) == "zvt::sequences::PartialReversal"]
        if len(st) == 1 and starget is not None:
            acted_on(st[0][0], "the PartialReversal exchange")
        if chk.require(len(st) == 1, "C07-d/request", name, "expected one PartialReversal exchange, found %d" % len(st), "", f.sp()):
            req = f.ex.operand(st[0][1]["args"][0])
            rn = field_of_agg(req, "zvt::packets::PartialReversal::PartialReversal", "receipt_no")
            chk.require(rn is not None and on_removed(rn) and not consts_in(rn), "C07-d/receipt", name,
                        "PartialReversal.receipt_no is %s, not the receipt number stored for the token" % (show(rn)[:120] if rn else None),
                        "receipt_no = removed value", f.sp(st[0][0]))
    else:
        cs = f.calls(lambda n, t: n == FEIG + "cancel_transaction_by_receipt_no")
        if len(cs) == 1 and starget is not None:
            acted_on(cs[0][0], "the reversal")
        if chk.require(len(cs) == 1, "C07-d/request", name, "expected one reversal call, found %d" % len(cs), "", f.sp()):
            a = f.ex.operand(cs[0][1]["args"][1])
            chk.require(on_removed(a) and not consts_in(a), "C07-d/receipt", name,
                        "the reversal is requested for %s, not for the receipt number stored for the token" % show(a)[:120],
                        "receipt = removed value", f.sp(cs[0][0]))


def consts_in(e):
    return [x for x in walk(e) if x[0] == "const" and isinstance(x[1], int)]


def field_of_agg(e, agg_name, field):
    for x in walk(e):
        if x[0] == "agg" and x[1] == agg_name and field in x[3]:
            v = x[2][x[3].index(field)]
            # unwrap Option::Some
            if v[0] == "agg" and v[1].endswith("Option::Some"):
                return v[2][0]
            return v
    return None


def by_receipt(chk, crate):
    f = Fn(crate, "cancel_transaction_by_receipt_no")
    st = [(bb, t) for bb, t in f.stream_calls() if f.seq_of(t) == "zvt::sequences::PreAuthReversal"]
    if chk.require(len(st) == 1, "C07-d/request", f.short, "expected one PreAuthReversal exchange, found %d" % len(st), "", f.sp()):
        req = f.ex.operand(st[0][1]["args"][0])
        rn = field_of_agg(req, "zvt::packets::PreAuthReversal::PreAuthReversal", "receipt_no")
        chk.require(rn is not None and strip_ref(rn)[0] == "path" and strip_ref(rn)[1] == f.param(2), "C07-d/receipt", f.short,
                    "PreAuthReversal.receipt_no is %s, not the function's receipt_no argument" % (show(rn) if rn else None),
                    "receipt_no = argument", f.sp(st[0][0]))


def run(ctx, chk):
    _run_own(ctx, chk)
    # one begin_transaction = one Reservation at the terminal: the retry wrapper re-issues a command only after a failed
    # attempt, and a live exchange is not a failed one - its await budget is per packet (C10-a/per-await-budget)
    import rules_c10
    from report import Sub
    sub = Sub(chk, "C07-e", lambda r: r == "C10-a/per-await-budget" or r == "C10-a/await-bounded",
              instance_filter=lambda i: "into_stream_with_retry" in str(i))
    rules_c10.run(ctx, sub)
    # ... and an attempt the terminal answered completely is final: the wrapper's failure bookkeeping is per attempt (a flag
    # that survives from a failed attempt makes the good retry look failed - the Reservation is sent again, the terminal
    # books a second pre-authorisation for the one token) - the C09-a/b clauses of the retry wrapper
    import rules_c09
    sub9 = Sub(chk, "C07-e", lambda r: r in ("C09-a/reset-on-failure", "C09-b/keep-on-success"))
    rules_c09.retry(sub9, ctx.crate("zvt_feig_terminal"))
    chk.floor("retry-wrapper obligations (shared with C09-a/b)", sub9.count, 2)
    limit_source(ctx, chk)
    # a token is opened only by a reservation that succeeded: the abort arms of begin_transaction never end in Ok (C20)
    import rules_c20
    sub20 = Sub(chk, "C07-c", lambda r: r.startswith("C20/") and r != "C20/nested-abort-propagates",
                instance_filter=lambda i: str(i).startswith("begin_transaction"))
    rules_c20.run(ctx, sub20)
    chk.floor("reservation abort-arm obligations (shared with C20)", sub20.count, 3)


def limit_source(ctx, chk):
    """"never more than the configured maximum": the limit the guard compares with is the caller's configuration value as it
    was handed in - `Feig::new` stores `config.transactions_max_num` of its own parameter, nothing computed from it, nothing
    read back from a component that may have normalised it (a 0 replaced by a default opens a token where none is allowed)."""
    import pathsym as ps
    crate = ctx.crate("zvt_feig_terminal")
    outer = crate.bodies.get(FEIG + "new")
    body = crate.bodies.get(FEIG + "new::{closure#0}") or outer
    if not chk.require(body is not None, "C07-b/limit-source", "Feig::new", "constructor not found", "", nontrivial=False):
        return
    A = "zvt_feig_terminal::feig::Feig"
    found = []
    for i in sorted(body.reachable(0)):
        for st in body.blocks[i]["stmts"]:
            if st["s"] == "assign" and st["rv"]["r"] == "agg" and st["rv"].get("kind") == "adt" and st["rv"].get("n") == A:
                found.append((i, st))
    if not chk.require(len(found) == 1, "C07-b/limit-source", "Feig::new", "expected one construction of Feig, found %d" % len(found), "", body.sp()):
        return
    i, st = found[0]
    fields = st["rv"].get("fields") or []
    # which field the capacity guard of begin_transaction compares the map's length with
    chain = ("transactions_max_num",)
    try:
        fb = Fn(crate, "begin_transaction")
        for bb_, e_, tt_, ft_ in fb.bool_switches(lambda e: e[0] == "bin" and e[1] in ("Eq", "Ge", "Lt", "Gt", "Le")):
            for a_, b_ in ((e_[2], e_[3]), (e_[3], e_[2])):
                if is_call(a_, "HashMap::<K, V, S, A>::len") and mentions_path(a_, "self", ("transactions",)):
                    b2 = strip_ref(b_)
                    if b2[0] == "path" and b2[1] == "self" and b2[2]:
                        chain = tuple(b2[2])
    except KeyError:
        pass
    if not chk.require(chain[0] in fields, "C07-b/limit-source", "Feig::new", "field %s not initialised" % chain[0], "",
                       body.sp()):
        return
    op = st["rv"]["ops"][fields.index(chain[0])]
    pe = ps.PathEval(body, {})
    ok = True
    why = ""
    for path in ps.simple_paths(body, 0, i)[:16]:
        env, _ = pe.run(path + [i] if path[-1] != i else path)
        e = ps.norm(pe.operand(op, env))
        # a limit kept inside the private struct that holds the map: follow the field chain into that struct's construction
        for nm_ in chain[1:]:
            e2 = ps.strip(e)
            if e2[0] == "agg" and nm_ in (e2[3] or ()):
                e = ps.norm(e2[2][list(e2[3]).index(nm_)])
            else:
                e = ("konst", "field %s of %s" % (nm_, ps.show(e2)[:60]))
                break
        root, names = ps.field_chain(e)
        # async fn: the parameter is the coroutine's captured `config` (upvar 0); sync: parameter 1
        is_param = root[0] == "pre" or (root[0] == "field" and ps.field_chain(root)[0][0] == "pre")
        if not (names[-1:] == ["transactions_max_num"] and not any(x[0] == "call" for x in ps.walk(e)) and
                not any(x[0] == "bin" for x in ps.walk(e)) and is_param):
            ok = False
            why = ps.show(e)[:100]
    chk.require(ok, "C07-b/limit-source", "Feig::new",
                "the stored limit is %s, not the transactions_max_num of the configuration handed in" % why,
                "config.transactions_max_num", body.sp())
