"""C13 — tagged fields: any order accepted, duplicates and missing fields reported."""
import layout
import codec_rules

EXPLANATION = (
    "Structural analysis of every generated struct decoder (MIR of the derive output). The tagged-field "
    "loop is decided by shape: all tagged rows are arms of one switch on the decoded tag inside one loop "
    "(order-free); in arm n the duplicate-set insert, the DuplicateTag error, the required-set removal and "
    "the expected tag handed to deserialize_tagged all carry the constant n; the required set equals the "
    "mandatory tagged rows and Ok is only returned under is_empty(required), otherwise "
    "Err(MissingRequiredTags(v)) with v derived from the whole set; the unknown-tag arm writes no field, "
    "does not touch the input slice and leaves the loop. Holds for every input because these are "
    "properties of the control/data-flow graph, not of sampled byte strings.")
RULE = ("C13-a one dispatch switch in one loop, arms == tagged rows, tag decoded by Default::decode::<Tag>; "
        "C13-b per-arm constants agree + duplicate edge returns Err(DuplicateTag(Tag(n))); C13-c required "
        "set == mandatory rows, Ok dominated by is_empty(required), missing error derives from the set; "
        "C13-d default arm inert and exits; C13-e field and remainder wiring per arm.")


def run_on_crate(chk, crate, label=""):
    impls = layout.codec_impl_bodies(crate)
    n = 0
    ntag = 0
    for sname, d in sorted(impls.items()):
        if "decode" not in d:
            continue
        body = d["decode"]
        try:
            info = layout.extract_decode(body)
        except layout.ShapeError as e:
            chk.fail("C13/decoder-shape", label + sname, "decoder not analysable: %s" % e.msg, body.sp())
            continue
        n += 1
        ntag += len(info.tagged)
        codec_rules.check_tag_loop(chk, label + sname, body, info, "C13")
    return n, ntag


def run(ctx, chk):
    n, ntag = run_on_crate(chk, ctx.crate("zvt"))
    # "an unknown tag stops decoding and the result is the value of the bytes before it": what a nested container did not read
    # must come back to the enclosing loop as remainder - the generic framing step keeps the field's bounded view and hands
    # back `&payload[length - unread..]` (clauses shared with C14-a/b)
    import rules_c14
    from report import Sub
    if not isinstance(chk, Sub):
        sub = Sub(chk, "C13-d", lambda r: r in ("C14-a/bounded-view", "C14-b/remainder"))
        rules_c14.framing(sub, [ctx.crate("zvt_builder"), ctx.crate("zvt")])
        chk.floor("framing obligations (shared with C14-a/b)", sub.count, 2)
    chk.analysed["shipped_struct_decoders"] = n
    chk.analysed["tagged_rows"] = ntag
    chk.floor("struct decoders analysed", n, 55)
    chk.floor("tagged rows (arms) analysed", ntag, 120)
    if ctx.tier == "thorough":
        t = ctx.crate("zvt", kind="test", tests=True)
        # the integration-test crate `derive` holds the toy structs
        try:
            dt = ctx.crate("derive", kind="test", tests=True)
            n2, nt2 = run_on_crate(chk, dt, "tests/derive.rs::")
            chk.analysed["test_struct_decoders"] = n2
        except Exception as e:  # noqa
            chk.note("test structs not analysed: %r" % (e,))
