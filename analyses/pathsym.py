"""Path-wise symbolic evaluation of MIR-lite (no solver, no execution: definitions are substituted in
program order along one acyclic path, so a value's *expression* is independent of how the source spreads
it over named temporaries, reassigned variables, shadowed bindings or inlined helpers).

Expressions (tuples):
  ("const", int) ("str", s) ("zst",) ("konst", repr)
  ("pre", l)                      local not assigned on the path (defined before it)
  ("call", name, (args..), (generic args..))
  ("bin", op, a, b) ("un", op, a) ("cast", a, ty) ("ref", a) ("discr", a) ("len", a)
  ("field", base, key)            key = field name / ('f', idx) / ('dc', variant) / ('idx', expr) ...
  ("agg", name, (ops..), (field names..))
  ("havoc", l, why)               value no longer known (written through a &mut / unknown statement)
"""
from mirlite import callee, ty_str, op_place, bool_transfer, bool_switch_target
from flow import proj_key

# calls that hand their (first) argument on unchanged, as far as the *value* is concerned
TRANSPARENT = (
    "core::ops::deref::Deref::deref", "core::ops::deref::DerefMut::deref_mut", "core::borrow::Borrow::borrow",
    "core::convert::AsRef::as_ref", "alloc::string::String::as_str", "alloc::string::ToString::to_string",
    "alloc::borrow::ToOwned::to_owned", "core::clone::Clone::clone", "core::convert::From::from",
    "core::convert::Into::into", "alloc::str::<impl str>::to_owned", "alloc::string::String::as_mut_str",
    "core::str::<impl str>::as_ref", "alloc::str::<impl alloc::borrow::ToOwned for str>::to_owned",
)


def simple_paths(body, src, dst, avoid=(), limit=512, pins=None):
    """Simple (block-repetition-free) paths src -> dst over non-cleanup edges, not entering `avoid`."""
    avoid = set(avoid)
    out = []
    can = set()
    # blocks from which dst is reachable (prune)
    pred = body.pred
    st = [dst]
    while st:
        x = st.pop()
        if x in can:
            continue
        can.add(x)
        st.extend(pred[x])

    def go(bb, path, seen, known):
        if len(out) >= limit:
            return
        if bb == dst:
            out.append(path + [bb])
            return
        # constants known on this path (bool flags, enum variants built by aggregates, `?` on them) prune
        # the edges that cannot be taken
        known = bool_transfer(body, bb, known, pins)
        only = bool_switch_target(body, bb, known)
        for s in normal_succ(body, bb):
            if only is not None and s != only:
                continue
            if s in seen or s in avoid or s not in can:
                continue
            go(s, path + [bb], seen | {s}, known)
    go(src, [], {src}, {k: v for k, v in (pins or {}).items() if isinstance(k, tuple)})
    return out


def normal_succ(body, bb):
    t = body.blocks[bb]["term"]
    k = t["t"]
    if k == "switch":
        out = [tb for _, tb in t["targets"]] + [t["else"]]
    elif k in ("goto", "drop", "assert", "falseedge", "falseunwind"):
        out = [t["to"]]
    elif k == "call":
        out = [t["to"]] if t.get("to") is not None else []
    elif k == "yield":
        out = [t["resume"]]
    else:
        out = []
    seen = []
    for x in out:
        if x is not None and x not in seen:
            seen.append(x)
    return seen


class PathEval:
    def __init__(self, body, adts=None):
        self.b = body
        self.adts = adts or {}        # name -> adt facts (for discriminant values of enum constants)

    def const(self, k):
        if "v" in k and isinstance(k["v"], int):
            return ("const", k["v"])
        if "str" in k:
            return ("str", k["str"])
        if k.get("zst"):
            return ("zst",)
        return ("konst", str(k.get("s", k))[:60])

    def place(self, p, env):
        base = env.get(p["l"], ("pre", p["l"]))
        for e in p["p"]:
            k = proj_key(e)
            if k == "deref":
                continue
            if k[0] == "f":
                base = ("field", base, k[2] if k[2] is not None else ("f", k[1]))
            elif k[0] == "idx":
                base = ("field", base, ("idx", env.get(k[1], ("pre", k[1]))))
            elif k[0] == "dc":
                base = ("field", base, ("dc", k[2] if k[2] is not None else k[1]))
            else:
                base = ("field", base, k)
        return base

    def operand(self, o, env):
        if "k" in o:
            return self.const(o["k"])
        p = op_place(o)
        if p is None:
            return ("konst", "?")
        return self.place(p, env)

    def rvalue(self, rv, env):
        r = rv["r"]
        if r == "use":
            return self.operand(rv["o"], env)
        if r in ("ref", "rawptr", "cfd"):
            return ("ref", self.place(rv["p"], env)) if r != "cfd" else self.place(rv["p"], env)
        if r == "cast":
            return ("cast", self.operand(rv["o"], env), ty_str(rv["ty"]))
        if r == "bin":
            return ("bin", rv["op"], self.operand(rv["a"], env), self.operand(rv["b"], env))
        if r == "un":
            if rv["op"] == "PtrMetadata":
                return ("len", self.operand(rv["a"], env))
            return ("un", rv["op"], self.operand(rv["a"], env))
        if r == "discr":
            v = self.place(rv["p"], env)
            if v[0] == "agg" and len(v) > 4 and v[4] and v[4][0] in self.adts:
                vs = self.adts[v[4][0]].get("variants", [])
                if v[4][1] < len(vs):
                    return ("const", vs[v[4][1]].get("discr", v[4][1]))
            return ("discr", v)
        if r == "agg":
            name = rv.get("kind")
            meta = None
            if name == "adt":
                name = "%s::%s" % (rv["n"], rv["vname"])
                meta = (rv["n"], rv.get("variant", 0))
            elif name in ("closure", "coroutine", "coroutine_closure") and rv.get("n"):
                meta = (rv["n"], None)          # the closure's body id
            return ("agg", name, tuple(self.operand(o, env) for o in rv["ops"]), tuple(rv.get("fields") or ()), meta)
        if r == "repeat":
            return ("agg", "repeat", (self.operand(rv["o"], env),), ())
        return ("konst", "rvalue:" + r)

    def run(self, path, env=None):
        """Evaluate the statements and terminators along `path` (list of blocks).
        -> (env at the end of the last block's statements, [(switch bb, cond expr, taken value | 'else')])"""
        b = self.b
        env = dict(env or {})
        conds = []
        for i, bb in enumerate(path):
            blk = b.blocks[bb]
            for st in blk["stmts"]:
                if st["s"] == "assign":
                    p = st["p"]
                    val = self.rvalue(st["rv"], env)
                    if not [e for e in p["p"] if e != "deref"] and not p["p"]:
                        env[p["l"]] = val
                    elif not p["p"] or all(e == "deref" for e in p["p"]):
                        # `*r = v`: the referent is not tracked
                        env[p["l"]] = ("havoc", p["l"], "write through reference")
                    else:
                        # partial write `x.f = v`
                        cur = env.get(p["l"], ("pre", p["l"]))
                        env[p["l"]] = ("agg", "update", (cur, val), (str([proj_key(e) for e in p["p"]]),))
                elif st["s"] == "setdiscr":
                    env[st["p"]["l"]] = ("havoc", st["p"]["l"], "setdiscr")
            if i + 1 >= len(path):
                break
            nxt = path[i + 1]
            t = blk["term"]
            if t["t"] == "call":
                args = tuple(self.operand(a, env) for a in t["args"])
                ga = tuple(ty_str(x) for x in (t.get("f") or {}).get("a", []))
                val = ("call", callee(t) or "?", args, ga)
                # a callee that receives `&mut local` may change it
                for a in t["args"]:
                    p = op_place(a)
                    if p is not None and not p["p"]:
                        v = env.get(p["l"])
                        if v is not None and v[0] == "ref" and self._is_mut_ref_local(p["l"]):
                            tgt = self._ref_target(p["l"])
                            if tgt is not None:
                                env[tgt] = ("call-mut", callee(t) or "?", args, env.get(tgt, ("pre", tgt)))
                d = t["dest"]
                if not d["p"]:
                    env[d["l"]] = val
                else:
                    env[d["l"]] = ("havoc", d["l"], "call into projection")
            elif t["t"] == "switch":
                ce = self.operand(t["d"], env)
                taken = "else"
                for v, tb in t["targets"]:
                    if tb == nxt and t["else"] != nxt:
                        taken = v
                        break
                    if tb == nxt:
                        taken = v
                conds.append((bb, ce, taken, [v for v, _ in t["targets"]]))
        return env, conds

    def _is_mut_ref_local(self, l):
        return ty_str(self.b.locals[l]["ty"]).startswith("&mut ")

    def _ref_target(self, l):
        """local whose address `l = &mut x` holds (single definition)."""
        ds = self.b.defs.get(l, []) if hasattr(self.b, "defs") else []
        for d in ds:
            if d[2] == "assign" and d[3]["rv"]["r"] == "ref" and not d[3]["rv"]["p"]["p"]:
                return d[3]["rv"]["p"]["l"]
        return None


def strip(e):
    """Remove value-preserving plumbing: refs, transparent calls, casts between reference types."""
    while True:
        if e[0] == "ref":
            e = e[1]
        elif e[0] == "call" and e[1] in TRANSPARENT and e[2]:
            e = e[2][0]
        elif e[0] == "cast" and (e[2].startswith("&") or e[2].startswith("*")):
            e = e[1]
        else:
            return e


def norm(e):
    """strip() applied at every level."""
    e = strip(e)
    if e[0] == "call":
        return ("call", e[1], tuple(norm(a) for a in e[2]), e[3])
    if e[0] == "bin":
        a, b = norm(e[2]), norm(e[3])
        if a[0] == "const" and b[0] == "const" and isinstance(a[1], int) and isinstance(b[1], int):
            op = e[1].replace("WithOverflow", "")
            f = {"Add": lambda x, y: x + y, "Sub": lambda x, y: x - y, "Mul": lambda x, y: x * y, "BitAnd": lambda x, y: x & y,
                 "BitOr": lambda x, y: x | y, "Shr": lambda x, y: x >> y, "Shl": lambda x, y: x << y}.get(op)
            if f is not None and not (op in ("Shr", "Shl") and not 0 <= b[1] < 128) and not e[1].endswith("WithOverflow"):
                return ("const", f(a[1], b[1]))
        return ("bin", e[1], a, b)
    if e[0] in ("un",):
        return ("un", e[1], norm(e[2]))
    if e[0] == "cast":
        inner = norm(e[1])
        if inner[0] == "const" and isinstance(inner[1], int) and e[2] in ("u8", "u16", "u32", "u64", "usize") and inner[1] >= 0:
            return ("const", inner[1] & ((1 << {"u8": 8, "u16": 16, "u32": 32, "u64": 64, "usize": 64}[e[2]]) - 1))
        return ("cast", inner, e[2])
    if e[0] in ("discr", "len"):
        return (e[0], norm(e[1]))
    if e[0] == "field":
        k = e[2]
        if isinstance(k, tuple) and k and k[0] == "idx":
            k = ("idx", norm(k[1]))
        base = norm(e[1])
        # `(a op_with_overflow b).0` is the arithmetic result
        if base[0] == "bin" and base[1].endswith("WithOverflow") and k in ("0", ("f", 0)):
            return norm(("bin", base[1][:-len("WithOverflow")], base[2], base[3]))
        # projection out of a value that was built on this very path: (Variant(x) as Variant).0 = x, (a, b).1 = b
        if base[0] == "field" and isinstance(base[2], tuple) and base[2][0] == "dc" and k in ("0", ("f", 0)):
            inner = strip(base[1])
            if inner[0] == "agg" and str(inner[1]).endswith("::%s" % base[2][1]) and len(inner[2]) == 1:
                return inner[2][0]
        if base[0] == "agg" and base[1] == "tuple":
            idx = k[1] if isinstance(k, tuple) and k[0] == "f" else (int(k) if isinstance(k, str) and k.isdigit() else None)
            if idx is not None and idx < len(base[2]):
                return base[2][idx]
        return ("field", base, k)
    if e[0] == "agg":
        return ("agg", e[1], tuple(norm(a) for a in e[2]), e[3]) + tuple(e[4:])
    return e


def walk(e):
    yield e
    if e[0] == "call":
        for a in e[2]:
            yield from walk(a)
    elif e[0] == "bin":
        yield from walk(e[2])
        yield from walk(e[3])
    elif e[0] in ("un",):
        yield from walk(e[2])
    elif e[0] in ("cast", "ref", "discr", "len"):
        yield from walk(e[1])
    elif e[0] == "field":
        yield from walk(e[1])
        if isinstance(e[2], tuple) and e[2] and e[2][0] == "idx":
            yield from walk(e[2][1])
    elif e[0] == "agg":
        for a in e[2]:
            yield from walk(a)
    elif e[0] == "call-mut":
        for a in e[2]:
            yield from walk(a)
        yield from walk(e[3])


def show(e, depth=0):
    if depth > 8:
        return "..."
    k = e[0]
    if k == "const":
        return str(e[1])
    if k == "str":
        return repr(e[1])
    if k == "pre":
        return "_%d" % e[1]
    if k == "call":
        return "%s(%s)" % (e[1].rsplit("::", 1)[-1], ", ".join(show(a, depth + 1) for a in e[2]))
    if k == "bin":
        return "(%s %s %s)" % (show(e[2], depth + 1), e[1], show(e[3], depth + 1))
    if k == "un":
        return "%s(%s)" % (e[1], show(e[2], depth + 1))
    if k in ("ref", "discr", "len"):
        return "%s(%s)" % (k, show(e[1], depth + 1))
    if k == "cast":
        return "(%s as %s)" % (show(e[1], depth + 1), e[2])
    if k == "field":
        return "%s.%s" % (show(e[1], depth + 1), e[2] if not isinstance(e[2], tuple) else "/".join(str(x)[:20] for x in e[2][:2]))
    if k == "agg":
        return "%s{%s}" % (str(e[1]).rsplit("::", 2)[-1], ", ".join(show(a, depth + 1) for a in e[2]))
    return str(e)[:60]


# ---------------------------------------------------------------- value cores and field chains
OPTION_PLUMB = (
    "core::option::Option::<T>::as_ref", "core::option::Option::<T>::as_mut", "core::option::Option::<&T>::copied",
    "core::option::Option::<&T>::cloned", "core::option::Option::<T>::ok_or", "core::option::Option::<T>::ok_or_else",
    "core::option::Option::<T>::unwrap", "core::option::Option::<T>::expect", "core::result::Result::<T, E>::unwrap",
    "core::result::Result::<T, E>::expect", "core::result::Result::<T, E>::map_err", "core::ops::try_trait::Try::branch",
    "core::option::Option::<T>::as_deref", "core::result::Result::<T, E>::ok",
)
PAYLOAD_VARIANTS = ("Some", "Ok", "Continue")


def core(e):
    """The value an expression carries once Option/Result wrapping and unwrapping is ignored:
    Some(x), Ok(x), x?, x.unwrap(), x.ok_or(..), x.as_ref(), (x as Some).0 ... all have core x.
    (Whether the unwrapping can fail is a matter of the path condition, not of the value.)"""
    while True:
        e = strip(e)
        if e[0] == "agg" and str(e[1]).rsplit("::", 1)[-1] in PAYLOAD_VARIANTS and len(e[2]) == 1:
            e = e[2][0]
        elif e[0] == "call" and e[1] in OPTION_PLUMB and e[2]:
            e = e[2][0]
        elif e[0] == "field" and e[2] in ("0", ("f", 0)) and e[1][0] == "field" and isinstance(e[1][2], tuple) and \
                e[1][2][0] == "dc" and e[1][2][1] in PAYLOAD_VARIANTS:
            e = e[1][1]
        elif e[0] == "field" and e[1][0] == "agg" and e[1][1] == "tuple" and isinstance(e[2], tuple) and e[2][0] == "f" and \
                e[2][1] < len(e[1][2]):
            e = e[1][2][e[2][1]]
        elif e[0] == "field" and e[2] in ("0", "1", "2") and strip(e[1])[0] == "agg" and strip(e[1])[1] == "tuple":
            e = strip(e[1])[2][int(e[2])]
        else:
            return e


def field_chain(e):
    """(root, [field names]) of a nested field access, looking through wrapping at every level; tuple
    positions and enum payload steps appear as ints / '@Variant'."""
    names = []
    while True:
        e = core(e)
        if e[0] != "field":
            return e, list(reversed(names))
        k = e[2]
        if isinstance(k, tuple):
            if k[0] == "f":
                names.append(k[1])
            elif k[0] == "dc":
                names.append("@%s" % k[1])
            else:
                names.append(str(k))
        else:
            names.append(int(k) if isinstance(k, str) and k.isdigit() else k)
        e = e[1]


def calls_in(e, name_suffix):
    return [x for x in walk(e) if x[0] == "call" and x[1].endswith(name_suffix)]


def closure_builds(crate, e, adt_variant_name):
    """Does some closure that occurs in expression e (e.g. the default of ok_or_else) construct the given enum
    variant / struct (full path `adt::Variant`)?"""
    for x in walk(e):
        if x[0] == "agg" and x[1] in ("closure", "coroutine_closure") and len(x) > 4 and x[4]:
            cb = crate.bodies.get(x[4][0]) if crate is not None else None
            if cb is None:
                continue
            for blk in cb.blocks:
                for st in blk["stmts"]:
                    if st.get("s") == "assign" and st["rv"]["r"] == "agg" and st["rv"].get("kind") == "adt" and \
                            "%s::%s" % (st["rv"]["n"], st["rv"]["vname"]) == adt_variant_name:
                        return True
    return False
