"""Fact building: run the zvt-mirdump driver over /repo's *current working tree*.

Facts are a deterministic function of the source tree, the driver and the flags; they
are cached under /verif/.work/facts/<key>/ where <key> hashes exactly those inputs, so a
changed tree (or driver) always triggers a fresh compiler run.  All freshness problems
(cargo skipping the wrapper, stale files, missing crates) fail closed.
"""
import fcntl
import hashlib
import json
import os
import shutil
import subprocess
import sys
import time

VERIF = os.path.dirname(os.path.dirname(os.path.abspath(__file__)))
REPO = os.environ.get("ZVT_REPO", "/repo")
WORK = os.path.join(VERIF, ".work")
DRIVER_SRC = os.path.join(VERIF, "driver")
DRIVER_TARGET = os.path.join(WORK, "driver-target")
DRIVER_BIN = os.path.join(DRIVER_TARGET, "release", "zvt-mirdump")
RUSTFLAGS = "-Zmir-opt-level=0 -Coverflow-checks=on -Awarnings"

# crate name -> kind expected in the quick (lib/bin) build
EXPECTED = {
    "zvt_builder": "rlib",
    "zvt": "rlib",
    "zvt_feig_terminal": "rlib",
    "zvt_cli": "executable",
    "feig_update": "executable",
    "zvt_derive": "procmacro",
}
# Floors: number of bodies counted on the reference tree (fail closed when fewer).
# coarse guard against a truncated dump only (every rule has its own, exact instance floors); loose enough
# for refactorings that remove closures (one per derived struct)
BODY_FLOORS = {"zvt_builder": 50, "zvt": 250, "zvt_feig_terminal": 75}


class FactError(Exception):
    pass


def _env():
    env = dict(os.environ)
    env["CARGO_NET_OFFLINE"] = "true"
    return env


def sysroot():
    return subprocess.check_output(
        ["rustc", "+nightly", "--print", "sysroot"], env=_env(), text=True
    ).strip()


def build_driver(verbose=False):
    os.makedirs(WORK, exist_ok=True)
    env = _env()
    env["CARGO_TARGET_DIR"] = DRIVER_TARGET
    r = subprocess.run(
        ["cargo", "+nightly", "build", "--release", "--offline"],
        cwd=DRIVER_SRC,
        env=env,
        stdout=subprocess.PIPE,
        stderr=subprocess.STDOUT,
        text=True,
    )
    if r.returncode != 0 or not os.path.exists(DRIVER_BIN):
        raise FactError("driver build failed:\n" + r.stdout[-4000:])
    if verbose:
        print(r.stdout[-400:])


def _iter_tree_files(root):
    skip = {"target", ".git", "py", "data"}
    for d, dirs, files in os.walk(root):
        dirs[:] = sorted(x for x in dirs if x not in skip)
        for f in sorted(files):
            if f.endswith((".rs", ".toml", ".lock")):
                yield os.path.join(d, f)


def tree_key(tests=False, extra=""):
    h = hashlib.sha256()
    for p in _iter_tree_files(REPO):
        h.update(os.path.relpath(p, REPO).encode())
        h.update(b"\0")
        with open(p, "rb") as fh:
            h.update(fh.read())
        h.update(b"\0")
    for p in _iter_tree_files(DRIVER_SRC):
        if "/.cargo/" in p:
            continue
        with open(p, "rb") as fh:
            h.update(fh.read())
    h.update(RUSTFLAGS.encode())
    h.update(b"tests" if tests else b"libs")
    h.update(extra.encode())
    return h.hexdigest()[:20]


def _load_index(d):
    p = os.path.join(d, "COMPLETE.json")
    if os.path.exists(p):
        with open(p) as fh:
            return json.load(fh)
    return None


def build(tests=False, verbose=False, src=None, extra_key=""):
    """Return (facts_dir, index).  `src` = alternative workspace root (used for fixture
    crates that depend on /repo); default /repo."""
    os.makedirs(WORK, exist_ok=True)
    src = src or REPO
    lock = open(os.path.join(WORK, "facts.lock"), "w")
    fcntl.flock(lock, fcntl.LOCK_EX)
    try:
        if not os.path.exists(DRIVER_BIN) or _driver_stale():
            build_driver(verbose)
        key = tree_key(tests, extra_key + ("|" + src if src != REPO else ""))
        if src != REPO:
            h = hashlib.sha256()
            for p in _iter_tree_files(src):
                with open(p, "rb") as fh:
                    h.update(p.encode() + b"\0" + fh.read())
            key = hashlib.sha256((key + h.hexdigest()).encode()).hexdigest()[:20]
        out = os.path.join(WORK, "facts", key)
        idx = _load_index(out)
        if idx is not None:
            return out, idx
        if os.path.exists(out):
            shutil.rmtree(out)
        os.makedirs(out)
        nonce = hashlib.sha256(f"{key}{time.time()}{os.getpid()}".encode()).hexdigest()[:16]
        tgt = os.path.join(WORK, "target-tests" if tests else "target")
        if src != REPO:
            tgt = os.path.join(WORK, "target-fixture")
        # Force the wrapper to run for workspace members: drop their fingerprints.
        fp = os.path.join(tgt, "debug", ".fingerprint")
        if os.path.isdir(fp):
            for name in os.listdir(fp):
                base = name.rsplit("-", 1)[0]
                if base in ("zvt", "zvt_builder", "zvt_derive", "zvt_cli", "zvt_feig_terminal",
                            "zvt-builder", "zvt-derive", "zvt-cli", "zvt-feig-terminal",
                            "feig_update", "derive_grid", "witnesses"):
                    shutil.rmtree(os.path.join(fp, name), ignore_errors=True)
        env = _env()
        env["LD_LIBRARY_PATH"] = sysroot() + "/lib"
        env["RUSTFLAGS"] = RUSTFLAGS
        env["RUSTC_WORKSPACE_WRAPPER"] = DRIVER_BIN
        env["ZVT_MIRDUMP_OUT"] = out
        env["ZVT_MIRDUMP_NONCE"] = nonce
        env["CARGO_TARGET_DIR"] = tgt
        cmd = ["cargo", "+nightly", "check", "--offline", "--workspace"]
        if tests:
            cmd.append("--tests")
        t0 = time.time()
        r = subprocess.run(cmd, cwd=src, env=env, stdout=subprocess.PIPE,
                           stderr=subprocess.STDOUT, text=True)
        if r.returncode != 0:
            shutil.rmtree(out, ignore_errors=True)
            raise FactError("cargo check under the driver failed (does the tree compile?):\n"
                            + r.stdout[-6000:])
        files = {}
        for f in sorted(os.listdir(out)):
            if not f.endswith(".json"):
                continue
            crate, kind, _ = f.split(".", 2)
            files.setdefault(crate, {})[kind] = f
        idx = {"key": key, "nonce": nonce, "tests": tests, "files": files,
               "wall_s": round(time.time() - t0, 2), "src": src}
        if src == REPO:
            for crate, kind in EXPECTED.items():
                # with --tests cargo checks a library in test configuration only, unless another member
                # depends on it: any fact file of the crate shows that the driver ran for it
                have = files.get(crate, {})
                if (kind not in have) if not tests else (not have):
                    shutil.rmtree(out, ignore_errors=True)
                    raise FactError(f"fact file for crate {crate} ({kind}) missing: the driver "
                                    "did not run for it (stale cargo cache?)")
        with open(os.path.join(out, "COMPLETE.json"), "w") as fh:
            json.dump(idx, fh)
        _gc(os.path.join(WORK, "facts"), keep=out)
        return out, idx
    finally:
        fcntl.flock(lock, fcntl.LOCK_UN)
        lock.close()


def _driver_stale():
    try:
        mt = os.path.getmtime(DRIVER_BIN)
    except OSError:
        return True
    for p in _iter_tree_files(DRIVER_SRC):
        if os.path.getmtime(p) > mt:
            return True
    return False


def _gc(root, keep, max_keep=6):
    """Bound disk use: keep the most recent few fact dirs."""
    ds = [os.path.join(root, d) for d in os.listdir(root)]
    ds = [d for d in ds if os.path.isdir(d) and d != keep]
    ds.sort(key=lambda d: os.path.getmtime(d), reverse=True)
    for d in ds[max_keep:]:
        # never a directory a concurrent run (on another tree) may still be reading: only those untouched for an hour
        if time.time() - os.path.getmtime(d) > 3600:
            shutil.rmtree(d, ignore_errors=True)


def load(out, idx, crate, kind=None):
    kinds = idx["files"].get(crate)
    if not kinds:
        raise FactError(f"no facts for crate {crate}")
    if kind is None:
        kind = EXPECTED.get(crate) or sorted(kinds)[0]
    with open(os.path.join(out, kinds[kind])) as fh:
        d = json.load(fh)
    if d.get("nonce") != idx["nonce"]:
        raise FactError(f"fact file of {crate} carries a foreign nonce (stale)")
    floor = BODY_FLOORS.get(crate)
    if floor and kind != "test" and d["n_bodies"] < floor:
        raise FactError(f"crate {crate}: only {d['n_bodies']} bodies dumped, floor {floor}")
    return d


if __name__ == "__main__":
    t = "--tests" in sys.argv
    o, i = build(tests=t, verbose=True)
    print(o)
    print(json.dumps(i, indent=1))
    if "--setup" in sys.argv:
        # warm the dependency builds of the derive-grid fixture as well (C12)
        sys.path.insert(0, os.path.dirname(os.path.abspath(__file__)))
        import rules_c12
        fx = rules_c12.build_fixture("quick", int(os.environ.get("VERIF_SEED", "0") or 0))
        o2, i2 = build(src=fx)
        print(o2, i2.get("wall_s"))
