"""C10 — no terminal stall or configuration value can hang a client call."""
from mirlite import callee, ty_str, op_place
from client import Fn, FEIG, STREAM, NEXT, is_call, config_field
from expr import Ex, show, walk, strip_ref

EXPLANATION = (
    "Await-type analysis of every async body of the terminal client (the awaited future's type is the generic argument "
    "of IntoFuture::into_future in pre-transform MIR) plus budget and overflow rules. Decided: (a) every await in "
    "zvt_feig_terminal awaits one of: tokio::time::Timeout<_>; the next() of a stream produced by ResetSequence::"
    "into_stream* (whose own awaits are bounded) or of the finite retry stream; another async fn of this crate (checked "
    "recursively by the same rule); the yield of async-stream. A function whose awaits are raw transport futures "
    "(inner::connect: TCP connect, registration, system info) is accepted only if EVERY call of it is the direct "
    "argument of tokio::time::timeout. (b) every retry stream handed to into_stream_with_retry derives from "
    "StreamExt::take(_, n) with a constant n > 0 and every per-packet timeout is a positive constant or config value + "
    "positive constant computed without overflow; (c) no arithmetic on configuration values can overflow (interval "
    "evaluation of every Overflow site whose operands derive from Config). Wall-clock values are not decided; the bound "
    "is 'finite', given tokio's timer.")
RULE = ("await-type whitelist with provenance of the awaited stream; timeout-wrapped call-site rule for raw-await "
        "functions; take(n) and Duration provenance; interval discharge of Overflow asserts.")

INTO_FUTURE = "core::future::into_future::IntoFuture::into_future"
TIMEOUT_FN = "tokio::time::timeout::timeout"
CONNECT = "zvt_feig_terminal::stream::outer::inner::connect"


def client_bodies(crate):
    for b in crate.bodies.values():
        if "::mock_inner::" in b.id or "::config::_::" in b.id or "::test::" in b.id:
            continue
        yield b


def wrapper_param(where, k, default):
    """Name of the k-th parameter of ResetSequence::into_stream_with_retry(input, src, retry, timeout) as the source has it."""
    crate = getattr(where, "crate", where)
    outer = crate.bodies.get(STREAM + "into_stream_with_retry") if crate is not None and hasattr(crate, "bodies") else None
    return (outer.local_name(k) if outer is not None else None) or default


def awaits_of(b):
    out = []
    for bb, t in b.calls():
        if callee(t) == INTO_FUTURE:
            out.append((bb, t, t["f"]["a"][0]))
    return out


def classify_await(b, ex, t, fty):
    """-> (class, detail).  class in timeout | yield | crate-fn | stream-next | raw"""
    s = ty_str(fty)
    if fty.get("k") == "adt" and fty["n"] == "tokio::time::timeout::Timeout":
        return "timeout", s
    if fty.get("k") == "alias" and fty["n"].startswith("async_stream::yielder::Sender"):
        return "yield", s
    if fty.get("k") == "alias" and fty["n"].startswith("zvt_feig_terminal::") and "{opaque#" in fty["n"]:
        return "crate-fn", fty["n"].rsplit("::{opaque", 1)[0]
    if fty.get("k") == "adt" and fty["n"] == "tokio_stream::stream_ext::next::Next":
        e = ex.operand(t["args"][0])
        srcs = [x for x in walk(e) if x[0] == "call" and x[1] == NEXT]
        if srcs:
            streamexpr = srcs[0][2][0]
            if any(x[0] == "call" and x[1].startswith(STREAM) for x in walk(streamexpr)):
                return "stream-next", "ResetSequence stream"
            if any(x[0] in ("path", "var") and x[1] == wrapper_param(b, 3, "retry") for x in walk(streamexpr)):
                return "stream-next", "retry stream (budget checked at the call sites)"
            return "raw", "next() of %s" % show(streamexpr)[:80]
        return "raw", s
    return "raw", s


def run(ctx, chk):
    crate = ctx.crate("zvt_feig_terminal")
    raw_fns = {}
    n_await = 0
    for b in client_bodies(crate):
        aw = awaits_of(b)
        if not aw:
            continue
        ex = Ex(b)
        root = b.raw.get("root", b.id)
        for bb, t, fty in aw:
            n_await += 1
            cls, detail = classify_await(b, ex, t, fty)
            if cls == "timeout":
                # the budget is per await: `timeout(d, f)` starts a fresh budget at every call; `timeout_at(deadline, f)` does
                # only if the deadline is computed in the same iteration as the await.  A deadline fixed before a reply
                # loop bounds the whole exchange instead of each packet - a slow but live exchange is then cut off and,
                # in the retry wrapper, its command is issued again.
                e = ex.operand(t["args"][0])
                at = [x for x in walk(e) if x[0] == "call" and x[1] == "tokio::time::timeout::timeout_at"]
                if at:
                    loops = [blks for h, blks in b.natural_loops().items() if bb in blks and
                             not any(b.blocks[i]["term"]["t"] == "yield" and len(blks) < 12 for i in blks)]
                    # (await poll loops are loops too: take those that contain a `next()` / transport call, i.e. real reply loops)
                    loops = [blks for blks in loops if any(b.blocks[i]["term"]["t"] == "call" and
                                                           callee(b.blocks[i]["term"]).endswith(("StreamExt::next", "::read_packet", "::into_stream"))
                                                           for i in blks)]
                    if loops:
                        inner = min(loops, key=len)
                        dl = strip_ref(at[0][2][0])
                        def_in_loop = False
                        for x in walk(dl):
                            if x[0] == "call" and len(x) > 3 and isinstance(x[3], int) and x[3] in inner:
                                def_in_loop = True
                        chk.require(def_in_loop, "C10-a/per-await-budget", "%s bb%d" % (root.rsplit("::", 2)[-1] if "::" in root else root, bb),
                                    "the await inside a reply loop is bounded by a deadline computed outside the loop (%s): the budget "
                                    "covers the whole exchange, not each packet" % show(dl)[:80], "timeout(d, ..) per await", t.get("sp"))
            if cls == "raw":
                raw_fns.setdefault(root, []).append((bb, detail, t.get("sp"), b))
            else:
                chk.ok("C10-a/await-bounded", "%s bb%d" % (root.rsplit("::", 2)[-1] if "::" in root else root, bb),
                       "%s: %s" % (cls, detail[:90]), t.get("sp"))
    # raw awaits: accepted iff every call of the enclosing fn is the direct argument of timeout()
    for root, lst in sorted(raw_fns.items()):
        callers = []
        wrapped_all = True
        for b in client_bodies(crate):
            ex = None
            for bb, t in b.calls():
                if callee(t) == root:
                    ex = ex or Ex(b)
                    # is the result consumed (only) by tokio::time::timeout?
                    dest = t["dest"]["l"]
                    users = [(b2, t2) for b2, t2 in b.calls() if any(
                        (op_place(a) or {}).get("l") == dest and not (op_place(a) or {}).get("p") for a in t2["args"])]
                    ok = len(users) == 1 and callee(users[0][1]) == TIMEOUT_FN
                    callers.append((b.raw.get("root", b.id), t.get("sp"), ok))
                    wrapped_all = wrapped_all and ok
        for bb, detail, sp, b in lst:
            chk.require(bool(callers) and wrapped_all, "C10-a/await-bounded", "%s bb%d" % (root.rsplit("::", 1)[-1], bb),
                        "unbounded await of %s in %s, and the function is not wrapped in a timeout at every call site (%s): "
                        "a silent terminal hangs the call" % (detail, root, [(c[0].rsplit("::", 1)[-1], c[2]) for c in callers]),
                        "raw await, but every caller wraps %s in tokio::time::timeout" % root.rsplit("::", 1)[-1], sp,
                        key="C10-a/await-bounded|%s|%s" % (root, detail))
    chk.floor("await points classified", n_await, 20)
    budgets(chk, crate)
    overflow(chk, crate)
    # "returns a result or an error": a reconnect that timed out and is not reported leaves the wrapper with an empty
    # connection slot - the exchange is then started on `None` and the call ends in a panic instead (C09-b product rule)
    import rules_c09
    from report import Sub
    if not isinstance(chk, Sub):
        sub9 = Sub(chk, "C10-c", lambda r: r == "C09-b/stream-on-live-connection")
        rules_c09.retry(sub9, crate)
        chk.floor("connection-slot obligations of the retry wrapper (shared with C09-b)", sub9.count, 1)


def const_body_expr(crate, name):
    b = crate.bodies.get(name)
    if b is None:
        return None
    ex = Ex(b)
    for d in ex.tr.defs.get(0, []):
        if d[2] == "call":
            return ("call", callee(d[3]), tuple(ex.operand(a) for a in d[3]["args"]), d[0])
        if d[2] == "assign":
            return ex.rvalue(d[3]["rv"])
    return None


def duration_positive(crate, e, ex=None):
    """Is the Duration expression provably > 0 ?  returns (bool, description)"""
    e = strip_ref(e)
    if e[0] == "const" and isinstance(e[1], str) and e[1].startswith("const zvt_feig_terminal::") and \
            e[1] != "const zvt_feig_terminal::stream::TIMEOUT":
        # a named constant (`const RETRY_PAUSE: Duration = Duration::from_secs(2)`): judged by its body
        body = const_body_expr(crate, e[1][len("const "):])
        if body is not None and body != e:
            ok, why = duration_positive(crate, body, ex)
            return ok, "%s = %s" % (e[1].rsplit("::", 1)[-1], why)
    if e == ("const", "const zvt_feig_terminal::stream::TIMEOUT"):
        body = const_body_expr(crate, "zvt_feig_terminal::stream::TIMEOUT")
        if body and body[0] == "call" and body[1].startswith("core::time::Duration::from_") and body[2] and \
                body[2][0][0] == "const" and isinstance(body[2][0][1], int) and body[2][0][1] > 0:
            return True, "TIMEOUT = %s(%d)" % (body[1].rsplit("::", 1)[-1], body[2][0][1])
        return False, "TIMEOUT constant is %s" % (show(body) if body else None)
    if e[0] == "call" and e[1].startswith("core::time::Duration::from_"):
        lo_hi = interval(e[2][0])
        if lo_hi and lo_hi[0] > 0:
            return True, "%s(%s) in [%d, %d]" % (e[1].rsplit("::", 1)[-1], show(e[2][0])[:60], lo_hi[0], lo_hi[1])
        return False, "%s not provably positive" % show(e)[:80]
    if e[0] in ("path", "var") and e[1] == wrapper_param(crate, 4, "timeout"):
        return True, "caller-supplied timeout parameter (checked at its call sites)"
    return False, show(e)[:80]


TY_MAX = {"u8": 2**8 - 1, "u16": 2**16 - 1, "u32": 2**32 - 1, "u64": 2**64 - 1, "usize": 2**64 - 1}
CONFIG_TY = {("feig_config", "read_card_timeout"): "u8", ("feig_config", "currency"): "usize",
             ("feig_config", "pre_authorization_amount"): "usize", ("feig_config", "password"): "usize",
             ("transactions_max_num",): "usize"}


def interval(e):
    """Conservative integer interval of an expression tree (None = unknown)."""
    e = strip_ref(e)
    k = e[0]
    if k == "const" and isinstance(e[1], int):
        return (e[1], e[1])
    if k == "cast":
        inner = interval(e[1])
        to = e[2]
        frm = e[4] if len(e) > 4 else None
        rng = None
        if frm in TY_MAX:
            rng = (0, TY_MAX[frm])
        if inner and rng:
            rng = (max(inner[0], rng[0]), min(inner[1], rng[1]))
        elif inner:
            rng = inner
        if rng and to in TY_MAX and rng[1] <= TY_MAX[to]:
            return rng
        if to in TY_MAX:
            return (0, TY_MAX[to])
        return None
    if k == "bin":
        a, b = interval(e[2]), interval(e[3])
        op = e[1].replace("WithOverflow", "")
        if a and b:
            if op == "Add":
                return (a[0] + b[0], a[1] + b[1])
            if op == "Mul":
                return (a[0] * b[0], a[1] * b[1])
            if op == "Sub":
                return (a[0] - b[1], a[1] - b[0])
        if op == "Rem" and b and b[0] > 0:
            return (0, b[1] - 1)
        if op == "Div" and a and b and b[0] > 0:
            return (a[0] // b[1], a[1] // b[0])
        if op == "BitAnd" and b:
            return (0, b[1])
        if op == "Shr" and a and b and b[0] == b[1]:
            return (a[0] >> b[0], a[1] >> b[0])
        return None
    if k == "proj" and e[2] == ("0",) and e[1][0] == "bin":
        return interval(e[1])
    if k == "proj":
        for flds, ty in CONFIG_TY.items():
            if tuple(e[2][-len(flds):]) == flds and any(x[0] == "call" and x[1].endswith("TcpStream::config") for x in walk(e)):
                return (0, TY_MAX[ty])
    if k == "call" and (e[1].endswith("::len") or e[1].endswith("String::len")):
        return (0, 2**63 - 1)
    return None


RETRY_CONSTRUCTORS = ("futures_util::stream::repeat::repeat", "StreamExt::throttle", "StreamExt::take", "Duration::from_secs",
                      "Duration::from_millis", "Duration::from_secs_f32", "Duration::from_secs_f64", "Duration::new",
                      "futures_util::stream::iter::iter", "futures_util::stream::once::once", "IntervalStream::new",
                      "tokio::time::interval::interval", "StreamExt::fuse", "core::iter::traits::collect::IntoIterator::into_iter",
                      "core::convert::From::from", "core::convert::Into::into")


def budgets(chk, crate):
    n = 0
    for b in client_bodies(crate):
        ex = None
        for bb, t in b.calls():
            n_ = callee(t)
            if n_ == STREAM + "into_stream_with_retry":
                ex = ex or Ex(b)
                n += 1
                where = b.raw.get("root", b.id).rsplit("::", 1)[-1]
                retry = ex.operand(t["args"][2])
                takes = [x for x in walk(retry) if x[0] == "call" and x[1] == "tokio_stream::stream_ext::StreamExt::take"]
                good = bool(takes) and strip_ref(retry)[0] == "call" and strip_ref(retry)[1].endswith("StreamExt::take") and \
                    takes[0][2][1][0] == "const" and isinstance(takes[0][2][1][1], int) and takes[0][2][1][1] > 0
                chk.require(good, "C10-b/finite-retries", where,
                            "the retry stream is %s: not bounded by take(n) with a positive constant" % show(retry)[:120],
                            "take(%s)" % (takes[0][2][1][1] if takes else "?"), t.get("sp"))
                # ... and the pause between two attempts is a constant: the stream is assembled from the known constructors
                # (repeat / throttle(const) / take(const) ...).  A computed pause (a back-off series, a sleep per item) is
                # not bounded by this rule and is reported - `min` and `max` of a cap differ by one word
                unknown = []
                for x in walk(retry):
                    if x[0] == "call" and not str(x[1]).endswith(RETRY_CONSTRUCTORS):
                        unknown.append(str(x[1]).rsplit("::", 2)[-2:] and "::".join(str(x[1]).rsplit("::", 2)[-2:]))
                    if x[0] == "call" and str(x[1]).endswith("StreamExt::throttle"):
                        d_ok, d_why = duration_positive(crate, x[2][1])
                        if not d_ok:
                            unknown.append("throttle(%s)" % d_why[:40])
                    if x[0] == "agg" and "closure" in str(x[1]):
                        unknown.append("closure")
                chk.require(not unknown, "C10-b/bounded-pause", where,
                            "the retry stream is built with %s: the pause between attempts is computed, so 20 attempts are not "
                            "bounded by 20 constant pauses" % sorted(set(unknown))[:5], "repeat(()).throttle(const).take(n)", t.get("sp"))
                ok, why = duration_positive(crate, ex.operand(t["args"][3]))
                chk.require(ok, "C10-b/timeout-positive", where, "per-packet timeout may be zero or is unknown: " + why, why, t.get("sp"))
            if n_ == TIMEOUT_FN:
                ex = ex or Ex(b)
                where = b.raw.get("root", b.id).rsplit("::", 1)[-1]
                ok, why = duration_positive(crate, ex.operand(t["args"][0]))
                chk.require(ok, "C10-b/timeout-positive", where + " timeout()", "timeout duration: " + why, why, t.get("sp"))
    chk.floor("retry budgets checked", n, 2)
    loop_budget(chk, crate)


def loop_budget(chk, crate):
    """C10-b/every-cycle-consumes-budget: the caller's finite retry stream bounds a call only if the wrapper
    cannot go round without asking it.  In ResetSequence::into_stream_with_retry every real loop (await poll
    loops excluded) must poll a stream on every cycle - the retry stream, or the command's reply stream
    (finite by the protocol rules of C05 and polled under the per-packet timeout)."""
    import contracts
    bid = STREAM + "into_stream_with_retry::{closure#0}"
    b = crate.bodies.get(bid)
    if not chk.require(b is not None, "C10-b/every-cycle-consumes-budget", "into_stream_with_retry", "wrapper coroutine not found", "",
                       nontrivial=False):
        return
    polls = {bb for bb, t in b.calls() if callee(t) == "tokio_stream::stream_ext::StreamExt::next"}
    yields = {i for i in range(b.n) if b.blocks[i]["term"]["t"] == "yield"}
    n = 0
    for hdr, blocks in sorted(b.natural_loops().items()):
        if hdr not in b.reachable(0):
            continue
        if contracts.cycles_broken_by(b, hdr, blocks, yields):
            continue                    # an await poll loop: every cycle suspends (bounded by rule a)
        n += 1
        ok = contracts.cycles_broken_by(b, hdr, blocks, polls)
        chk.require(ok, "C10-b/every-cycle-consumes-budget", "into_stream_with_retry loop@bb%d" % hdr,
                    "the wrapper can go round this loop without polling the retry stream (or the reply stream): the caller's "
                    "finite retry budget does not bound the call - e.g. a reconnect that times out is repeated for ever",
                    "every cycle polls a stream", b.blocks[hdr]["term"].get("sp"))
    chk.floor("wrapper loops checked against the retry budget", n, 2)


def arith_mentions_config(e, depth=0):
    """Does the *number* e derive from a configuration field through arithmetic, casts, copies and lossless
    conversions only?  (A string that was received over a stream which was merely *created* with a configured
    timeout is not a configuration value.)"""
    if depth > 30:
        return False
    k = e[0]
    if k == "call":
        if e[1].endswith("TcpStream::config"):
            return True
        if e[1] in ("core::convert::From::from", "core::convert::Into::into", "core::clone::Clone::clone") and e[2]:
            return arith_mentions_config(e[2][0], depth + 1)
        return False
    if k in ("path", "proj"):
        flds = e[2]
        if "feig_config" in flds:
            return True
        if k == "proj":
            return arith_mentions_config(e[1], depth + 1)
        return False
    if k == "bin":
        return arith_mentions_config(e[2], depth + 1) or arith_mentions_config(e[3], depth + 1)
    if k in ("un", "cast", "ref"):
        return arith_mentions_config(e[2] if k == "un" else e[1], depth + 1)
    return False


def overflow(chk, crate):
    n = 0
    for b in client_bodies(crate):
        ex = None
        for i in sorted(b.reachable(0)):
            t = b.blocks[i]["term"]
            if t["t"] != "assert" or t["kind"] != "Overflow":
                continue
            x = t.get("x", "")
            ex = ex or Ex(b)
            a, c = ex.operand(t["ops"][0]), ex.operand(t["ops"][1])
            from_cfg = arith_mentions_config(a) or arith_mentions_config(c)
            where = b.raw.get("root", b.id).rsplit("::", 1)[-1]
            ty = ty_str(t.get("ty"))
            ia, ic = interval(a), interval(c)
            op = t["op"]
            res = None
            if ia and ic:
                if op == "Add":
                    res = (ia[0] + ic[0], ia[1] + ic[1])
                elif op == "Mul":
                    res = (ia[0] * ic[0], ia[1] * ic[1])
                elif op == "Sub":
                    res = (ia[0] - ic[1], ia[1] - ic[0])
            safe = res is not None and ty in TY_MAX and res[0] >= 0 and res[1] <= TY_MAX[ty]
            if from_cfg:
                n += 1
                chk.require(safe, "C10-c/config-overflow", "%s: %s %s %s" % (where, show(a)[:60], op, show(c)[:20]),
                            "arithmetic on a configuration value can overflow %s (operands in %s, %s): panic with overflow checks, "
                            "wrapped (possibly zero) value without" % (ty, ia, ic), "result in %s fits %s" % (res, ty), t.get("sp"))
    chk.floor("configuration arithmetic sites", n, 1)
