"""Site discharge: a small sound prover for panic / overflow / truncation / allocation sites.

Ingredients
  * VEx: expression reconstruction with SSA-like *versions* for variables that have several
    definitions (or are mutated through `&mut`), so that a fact established on a guard edge is
    only used for the same value at the site;
  * facts: conditions of the switch edges that edge-dominate the site, translated into linear
    inequalities over atoms (lengths, integers) plus std summaries (first/get Some => length,
    is_empty, slicing lengths, try_into, Vec length after from_elem/resize);
  * contracts K1-K3 (remainder of a decoder is a suffix of its input), assumed at calls and
    verified on every impl (contracts.py);
  * entailment: goal - (sum of at most two facts) has a non-negative lower bound by interval
    evaluation of the atoms (a classical, incomplete but sound check; no solver).
Anything the prover does not understand leaves the site *undischarged* (fail closed).
"""
from mirlite import callee, callee_res, ty_str, op_place, widening_conversion
from flow import Tracer, NPlace, proj_key
from expr import simplify, show, walk, strip_ref

U = {"u8": 2**8 - 1, "u16": 2**16 - 1, "u32": 2**32 - 1, "u64": 2**64 - 1, "usize": 2**64 - 1, "u128": 2**128 - 1}
S = {"i8": 7, "i16": 15, "i32": 31, "i64": 63, "isize": 63, "i128": 127}
SIZE_OF = {"u8": 1, "u16": 2, "u32": 4, "u64": 8, "usize": 8, "u128": 16, "i8": 1, "i16": 2, "i32": 4, "i64": 8}
LEN_MAX = 2**63 - 1
LEN_CALLS = ("core::slice::<impl [T]>::len", "alloc::vec::Vec::<T, A>::len", "alloc::string::String::len",
             "core::str::<impl str>::len")
INDEX = ("core::ops::index::Index::index", "core::ops::index::IndexMut::index_mut")
SPLIT_AT = ("core::slice::<impl [T]>::split_at", "core::slice::<impl [T]>::split_at_mut")
CONTRACTED = ("zvt_builder::encoding::Encoding::decode", "zvt_builder::length::Length::deserialize",
              "zvt_builder::ZvtSerializerImpl::deserialize_tagged", "zvt_builder::ZvtSerializer::zvt_deserialize")
LEN_PRESERVING_MUT = ("core::ops::index::IndexMut::index_mut", "core::ops::deref::DerefMut::deref_mut",
                      "alloc::vec::Vec::<T, A>::as_mut_slice", "core::slice::<impl [T]>::reverse",
                      "alloc::slice::<impl [T]>::sort_by_key", "core::slice::<impl [T]>::copy_from_slice",
                      "core::slice::<impl [T]>::fill")


def ty_range(ts):
    if ts in U:
        return (0, U[ts])
    if ts in S:
        return (-(2 ** S[ts]), 2 ** S[ts] - 1)
    if ts == "bool":
        return (0, 1)
    return None


class VEx:
    """Versioned expression builder for one body."""

    def __init__(self, body, tracer=None):
        self.b = body
        self.tr = tracer or Tracer(body)
        self.upvars = {}
        for u in body.raw.get("upvars", []):
            p = u["p"]
            if p["l"] == 1:
                fs = [e["f"] for e in p["p"] if isinstance(e, dict) and "f" in e]
                if len(fs) == 1:
                    self.upvars[fs[0]] = (u["name"], ty_str(p["p"][[i for i, e in enumerate(p["p"]) if isinstance(e, dict) and "f" in e][0]].get("ty")))
        self.argc = body.raw["arg_count"]
        self._defblocks = {}
        self._reach = {}
        self._coreach = {}
        self.mw = self.tr.mut_writers()
        self.upvar_facts = {}      # name -> (lo, hi) supplied by the parent body for closures

    # ---- variables and versions
    def def_blocks(self, l):
        if l not in self._defblocks:
            s = set()
            for d in self.tr.defs.get(l, []):
                s.add(d[0])
            for bb, t in self.mw.get(l, []):
                s.add(bb)
            self._defblocks[l] = s
        return self._defblocks[l]

    def is_var(self, l):
        n = len(self.tr.defs.get(l, []))
        is_arg = 1 <= l <= self.argc
        if l in self.mw:
            return True
        if is_arg:
            return n >= 1
        return n >= 2

    def reach(self, bb):
        if bb not in self._reach:
            r = set()
            for s in self.b.succ[bb]:
                r |= self.b.reachable(s)
            self._reach[bb] = r
        return self._reach[bb]

    def _idom(self):
        if getattr(self, "_idom_cache", None) is None:
            dom = self.b.dom
            idom = {}
            for x, ds in dom.items():
                best = None
                for d in ds:
                    if d == x:
                        continue
                    if best is None or len(dom[d]) > len(dom[best]):
                        best = d
                idom[x] = best
            self._idom_cache = idom
        return self._idom_cache

    def _df(self):
        """dominance frontiers (Cooper-Harvey-Kennedy)."""
        if getattr(self, "_df_cache", None) is None:
            idom = self._idom()
            df = {x: set() for x in self.b.dom}
            for x in self.b.dom:
                preds = [p for p in self.b.pred[x] if p in self.b.dom]
                if len(preds) >= 2:
                    for p in preds:
                        r = p
                        while r is not None and r != idom[x]:
                            df[r].add(x)
                            r = idom[r]
            self._df_cache = df
        return self._df_cache

    def phi_blocks(self, l):
        if not hasattr(self, "_phi"):
            self._phi = {}
        if l not in self._phi:
            df = self._df()
            defs = set(self.def_blocks(l)) & set(self.b.dom)
            if 1 <= l <= self.argc:
                defs.add(0)
            work = list(defs)
            phis = set()
            while work:
                x = work.pop()
                for y in df.get(x, ()):
                    if y not in phis:
                        phis.add(y)
                        work.append(y)
            self._phi[l] = phis
        return self._phi[l]

    def version(self, l, at, incoming=False):
        """SSA-style name of the value of local l seen by a read in block `at`:
        ('d', D)   defined in block D (D dominates the read, no other definition point between)
        ('phi', J) merge at the start of block J
        ('entry',) the argument value
        ('mid', at) ambiguous (read and statement-definition in the same block).
        `incoming=True` asks for the value at the start of `at`."""
        dbs = set(self.def_blocks(l))
        phis = self.phi_blocks(l)
        is_arg = 1 <= l <= self.argc
        if at in phis and (incoming or at not in dbs or not any(d[0] == at and d[2] == "assign" for d in self.tr.defs.get(l, []))):
            if at not in dbs or incoming or not any(d[0] == at and d[2] == "assign" for d in self.tr.defs.get(l, [])):
                # reads in the block see the merged value unless a statement redefines l first
                pass
        if at in dbs and not incoming:
            stmt_def = any(d[0] == at and d[2] == "assign" for d in self.tr.defs.get(l, []))
            if stmt_def:
                return ("mid", at)
        # walk up the dominator tree from `at`
        idom = self._idom()
        x = at
        first = True
        while x is not None:
            if x in phis:
                if not (first and False):
                    return ("phi", x)
            if x in dbs and not first:
                return ("d", x)
            first = False
            x = idom.get(x)
        if is_arg:
            return ("entry",)
        return ("phi", -1)

    # ---- expression building
    def root_name(self, l):
        return self.b.local_name(l) or "_%d" % l

    def fields_of(self, proj):
        out = []
        for e in proj:
            if e == "deref":
                continue
            if isinstance(e, tuple):
                if e[0] == "f":
                    out.append(str(e[2]) if e[2] is not None else str(e[1]))
                elif e[0] == "dc":
                    out.append("@" + str(e[2] if e[2] is not None else e[1]))
                elif e[0] == "idx":
                    out.append(("idx", e[1]))
                elif e[0] == "cidx":
                    out.append("[%d]" % e[1] if not e[2] else "[-%d]" % e[1])
                elif e[0] == "sub":
                    # Subslice{from, to, from_end}: s[from .. len - to] (from_end) / s[from .. to]
                    out.append(("sub", e[1], e[2], bool(e[3])))
                else:
                    out.append("?")
        return tuple(out)

    def operand(self, o, at, depth=0):
        return simplify(self._through_variant(norm_try(self._operand(o, at, depth))))

    def _operand(self, o, at, depth=0):
        if depth > 40:
            return ("?",)
        if "k" in o:
            k = o["k"]
            if "v" in k:
                return ("const", k["v"])
            if "str" in k:
                return ("const", k["str"])
            if "constparam" in k:
                return ("constparam", k["constparam"])
            if "bytes" in k:
                return ("constbytes", len(k["bytes"]))
            if "uneval" in k:
                return ("const", "const " + k["uneval"])
            if "fn" in k:
                return ("const", "fn " + k["fn"]["n"])
            return ("const", None)
        p = op_place(o)
        if p is None:
            return ("?",)
        return self._place(p["l"], [proj_key(e) for e in p["p"]], at, depth)

    def _place(self, l, proj, at, depth):
        # follow single-definition copies, remembering where the value was read
        guard = 0
        # position of the read inside block `at` when it is a statement we arrived at by following a definition
        # (None: a terminator operand / unknown = after all statements of the block)
        pos = getattr(self, "_read_pos", None)
        idx = pos[1] if pos is not None and pos[0] == at else None
        # where the leading `*` of the place is evaluated (memory is read there, wherever the reference was made)
        deref_at = (at, idx)
        while guard < 64:
            guard += 1
            if l == 1 and self.upvars:
                fs = [e for e in proj if e != "deref"]
                if fs and isinstance(fs[0], tuple) and fs[0][0] == "f" and fs[0][1] in self.upvars:
                    rest = proj[proj.index(fs[0]) + 1:]
                    nm, ty = self.upvars[fs[0][1]]
                    return self._wrap(("upvar", nm, ty), self.fields_of(rest))
            d = None
            if self.is_var(l):
                v = self.version(l, at)
                # SSA: a read that exactly one definition reaches (it dominates the read, no merge in between)
                # *is* that definition - `let form = if c { A(x) } else { B }; match form { A(n) => n, .. }`
                if v[0] == "d" and l not in self.mw and not (1 <= l <= self.argc):
                    ds = [d_ for d_ in self.tr.defs.get(l, []) if d_[0] == v[1]]
                    if len(ds) == 1 and ds[0][2] in ("assign", "call") and v[1] != at:
                        d = ds[0]
                elif v[0] == "mid" and l not in self.mw and idx is not None:
                    # defined by a statement of this very block: the last such statement before the reading one
                    cands = [d_ for d_ in self.tr.defs.get(l, []) if d_[0] == at and d_[2] == "assign" and isinstance(d_[1], int) and
                             d_[1] < idx and not d_[3]["p"]["p"]]
                    if cands:
                        d = max(cands, key=lambda d_: d_[1])
                if d is None and v[0] == "phi" and v[1] >= 0 and l not in self.mw and not (1 <= l <= self.argc) and depth < 30:
                    # a merge of definitions that all denote the same value (copies of one path made by jump threading,
                    # `x = Ok(v)` on several routes through an inlined helper): read through the merge
                    first = next((e_ for e_ in proj if e_ != "deref"), None)
                    want = first if isinstance(first, tuple) and first[0] == "dc" else None
                    same = self._merged_value(l, v[1], depth, want)
                    if same is not None:
                        return self._select(same, proj)
                if d is None:
                    leaf = ("var", self.root_name(l), l, v)
                    return self._wrap(leaf, self.fields_of(proj))
            if d is None:
                d = self.tr.single_def(l)
            if d is None:
                return self._wrap(("path", self.root_name(l), ()), self.fields_of(proj), l)
            if d[2] == "assign":
                rv = d[3]["rv"]
                r = rv["r"]
                didx = d[1] if isinstance(d[1], int) else None
                if r == "use" and op_place(rv["o"]) is not None:
                    p2 = op_place(rv["o"])
                    if p2["p"] or not (proj and proj[0] == "deref"):
                        deref_at = (d[0], didx)
                    l, proj, at, idx = p2["l"], [proj_key(e) for e in p2["p"]] + proj, d[0], didx
                    continue
                if r == "cfd":
                    p2 = rv["p"]
                    l, proj, at, idx = p2["l"], [proj_key(e) for e in p2["p"]] + proj, d[0], didx
                    continue
                if r == "ref" and proj and proj[0] == "deref":
                    # `*r` with r = &v: the referent is read where `*r` is evaluated, not where the reference was
                    # taken (a `&mut v` handed to an inlined helper sees the writes made through it since)
                    p2 = rv["p"]
                    l, proj = p2["l"], [proj_key(e) for e in p2["p"]] + proj[1:]
                    at, idx = deref_at
                    continue
                saved = getattr(self, "_read_pos", None)
                self._read_pos = (d[0], didx) if didx is not None else None
                try:
                    base = self._rvalue(rv, d[0], depth + 1)
                finally:
                    self._read_pos = saved
                return self._select(base, proj)
            if d[2] == "call":
                t = d[3]
                saved = getattr(self, "_read_pos", None)
                self._read_pos = None                   # call operands are read after all statements of the block
                try:
                    base = self._call(t, d[0], depth + 1)
                finally:
                    self._read_pos = saved
                return self._select(base, proj)
            return ("?",)
        return ("?",)

    def _reaching(self, l, j, seen):
        """definitions of l that reach the start of block j, or None when the argument / an unknown value does"""
        if j in seen:
            return []
        seen.add(j)
        out = []
        for p in self.b.pred[j]:
            if p not in self.b.dom:
                continue
            here = [d_ for d_ in self.tr.defs.get(l, []) if d_[0] == p]
            if here:
                if any(d_[2] not in ("assign", "call") or (d_[3]["p"]["p"] if d_[2] == "assign" else d_[3]["dest"]["p"]) for d_ in here):
                    return None
                term = [d_ for d_ in here if d_[2] == "call"]
                out.append(term[0] if term else max(here, key=lambda d_: d_[1] if isinstance(d_[1], int) else -1))
                continue
            v = self.version(l, p)
            if v[0] == "d":
                ds = [d_ for d_ in self.tr.defs.get(l, []) if d_[0] == v[1]]
                if len(ds) != 1 or ds[0][2] not in ("assign", "call"):
                    return None
                out.append(ds[0])
            elif v[0] == "phi" and v[1] >= 0:
                sub = self._reaching(l, v[1], seen)
                if sub is None:
                    return None
                out.extend(sub)
            else:
                return None
        return out

    def _merged_value(self, l, j, depth, want=None):
        """`want` = the variant the value is read through (`(x as Ok).0`): definitions that build another variant - or
        the Err / None that a failing `?` rebuilds - cannot be the one read and are left out."""
        memo = self.__dict__.setdefault("_merge_memo", {})
        key = (l, j, want[2] if want else None)
        if key in memo:
            return memo[key]
        memo[key] = None                        # (guards recursion through loops)
        ds = self._reaching(l, j, set())
        val = None
        if ds and want is not None:
            keep = []
            for d_ in ds:
                if d_[2] == "assign" and d_[3]["rv"]["r"] == "agg" and d_[3]["rv"].get("kind") == "adt" and \
                        d_[3]["rv"].get("vname") != want[2]:
                    continue
                if d_[2] == "call" and str((d_[3].get("f") or {}).get("n")).endswith("FromResidual::from_residual") and \
                        want[2] in ("Ok", "Some"):
                    continue
                keep.append(d_)
            ds = keep
        if ds and len(ds) <= 24:
            uniq = {id(d_): d_ for d_ in ds}.values()
            exprs = []
            for d_ in uniq:
                saved = getattr(self, "_read_pos", None)
                try:
                    if d_[2] == "assign":
                        self._read_pos = (d_[0], d_[1]) if isinstance(d_[1], int) else None
                        exprs.append(self._rvalue(d_[3]["rv"], d_[0], depth + 1))
                    else:
                        self._read_pos = None
                        exprs.append(self._call(d_[3], d_[0], depth + 1))
                finally:
                    self._read_pos = saved
            k0 = _modulo_pure(exprs[0])
            if not _has_unknown(exprs[0]) and all(_modulo_pure(e_) == k0 for e_ in exprs[1:]):
                val = exprs[0]
            elif want is not None and 2 <= len(exprs) <= 6 and not any(_has_unknown(e_) for e_ in exprs) and \
                    all(e_[0] == "agg" and str(e_[1]).rsplit("::", 1)[-1] == want[2] for e_ in exprs):
                # several `Ok(..)` returns of a helper with different payloads: the value is one of them
                val = ("agg", "one-of", tuple(exprs), ())
        memo[key] = val
        return val

    def _wrap(self, leaf, fields, l=None):
        if not fields:
            return leaf
        if leaf[0] == "path":
            return ("path", leaf[1], tuple(leaf[2]) + tuple(fields))
        return ("proj", leaf, tuple(fields))

    def _select(self, base, proj):
        fields = self.fields_of(proj)
        if not fields:
            return base
        if base[0] == "agg":
            fs = [e for e in proj if e != "deref" and not (isinstance(e, tuple) and e[0] == "dc")]
            if fs and isinstance(fs[0], tuple) and fs[0][0] == "f" and fs[0][1] < len(base[2]):
                inner = base[2][fs[0][1]]
                # what is left of the projection after this field (a nested aggregate is selected from in turn:
                # `(x as Some).0` of `Some(TwoBytes(n))`, then `(.. as TwoBytes).0`)
                k = list(proj).index(fs[0])
                remaining = list(proj)[k + 1:]
                if remaining and inner[0] in ("agg", "ref"):
                    return self._select(inner, remaining)
                rest = self.fields_of(fs[1:])
                return self._wrap(inner, rest) if rest else inner
        if base[0] == "ref" and proj and proj[0] == "deref":
            rest = self.fields_of(proj[1:])
            return self._wrap(base[1], rest) if rest else base[1]
        if base[0] == "path":
            return ("path", base[1], tuple(base[2]) + fields)
        if base[0] == "proj":
            return ("proj", base[1], tuple(base[2]) + fields)
        return ("proj", base, fields)

    def _call(self, t, bb, depth):
        n = callee(t) or "?"
        if n == "core::mem::size_of":
            ts = ty_str(t["f"]["a"][0])
            if ts in SIZE_OF:
                return ("const", SIZE_OF[ts])
        w = widening_conversion(t)
        if w:
            return ("cast", self._operand(t["args"][0], bb, depth), w[0], "IntToInt", w[1])
        args = tuple(self._operand(a, bb, depth) for a in t["args"])
        ga = tuple(ty_str(x) for x in (t.get("f") or {}).get("a", []))
        return ("call", n, args, bb, ga)

    def _rvalue(self, rv, bb, depth):
        r = rv["r"]
        if r == "use":
            return self._operand(rv["o"], bb, depth)
        if r == "ref":
            p = rv["p"]
            return ("ref", self._place(p["l"], [proj_key(e) for e in p["p"]], bb, depth))
        if r == "cfd":
            p = rv["p"]
            return self._place(p["l"], [proj_key(e) for e in p["p"]], bb, depth)
        if r == "bin":
            return ("bin", rv["op"], self._operand(rv["a"], bb, depth), self._operand(rv["b"], bb, depth), ty_str(rv.get("ty")))
        if r == "un":
            return ("un", rv["op"], self._operand(rv["a"], bb, depth))
        if r == "cast":
            return ("cast", self._operand(rv["o"], bb, depth), ty_str(rv["ty"]), rv["kind"], ty_str(rv.get("from")))
        if r == "discr":
            p = rv["p"]
            return ("discr", self._place(p["l"], [proj_key(e) for e in p["p"]], bb, depth), ty_str(rv.get("of")))
        if r == "agg":
            name = rv.get("n", rv["kind"])
            if rv["kind"] == "adt":
                name = rv["n"] + "::" + rv["vname"]
            return ("agg", name, tuple(self._operand(o, bb, depth) for o in rv["ops"]), tuple(rv.get("fields", [])))
        if r == "repeat":
            return ("repeat", self._operand(rv["o"], bb, depth), rv.get("n"))
        return ("?",)

    def rvalue(self, rv, bb):
        return simplify(self._through_variant(norm_try(self._rvalue(rv, bb, 0))))

    def _through_variant(self, e, depth=0):
        """`x.@Ok.0` where x is a merge: only the definitions of x that build `Ok` can be read (see _merged_value) - this is
        how the value an inlined helper returns as `Ok(v)` reaches the `?` of its caller."""
        if not isinstance(e, tuple) or not e or depth > 30:
            return e
        k = e[0]
        if k == "proj":
            base = e[1]
            f = tuple(e[2])
            if base[0] == "var" and len(base) > 3 and isinstance(base[3], tuple) and base[3][0] == "phi" and base[3][1] >= 0 and \
                    len(f) >= 2 and isinstance(f[0], str) and f[0][:1] == "@" and isinstance(f[1], str) and f[1].isdigit() and \
                    base[2] not in self.mw and not (1 <= base[2] <= self.argc):
                val = self._merged_value(base[2], base[3][1], depth + 1, ("dc", None, f[0][1:]))
                if val is not None:
                    val = unq(("proj", norm_try(val), f))
                    if not (val[0] == "proj" and val[1] == base):
                        return self._through_variant(val, depth + 1)
            return ("proj", self._through_variant(base, depth + 1), e[2]) + tuple(e[3:])
        if k in ("call", "agg"):
            return (k, e[1], tuple(self._through_variant(a, depth + 1) for a in e[2])) + tuple(e[3:])
        if k in ("ref", "discr", "cast"):
            return (k, self._through_variant(e[1], depth + 1)) + tuple(e[2:])
        if k == "bin":
            return (k, e[1], self._through_variant(e[2], depth + 1), self._through_variant(e[3], depth + 1)) + tuple(e[4:])
        if k == "un":
            return (k, e[1], self._through_variant(e[2], depth + 1))
        return e

    def local_ty(self, l):
        return ty_str(self.b.local_ty(l))


_OPTION_COPIES = ("core::option::Option::<&T>::copied", "core::option::Option::<&T>::cloned",
                  "core::option::Option::<&mut T>::copied", "core::option::Option::<&mut T>::cloned")


def norm_try(e):
    """`Try::branch(r).@Continue.0.rest`  ==>  `r.@Ok.0.rest` (the `?` operator)."""
    if not isinstance(e, tuple) or not e:
        return e
    k = e[0]
    if k == "proj":
        inner = norm_try(e[1])
        f = e[2]
        if inner[0] == "call" and inner[1] == "core::ops::try_trait::Try::branch" and f[:2] == ("@Continue", "0"):
            base = inner[2][0]
            rest = ("@Ok", "0") + tuple(f[2:])
            if base[0] == "proj":
                return ("proj", base[1], tuple(base[2]) + rest)
            return ("proj", base, rest)
        if inner[0] == "proj":
            return ("proj", inner[1], tuple(inner[2]) + tuple(f))
        return ("proj", inner, f)
    if k == "call" and e[1] in _OPTION_COPIES and len(e[2]) == 1:
        # `opt.copied()` / `opt.cloned()` of an Option<&T> (T: Copy): the same option - same variant, same payload
        return norm_try(e[2][0])
    if k in ("call",):
        return (k, e[1], tuple(norm_try(a) for a in e[2])) + tuple(e[3:])
    if k == "agg":
        return (k, e[1], tuple(norm_try(a) for a in e[2])) + tuple(e[3:])
    if k in ("ref",):
        return (k, norm_try(e[1]))
    if k == "discr":
        return (k, norm_try(e[1])) + tuple(e[2:])
    if k == "bin":
        return (k, e[1], norm_try(e[2]), norm_try(e[3])) + tuple(e[4:])
    if k == "un":
        return (k, e[1], norm_try(e[2]))
    if k == "cast":
        return (k, norm_try(e[1])) + tuple(e[2:])
    return e


# ------------------------------------------------------------------ linear forms

class Lin:
    __slots__ = ("c", "t")

    def __init__(self, c=0, t=None):
        self.c = c
        self.t = dict(t or {})

    def add(self, o, k=1):
        r = Lin(self.c + k * o.c, self.t)
        for a, v in o.t.items():
            r.t[a] = r.t.get(a, 0) + k * v
            if r.t[a] == 0:
                del r.t[a]
        return r

    def scale(self, k):
        return Lin(self.c * k, {a: v * k for a, v in self.t.items() if v * k != 0})

    def __repr__(self):
        return "%d + %s" % (self.c, " + ".join("%d*%s" % (v, show_atom(a)) for a, v in self.t.items()))


def show_atom(a):
    try:
        return show(a)[:60]
    except Exception:  # noqa
        return str(a)[:60]


class Prover:
    def __init__(self, body, crates=None):
        self.b = body
        self.tr = Tracer(body)
        self.vx = VEx(body, self.tr)
        self.crates = crates or []
        self._facts = {}
        self.extra_facts = []

    # ---- vec length versions
    def vec_len(self, e):
        """Known length (Lin) of a Vec-valued variable version, following from_elem / resize /
        length-preserving mutable borrows."""
        e = strip_ref(e)
        if e[0] != "var":
            if e[0] == "call" and e[1] == "alloc::vec::from_elem":
                return self.lin(e[2][1])
            return None
        name, l, v = e[1], e[2], e[3]
        seen = 0
        while seen < 16:
            seen += 1
            if v[0] != "d":
                return None
            D = v[1]
            t = self.b.blocks[D]["term"]
            if t["t"] != "call":
                return None
            n = callee(t)
            if t["dest"]["l"] == l and not t["dest"]["p"]:
                if n == "alloc::vec::from_elem":
                    return self.lin(self.vx.operand(t["args"][1], D))
                if n in ("alloc::vec::Vec::<T>::new",):
                    return Lin(0)
                return None
            # a call that mutably borrows l
            if n == "alloc::vec::Vec::<T, A>::resize":
                return self.lin(self.vx.operand(t["args"][1], D))
            if n in LEN_PRESERVING_MUT:
                # the version before this call: re-evaluate at D as a read *before* the call
                prev = self._version_before(l, D)
                if prev is None:
                    return None
                v = prev
                continue
            return None
        return None

    def _version_before(self, l, D):
        """Version of l seen by the arguments of D's own terminator."""
        v = self.vx.version(l, D, incoming=False)
        if v[0] == "d":
            return v
        return None

    # ---- linearisation
    def lin(self, e):
        e = unq(e)
        k = e[0]
        if k == "const" and isinstance(e[1], int):
            return Lin(e[1])
        if k == "bin":
            op = e[1].replace("WithOverflow", "")
            if op in ("Add", "Sub"):
                a, b = self.lin(e[2]), self.lin(e[3])
                return a.add(b, 1 if op == "Add" else -1)
            if op == "Mul":
                a, b = self.lin(e[2]), self.lin(e[3])
                if not a.t:
                    return b.scale(a.c)
                if not b.t:
                    return a.scale(b.c)
        if k == "proj" and e[2] == ("0",) and e[1][0] == "bin" and e[1][1].endswith("WithOverflow"):
            return self.lin(("bin", e[1][1].replace("WithOverflow", "")) + tuple(e[1][2:]))
        if k == "cast" and e[3] == "IntToInt":
            frm, to = e[4], e[2]
            if frm in U and to in U and U[to] >= U[frm]:
                return self.lin(e[1])
            r = self.interval(e[1])
            tr_ = ty_range(to)
            if r and tr_ and tr_[0] <= r[0] and r[1] <= tr_[1]:
                return self.lin(e[1])
        if k == "call" and e[1] in LEN_CALLS and len(e[2]) == 1:
            x = strip_ref(e[2][0])
            # deref wrappers
            while x[0] == "call" and x[1] in ("core::ops::deref::Deref::deref", "core::ops::deref::DerefMut::deref_mut") :
                x = strip_ref(x[2][0])
            # slicing lemma
            if x[0] == "call" and x[1] in INDEX and len(x[2]) == 2:
                base, rng = x[2]
                rng = strip_ref(rng)
                bl = self.lin(("call", LEN_CALLS[0], (base,), None, ()))
                if rng[0] == "agg":
                    if rng[1].endswith("RangeTo::RangeTo"):
                        return self.lin(rng[2][0])
                    if rng[1].endswith("RangeFrom::RangeFrom"):
                        return bl.add(self.lin(rng[2][0]), -1)
                    if rng[1].endswith("Range::Range"):
                        return self.lin(rng[2][1]).add(self.lin(rng[2][0]), -1)
            # s.get(range) payload has the length of the range
            if x[0] == "proj" and x[1][0] == "call" and x[1][1].endswith("<impl [T]>::get") and tuple(x[2]) == ("@Some", "0") and \
                    len(x[1][2]) == 2:
                rng = strip_ref(x[1][2][1])
                bl = self.lin(("call", LEN_CALLS[0], (x[1][2][0],), None, ()))
                if rng[0] == "agg":
                    if rng[1].endswith("RangeTo::RangeTo"):
                        return self.lin(rng[2][0])
                    if rng[1].endswith("RangeFrom::RangeFrom"):
                        return bl.add(self.lin(rng[2][0]), -1)
                    if rng[1].endswith("Range::Range"):
                        return self.lin(rng[2][1]).add(self.lin(rng[2][0]), -1)
            # slice patterns: `[a, b, rest @ ..]` binds rest = s[2..]  (Subslice projection)
            if x[0] in ("path", "proj") and x[2] and isinstance(x[2][-1], tuple) and x[2][-1][0] == "sub":
                _, frm, to, from_end = x[2][-1]
                base = (x[0], x[1], tuple(x[2][:-1])) if len(x) == 3 else (x[0], x[1], tuple(x[2][:-1])) + tuple(x[3:])
                bl = self.lin(("call", LEN_CALLS[0], (base,), None, ()))
                if from_end:
                    return bl.add(Lin(frm + to), -1)
                return Lin(to - frm)
            # split lemmas: s.split_first() = Some((&s[0], &s[1..])), s.split_first_chunk::<N>() = Some((&s[..N], &s[N..]))
            sf = split_first_parts(x)
            if sf is not None:
                base, k, part = sf
                if part == 1:
                    return self.lin(("call", LEN_CALLS[0], (base,), None, ())).add(Lin(k), -1)
                if part == 0 and k is not None:
                    return Lin(k)
            # split lemma: s.split_at(m) = (s[..m], s[m..])
            if x[0] == "proj" and x[1][0] == "call" and x[1][1] in SPLIT_AT and len(x[1][2]) == 2 and x[2] in (("0",), ("1",)):
                base, mid = x[1][2]
                if x[2] == ("0",):
                    return self.lin(mid)
                return self.lin(("call", LEN_CALLS[0], (base,), None, ())).add(self.lin(mid), -1)
            vl = self.vec_len(x)
            if vl is not None:
                return vl
            if x[0] == "constbytes":
                return Lin(x[1])
            if x[0] == "agg" and x[1] == "array":
                return Lin(len(x[2]))
            return Lin(0, {("len", canon(x)): 1})
        if k == "call" and e[1] == "core::cmp::min" and False:
            pass
        return Lin(0, {canon(e): 1})

    # ---- intervals of atoms / expressions
    def interval(self, e):
        k = e[0]
        if k == "agg" and e[1] == "one-of" and e[2]:
            # one of several values (the `Ok(..)` alternatives a helper can return): the union of their intervals
            rs = [self.interval(a) for a in e[2]]
            if any(r is None for r in rs):
                return None
            return (min(r[0] for r in rs), max(r[1] for r in rs))
        if k == "len":
            r = self.vec_len_interval(e[1])
            return r or (0, LEN_MAX)
        if k == "const" and isinstance(e[1], int):
            return (e[1], e[1])
        if k == "constparam":
            return (0, LEN_MAX)
        if k == "var":
            tr_ = ty_range(self.vx.local_ty(e[2]))
            u = self.var_union(e[2])
            if u and tr_:
                return (max(u[0], tr_[0]), min(u[1], tr_[1]))
            return tr_
        if k == "upvar":
            r = self.vx.upvar_facts.get(e[1])
            return r or ty_range(strip_outer_ref(e[2]))
        if k == "path" and not e[2]:
            for l, loc in enumerate(self.b.locals):
                if loc.get("name") == e[1] or ("_%d" % l) == e[1]:
                    # (a `&u8` parameter is used through auto-deref: `d >> 4` on `d: &u8`)
                    return ty_range(ty_str(loc["ty"])) or ty_range(strip_outer_ref(ty_str(loc["ty"])))
            return None
        if k == "cast":
            inner = self.interval(e[1])
            to = ty_range(e[2])
            frm = ty_range(e[4]) if len(e) > 4 else None
            r = inner or frm
            if inner and frm:
                r = (max(inner[0], frm[0]), min(inner[1], frm[1]))
            if r and to and to[0] <= r[0] and r[1] <= to[1]:
                return r
            return to
        if k == "bin":
            op = e[1].replace("WithOverflow", "")
            a, b = self.interval(e[2]), self.interval(e[3])
            ty = ty_range(e[4]) if len(e) > 4 else None
            if op == "Rem" and b and b[0] > 0:
                return (0, b[1] - 1)
            if op == "BitAnd":
                his = [x[1] for x in (a, b) if x and x[0] >= 0]
                if his:
                    return (0, min(his))
            if a and b:
                if op == "Add":
                    return (a[0] + b[0], a[1] + b[1])
                if op == "Sub":
                    return (a[0] - b[1], a[1] - b[0])
                if op == "Mul" and a[0] >= 0 and b[0] >= 0:
                    return (a[0] * b[0], a[1] * b[1])
                if op == "Div" and b[0] > 0 and a[0] >= 0:
                    return (a[0] // b[1], a[1] // b[0])
                if op == "Shr" and b[0] == b[1] and a[0] >= 0:
                    return (a[0] >> b[0], a[1] >> b[0])
                if op == "BitOr" and a[0] >= 0 and b[0] >= 0:
                    hi = 1
                    while hi <= max(a[1], b[1]):
                        hi <<= 1
                    return (0, hi - 1)
            return ty
        if k == "proj" and e[2] == ("0",) and e[1][0] == "bin":
            return self.interval(e[1])
        if k == "call":
            n = e[1]
            if n in LEN_CALLS:
                return (0, LEN_MAX)
            if n.endswith("ops::bit::BitAnd::bitand") and len(e[2]) == 2:
                his = [x[1] for x in (self.interval(strip_ref(e[2][0])), self.interval(strip_ref(e[2][1]))) if x and x[0] >= 0]
                if his:
                    return (0, min(his))
            if n.endswith("ops::bit::Shr::shr") and len(e[2]) == 2:
                a, b = self.interval(strip_ref(e[2][0])), self.interval(strip_ref(e[2][1]))
                if a and b and b[0] == b[1] and a[0] >= 0:
                    return (a[0] >> b[0], a[1] >> b[0])
            if n == "core::cmp::min" and len(e[2]) == 2:
                a, b = self.interval(e[2][0]), self.interval(e[2][1])
                if a and b:
                    return (min(a[0], b[0]), min(a[1], b[1]))
            if n.startswith("core::num::<impl u") and n.endswith("::from_be_bytes") or n.endswith("::from_le_bytes"):
                ts = n.split("<impl ")[1].split(">")[0]
                return ty_range(ts)
        if k == "proj":
            # element of a byte slice / deref of &u8 ...
            return self.proj_interval(e)
        if k == "discr":
            return (0, 255)
        return None

    def var_union(self, l, depth=0):
        """Union of the intervals of all values ever assigned to local l (None if unknown)."""
        if getattr(self, "_vu_busy", None) is None:
            self._vu_busy = set()
        if l in self._vu_busy or 1 <= l <= self.vx.argc:
            return None
        self._vu_busy.add(l)
        try:
            lo = hi = None
            ds = self.tr.defs.get(l, [])
            if not ds or l in self.vx.mw:
                return None
            for d in ds:
                if d[2] == "call" and not d[3]["dest"]["p"] and widening_conversion(d[3]):
                    # `let x = T::from(y)` / `y.into()` between integers: same as `y as T`
                    r = self.interval(self.vx._call(d[3], d[0], 0))
                elif d[2] != "assign" or d[3]["p"]["p"]:
                    return None
                else:
                    r = self.interval(self.vx.rvalue(d[3]["rv"], d[0]))
                if r is None:
                    return None
                lo = r[0] if lo is None else min(lo, r[0])
                hi = r[1] if hi is None else max(hi, r[1])
            return (lo, hi)
        finally:
            self._vu_busy.discard(l)

    def vec_len_interval(self, x):
        """Interval of the length of a Vec variable whose exact version is unknown: union over the
        length-defining events (from_elem / new / resize) that can reach the read."""
        if x[0] != "var" or x[3][0] != "phi":
            return None
        l, at = x[2], x[3][1]
        if not self.vx.local_ty(l).startswith("alloc::vec::Vec<"):
            return None
        lo = hi = None
        add_hi = 0
        loops = None
        for D in self.vx.def_blocks(l):
            if D != at and at not in self.vx.reach(D):
                continue
            t = self.b.blocks[D]["term"]
            if t["t"] != "call":
                return None
            n = callee(t)
            if t["dest"]["l"] != l and n in ("alloc::vec::Vec::<T, A>::extend_from_slice", "alloc::vec::Vec::<T, A>::push"):
                # appended once (not in a loop): at most that many bytes more
                if loops is None:
                    loops = self.b.natural_loops()
                if any(D in blks for blks in loops.values()):
                    return None
                if n.endswith("::push"):
                    add_hi += 1
                    continue
                ai = self.lin_interval(len_of(self, self.vx.operand(t["args"][1], D)))
                if ai is None:
                    return None
                add_hi += ai[1]
                continue
            if t["dest"]["l"] == l and not t["dest"]["p"]:
                if n == "alloc::vec::from_elem":
                    r = self.interval(self.vx.operand(t["args"][1], D))
                elif n in ("alloc::vec::Vec::<T>::new", "alloc::vec::Vec::<T>::with_capacity"):
                    r = (0, 0)
                elif n in ("alloc::slice::<impl [T]>::to_vec", "alloc::borrow::ToOwned::to_owned") and t["args"]:
                    r = self.lin_interval(len_of(self, self.vx.operand(t["args"][0], D)))
                elif n in ("core::convert::From::from", "core::convert::Into::into") and len(t["args"]) == 1:
                    # Vec::from([u8; N]) / `[..].into()`: N elements
                    import re as _re
                    ms = [_re.fullmatch(r"\[.*; (\d+)\]", ty_str(a_)) for a_ in (t.get("f") or {}).get("a", [])]
                    ms = [m_ for m_ in ms if m_]
                    if len(ms) != 1:
                        return None
                    r = (int(ms[0].group(1)), int(ms[0].group(1)))
                else:
                    return None
            elif n == "alloc::vec::Vec::<T, A>::resize":
                if D == at:
                    continue
                r = self.lin_interval(self.lin(self.vx.operand(t["args"][1], D))) if not self._busy_len(l) else None
            elif n in LEN_PRESERVING_MUT:
                continue
            else:
                return None
            if r is None:
                return None
            lo = r[0] if lo is None else min(lo, r[0])
            hi = r[1] if hi is None else max(hi, r[1])
        if lo is None:
            return None
        return (lo, hi + add_hi)

    def _busy_len(self, l):
        return False

    def proj_interval(self, e):
        # `*d` where d: &u8 from slice::get / iterator: use the type of the projected value if known
        base, f = e[1], e[2]
        if base[0] == "call" and (base[1].endswith("<impl [T]>::get") or base[1].endswith("<impl [T]>::first")
                                  or base[1].endswith("Iterator::next")):
            ga = base[4] if len(base) > 4 else ()
            if ga and ga[0] in U and f[:2] in (("@Some", "0"),):
                return ty_range(ga[0])
            if f[:2] == ("@Some", "0") and any("u8" == g or g.endswith("Iter<u8>") for g in ga):
                return (0, 255)
        return None

    def lin_interval(self, L):
        lo, hi = L.c, L.c
        for a, v in L.t.items():
            r = self.interval(a)
            if r is None:
                return None
            if v >= 0:
                lo += v * r[0]
                hi += v * r[1]
            else:
                lo += v * r[1]
                hi += v * r[0]
        return (lo, hi)

    # ---- facts
    def facts_at(self, bb):
        """Linear facts (Lin >= 0) that hold whenever block bb is entered."""
        if bb in self._facts:
            return self._facts[bb]
        facts = []
        b = self.b
        doms = b.dom.get(bb, set())
        for P in sorted(doms):
            t = b.blocks[P]["term"]
            if t["t"] == "switch":
                targets = {}
                for v, tb in t["targets"]:
                    targets.setdefault(tb, []).append(v)
                allv = [v for v, _ in t["targets"]]
                for tb in set([x for _, x in t["targets"]] + [t["else"]]):
                    if tb == P:
                        continue
                    vals = targets.get(tb, [])
                    is_else = tb == t["else"]
                    if not self.edge_dominates(P, tb, bb):
                        continue
                    cond = self.vx.operand(t["d"], P)
                    facts.extend(self.cond_facts(cond, vals, is_else, allv))
            elif t["t"] == "assert":
                # passing an assert establishes its condition
                if t["to"] in doms or t["to"] == bb:
                    cond = self.vx.operand(t["cond"], P)
                    exp = 1 if t["expected"] else 0
                    facts.extend(self.cond_facts(cond, [exp], False, [exp]))
        self._facts[bb] = facts
        return facts

    def edge_dominates(self, P, S, target):
        """Every path entry -> target takes edge P -> S (target != P)."""
        if target == P:
            return False
        seen = set()
        st = [0]
        while st:
            x = st.pop()
            if x in seen:
                continue
            seen.add(x)
            if x == target:
                return False
            for s in self.b.succ[x]:
                if x == P and s == S:
                    continue
                st.append(s)
        return target in self.b.reachable(0)

    def cond_facts(self, cond, vals, is_else, allvals):
        """Facts implied by `cond in vals` (or, for the else edge, cond not in allvals)."""
        out = []
        truth = None
        if not is_else and len(vals) == 1 and vals[0] in (0, 1):
            truth = bool(vals[0])
        elif is_else and set(allvals) == {0}:
            truth = True
        elif is_else and set(allvals) == {1}:
            truth = False
        k = cond[0]
        if k == "un" and cond[1] == "Not" and truth is not None:
            return self.cond_facts(cond[2], [0 if truth else 1], False, [0, 1])
        if k == "bin" and truth is not None and cond[1] in ("Lt", "Le", "Gt", "Ge", "Eq", "Ne"):
            a, b = self.lin(cond[2]), self.lin(cond[3])
            op = cond[1]
            if not truth:
                op = {"Lt": "Ge", "Le": "Gt", "Gt": "Le", "Ge": "Lt", "Eq": "Ne", "Ne": "Eq"}[op]
            if op == "Lt":      # a < b  => b - a - 1 >= 0
                out.append(b.add(a, -1).add(Lin(1), -1))
            elif op == "Le":
                out.append(b.add(a, -1))
            elif op == "Gt":
                out.append(a.add(b, -1).add(Lin(1), -1))
            elif op == "Ge":
                out.append(a.add(b, -1))
            elif op == "Eq":
                out.append(a.add(b, -1))
                out.append(b.add(a, -1))
            return out
        if k == "call" and truth is not None:
            n = cond[1]
            if n.endswith("::is_empty") and len(cond[2]) == 1:
                L = self.lin(("call", LEN_CALLS[0], (cond[2][0],), None, ()))
                if truth:
                    out.append(L.scale(-1))
                else:
                    out.append(L.add(Lin(1), -1))
                return out
            if n in ("core::option::Option::<T>::is_some", "core::option::Option::<T>::is_none"):
                some = truth if n.endswith("is_some") else not truth
                inner = strip_ref(cond[2][0])
                out.extend(self.option_facts(inner, some))
                return out
        if k == "discr":
            ty = cond[2] if len(cond) > 2 else ""
            if ty.startswith("core::option::Option<"):
                some = None
                if not is_else and vals == [1]:
                    some = True
                elif not is_else and vals == [0]:
                    some = False
                elif is_else and set(allvals) == {1}:
                    some = False
                elif is_else and set(allvals) == {0}:
                    some = True
                if some is not None:
                    out.extend(self.option_facts(strip_ref(cond[1]), some))
            elif ty.startswith("core::ops::control_flow::ControlFlow<"):
                # `opt.ok_or(e)?` / `opt?`: the Continue edge (0) means opt was Some
                cont = None
                if not is_else and vals == [0]:
                    cont = True
                elif not is_else and vals == [1]:
                    cont = False
                elif is_else and set(allvals) == {1}:
                    cont = True
                elif is_else and set(allvals) == {0}:
                    cont = False
                inner = strip_ref(cond[1])
                if cont is not None and inner[0] == "call" and inner[1] == "core::ops::try_trait::Try::branch" and inner[2]:
                    arg = strip_ref(inner[2][0])
                    if arg[0] == "call" and arg[1] in ("core::option::Option::<T>::ok_or", "core::option::Option::<T>::ok_or_else") and arg[2]:
                        out.extend(self.option_facts(strip_ref(arg[2][0]), cont))
                    else:
                        out.extend(self.option_facts(arg, cont))
            return out
        # equality switch on an integer: value known on the edge
        if not is_else and len(vals) == 1 and k not in ("discr",):
            L = self.lin(cond)
            out.append(L.add(Lin(vals[0]), -1))
            out.append(Lin(vals[0]).add(L, -1))
        return out

    def option_facts(self, inner, some):
        """Facts from `<opt expr>` being Some / None for slice::first / slice::get."""
        out = []
        if inner[0] == "call":
            n = inner[1]
            if n.endswith(("<impl [T]>::first", "<impl [T]>::last", "<impl [T]>::split_first", "<impl [T]>::split_last")) and \
                    len(inner[2]) == 1:
                L = self.lin(("call", LEN_CALLS[0], (inner[2][0],), None, ()))
                out.append(L.add(Lin(1), -1) if some else L.scale(-1))
            elif n.endswith(("<impl [T]>::split_first_chunk", "<impl [T]>::first_chunk", "<impl [T]>::split_last_chunk",
                             "<impl [T]>::last_chunk")) and len(inner[2]) == 1:
                # Some iff len >= N (the const generic argument of the call)
                ga = inner[4] if len(inner) > 4 else ()
                ns = [int(g_) for g_ in ga if str(g_).isdigit()]
                if len(ns) == 1:
                    L = self.lin(("call", LEN_CALLS[0], (inner[2][0],), None, ()))
                    out.append(L.add(Lin(ns[0]), -1) if some else Lin(ns[0] - 1).add(L, -1))
            elif n.endswith("<impl [T]>::split_at_checked") and len(inner[2]) == 2:
                L = self.lin(("call", LEN_CALLS[0], (inner[2][0],), None, ()))
                M = self.lin(inner[2][1])
                out.append(L.add(M, -1) if some else M.add(L, -1).add(Lin(1), -1))
            elif n.endswith("<impl [T]>::get") and len(inner[2]) == 2:
                idx = strip_ref(inner[2][1])
                L = self.lin(("call", LEN_CALLS[0], (inner[2][0],), None, ()))
                if idx[0] == "agg" and idx[1].endswith("Range::Range"):
                    hi = self.lin(idx[2][1])
                    if some:
                        out.append(L.add(hi, -1))
                elif idx[0] == "agg" and (idx[1].endswith("RangeTo::RangeTo") or idx[1].endswith("RangeFrom::RangeFrom")):
                    bound = self.lin(idx[2][0])
                    if some:                      # ..n / k..  is in range iff bound <= len
                        out.append(L.add(bound, -1))
                    else:
                        out.append(bound.add(L, -1).add(Lin(1), -1))
                elif idx[0] == "agg":
                    pass
                else:
                    I = self.lin(idx)
                    if some:                      # idx < len
                        out.append(L.add(I, -1).add(Lin(1), -1))
                    else:                         # idx >= len
                        out.append(I.add(L, -1))
        return out

    def contract_facts(self, lins):
        """K1-K3: the remainder of a contracted decoder call is a suffix of its input."""
        out = []
        seen = set()
        for L in lins:
            for a in L.t:
                if a[0] != "len":
                    continue
                x = a[1]
                if x in seen:
                    continue
                seen.add(x)
                y = uncanon(x)
                if y[0] == "proj" and y[1][0] == "call" and y[1][1] in CONTRACTED and tuple(y[2]) == ("@Ok", "0", "1"):
                    inp = y[1][2][0]
                    Li = self.lin(("call", LEN_CALLS[0], (inp,), None, ()))
                    out.append(Li.add(Lin(0, {a: 1}), -1))
        return out

    # ---- entailment
    def prove_nonneg(self, goal, bb):
        """goal (Lin) >= 0 at entry of block bb?  -> (bool, explanation)"""
        facts = list(self.facts_at(bb)) + list(self.extra_facts)
        facts += self.contract_facts([goal] + facts)
        r = self.lin_interval(goal)
        if r and r[0] >= 0:
            return True, "by ranges %s" % (r,)
        for f in facts:
            g2 = goal.add(f, -1)
            r = self.lin_interval(g2)
            if r and r[0] >= 0:
                return True, "by fact %r" % (f,)
        for i, f in enumerate(facts):
            for f2 in facts[i + 1:]:
                g2 = goal.add(f, -1).add(f2, -1)
                r = self.lin_interval(g2)
                if r and r[0] >= 0:
                    return True, "by facts %r and %r" % (f, f2)
        for i, f in enumerate(facts):
            for j, f2 in enumerate(facts):
                if j <= i:
                    continue
                for f3 in facts[j + 1:]:
                    g2 = goal.add(f, -1).add(f2, -1).add(f3, -1)
                    r = self.lin_interval(g2)
                    if r and r[0] >= 0:
                        return True, "by three facts"
        return False, "goal %r not entailed by %d fact(s) %s" % (goal, len(facts), facts[:6])

    def prove_le(self, a, b, bb, strict=False):
        g = self.lin(b).add(self.lin(a), -1)
        if strict:
            g = g.add(Lin(1), -1)
        return self.prove_nonneg(g, bb)


_PURE_ANYWHERE = ("core::ops::try_trait::Try::branch", "core::ops::try_trait::FromResidual::from_residual",
                  "core::ops::deref::Deref::deref", "core::convert::From::from", "core::convert::Into::into")


def _modulo_pure(e):
    """expression with the position of pure calls dropped (the same pure call on the same arguments is the same value
    wherever it is made); other calls keep their position"""
    if not isinstance(e, tuple):
        return e
    if e and e[0] == "call" and e[1] in _PURE_ANYWHERE:
        return ("call", e[1], tuple(_modulo_pure(a) for a in e[2]), None) + tuple(_modulo_pure(x) for x in e[4:])
    return tuple(_modulo_pure(x) if isinstance(x, tuple) else x for x in e)


def _has_unknown(e):
    if not isinstance(e, tuple):
        return False
    if e and e[0] == "?":
        return True
    if e and e[0] == "var" and len(e) > 3 and isinstance(e[3], tuple) and e[3] and e[3][0] in ("phi", "mid"):
        return True
    return any(_has_unknown(x) for x in e if isinstance(x, tuple))


def unq(e, depth=0):
    """Undo `?`: `(Try::branch(X)).@Continue.0...` is `X.@Ok.0...` for a Result X and `X.@Some.0...` for an
    Option X, and `X.ok_or(e)` / `ok_or_else` has the same payload as X.  (Whether the unwrapping succeeds is a
    matter of the path condition; the *value* is the same.)"""
    if not isinstance(e, tuple) or not e or depth > 40:
        return e
    k = e[0]
    if k == "proj":
        base = unq(e[1], depth + 1)
        flds = tuple(e[2])
        b2 = strip_ref(base) if base[0] == "ref" else base
        if b2[0] == "call" and b2[1] == "core::ops::try_trait::Try::branch" and b2[2] and flds[:2] == ("@Continue", "0"):
            arg = b2[2][0]
            a2 = strip_ref(arg) if arg[0] == "ref" else arg
            ga = b2[4] if len(b2) > 4 else ()
            ty0 = str(ga[0]) if ga else ""
            variant = "@Some" if ty0.startswith("core::option::Option<") else "@Ok"
            return unq(("proj", a2, (variant, "0") + flds[2:]), depth + 1)
        if b2[0] == "call" and b2[1] in ("core::option::Option::<T>::ok_or", "core::option::Option::<T>::ok_or_else") and b2[2] and \
                flds[:2] == ("@Ok", "0"):
            return unq(("proj", b2[2][0], ("@Some", "0") + flds[2:]), depth + 1)
        if b2[0] == "call" and b2[1] in ("core::result::Result::<T, E>::map_err",) and b2[2] and flds[:1] == ("@Ok",):
            return unq(("proj", b2[2][0], flds), depth + 1)
        if b2[0] == "agg" and b2[1] == "one-of" and flds and isinstance(flds[0], str) and flds[0][:1] == "@":
            vn = flds[0][1:]
            alts = []
            ok_ = True
            for a_ in b2[2]:
                a2_ = strip_ref(a_) if a_[0] == "ref" else a_
                if a2_[0] == "agg" and str(a2_[1]).rsplit("::", 1)[-1] == vn:
                    alts.append(unq(("proj", a2_, flds), depth + 1))
                elif a2_[0] == "agg" and str(a2_[1]).rsplit("::", 1)[-1] in ("Ok", "Err", "Some", "None", "Continue", "Break"):
                    continue
                elif a2_[0] == "call" and str(a2_[1]).endswith("FromResidual::from_residual") and vn in ("Ok", "Some"):
                    continue
                else:
                    ok_ = False
            if ok_ and len(alts) == 1:
                return alts[0]
            if ok_ and len(alts) > 1:
                return ("agg", "one-of", tuple(alts), ())
        # `(Ok(x) as Ok).0` is x (an aggregate read back through the variant it was built with)
        if b2[0] == "agg" and len(flds) >= 2 and isinstance(flds[0], str) and flds[0][:1] == "@" and \
                str(b2[1]).rsplit("::", 1)[-1] == flds[0][1:] and isinstance(flds[1], str) and flds[1].isdigit() and int(flds[1]) < len(b2[2]):
            inner = b2[2][int(flds[1])]
            return unq(("proj", inner, flds[2:]), depth + 1) if flds[2:] else unq(inner, depth + 1)
        return ("proj", base, flds) + tuple(e[3:])
    if k == "ref":
        return ("ref", unq(e[1], depth + 1)) + tuple(e[2:])
    if k == "call":
        return ("call", e[1], tuple(unq(a, depth + 1) for a in e[2])) + tuple(e[3:])
    if k == "bin":
        return ("bin", e[1], unq(e[2], depth + 1), unq(e[3], depth + 1)) + tuple(e[4:])
    if k == "cast":
        return ("cast", unq(e[1], depth + 1)) + tuple(e[2:])
    if k == "agg":
        return ("agg", e[1], tuple(unq(a, depth + 1) for a in e[2])) + tuple(e[3:])
    return e


def canon(e):
    """Hashable canonical form of an expression: drop block ids of calls (a call result is
    identified by its single-definition position anyway) but keep variable versions."""
    if not isinstance(e, tuple):
        return e
    k = e[0] if e else None
    if k == "call":
        return ("call", e[1], tuple(canon(a) for a in e[2]), e[3] if len(e) > 3 else None, e[4] if len(e) > 4 else ())
    return tuple(canon(x) if isinstance(x, tuple) else x for x in e)


def uncanon(e):
    return e


# ------------------------------------------------------------------ site obligations

def range_bounds(pr, rng):
    """(lo Lin|None, hi Lin|None, kind) of a range aggregate expression."""
    rng = strip_ref(rng)
    if rng[0] != "agg":
        return None
    n = rng[1]
    if n.endswith("RangeTo::RangeTo"):
        return (None, pr.lin(rng[2][0]), "to")
    if n.endswith("RangeFrom::RangeFrom"):
        return (pr.lin(rng[2][0]), None, "from")
    if n.endswith("Range::Range") and len(rng[2]) == 2:
        return (pr.lin(rng[2][0]), pr.lin(rng[2][1]), "range")
    if n.endswith("RangeFull::RangeFull"):
        return (None, None, "full")
    return None


SPLIT_FIRST = ("core::slice::<impl [T]>::split_first",)
SPLIT_FIRST_CHUNK = ("core::slice::<impl [T]>::split_first_chunk",)


def split_first_parts(x):
    """(base, k, part) if x is component `part` (0 | 1) of the Some payload of base.split_first() (k = 1) or
    base.split_first_chunk::<K>() (k = K); None otherwise."""
    if x[0] != "proj" or x[1][0] != "call" or len(x[2]) < 3:
        return None
    flds = tuple(x[2])
    if flds[:2] != ("@Some", "0") or flds[2] not in ("0", "1") or len(flds) != 3:
        return None
    c = x[1]
    if c[1] in SPLIT_FIRST:
        return c[2][0], 1, int(flds[2])
    if c[1] in SPLIT_FIRST_CHUNK:
        ga = c[4] if len(c) > 4 else ()
        k = None
        for g in ga:
            if str(g).isdigit():
                k = int(g)
        if k is None:
            return None
        return c[2][0], k, int(flds[2])
    return None


def len_of(pr, base):
    # `&[u8; N]` unsized to `&[u8]`: the length is N
    b_ = base
    while b_ and b_[0] == "ref":
        b_ = b_[1]
    if b_ and b_[0] == "cast" and len(b_) > 4 and str(b_[3]).startswith("PointerCoercion") and "Unsize" in str(b_[3]):
        import re as _re
        m = _re.match(r"^&(?:mut )?\[[A-Za-z0-9_:<>, ]+; (\d+)\]$", str(b_[4]))
        if m:
            return Lin(int(m.group(1)))
    return pr.lin(("call", LEN_CALLS[0], (base,), None, ()))


def check_site(pr, s, assumed=None):
    """-> (ok: bool, explanation)"""
    b = pr.b
    bb = s["bb"]
    kind = s["kind"]
    t = s.get("term")
    vx = pr.vx
    if kind == "BoundsCheck":
        ln = vx.operand(t["ops"][0], bb)
        ix = vx.operand(t["ops"][1], bb)
        # `PtrMetadata(copy slice)` is the length of the slice
        L = pr.lin(ln)
        if ln[0] == "un" and ln[1] == "PtrMetadata":
            L = len_of(pr, ln[2])
        I = pr.lin(ix)
        return pr.prove_nonneg(L.add(I, -1).add(Lin(1), -1), bb)
    if kind == "Overflow":
        a = vx.operand(t["ops"][0], bb)
        c = vx.operand(t["ops"][1], bb)
        ty = ty_str(t.get("ty"))
        r = ty_range(ty)
        if r is None:
            return False, "unknown operand type %s" % ty
        op = t["op"]
        if op in ("Add", "Sub"):
            res = pr.lin(a).add(pr.lin(c), 1 if op == "Add" else -1)
        elif op == "Mul":
            la, lc = pr.lin(a), pr.lin(c)
            if not la.t:
                res = lc.scale(la.c)
            elif not lc.t:
                res = la.scale(lc.c)
            else:
                ia, ic = pr.lin_interval(la), pr.lin_interval(lc)
                if ia and ic and ia[0] >= 0 and ic[0] >= 0 and ia[1] * ic[1] <= r[1]:
                    return True, "product bounded by %d" % (ia[1] * ic[1])
                return False, "non-linear product %s * %s" % (show(a)[:40], show(c)[:40])
        elif op in ("Shl", "Shr"):
            # the check of a shift is on the shift amount only: it must be smaller than the width of the shifted type
            bits = {"u8": 8, "i8": 8, "u16": 16, "i16": 16, "u32": 32, "i32": 32, "u64": 64, "i64": 64, "usize": 64, "isize": 64,
                    "u128": 128, "i128": 128}.get(ty)
            ic = pr.interval(c)
            if bits and ic is not None and 0 <= ic[0] and ic[1] < bits:
                return True, "shift amount in [%d, %d] < %d" % (ic[0], ic[1], bits)
            return False, "shift amount %s not provably below the width of %s" % (show(c)[:40], ty)
        else:
            return False, "unsupported overflow op %s" % op
        ok1, w1 = pr.prove_nonneg(res.add(Lin(r[0]), -1), bb)          # res >= min
        if not ok1:
            return False, "lower bound: " + w1
        ok2, w2 = pr.prove_nonneg(Lin(r[1]).add(res, -1), bb)           # res <= max
        if not ok2:
            return False, "upper bound: " + w2
        return True, "result within %s: %s / %s" % (ty, w1[:60], w2[:60])
    if kind in ("DivisionByZero", "RemainderByZero"):
        cond = vx.operand(t["cond"], bb)
        if cond == ("const", 0) or cond == ("const", False):
            return True, "divisor is a non-zero constant"
        if cond[0] == "bin" and cond[1] == "Eq":
            d = cond[2] if cond[3] == ("const", 0) else cond[3]
            r = pr.interval(d)
            if r and (r[0] > 0 or r[1] < 0):
                return True, "divisor in %s" % (r,)
        return False, "divisor %s may be zero" % show(cond)[:60]
    if kind == "index":
        n = callee(t)
        base = vx.operand(t["args"][0], bb)
        idx = vx.operand(t["args"][1], bb)
        bty = strip_outer_ref(ty_str(b.local_ty(op_place(t["args"][0])["l"]))) if op_place(t["args"][0]) else ""
        if "str" in bty.split("<")[0] or bty.startswith("alloc::string::String"):
            return False, "string slicing (character boundaries are not tracked)"
        L = len_of(pr, base)
        rb = range_bounds(pr, idx)
        if rb is None:
            if strip_ref(idx)[0] == "agg":
                return False, "unsupported range form %s" % show(idx)[:60]
            return pr.prove_nonneg(L.add(pr.lin(idx), -1).add(Lin(1), -1), bb)
        lo, hi, rk = rb
        if rk == "full":
            return True, "full range"
        if hi is not None:
            ok, w = pr.prove_nonneg(L.add(hi, -1), bb)
            if not ok:
                return False, "end <= len: " + w
        if lo is not None:
            upper = hi if hi is not None else L
            ok, w = pr.prove_nonneg(upper.add(lo, -1), bb)
            if not ok:
                return False, "start <= %s: %s" % ("end" if hi is not None else "len", w)
            ok, w = pr.prove_nonneg(lo, bb)
            if not ok:
                return False, "start >= 0: " + w
        return True, "range within length"
    if kind == "split_at":
        # s.split_at(mid) panics iff mid > len(s)
        base = vx.operand(t["args"][0], bb)
        mid = vx.operand(t["args"][1], bb)
        ok, w = pr.prove_nonneg(len_of(pr, base).add(pr.lin(mid), -1), bb)
        return (True, "mid <= len: " + w[:80]) if ok else (False, "split point may exceed the length: " + w)
    if kind == "unwrap":
        arg = vx.operand(t["args"][0], bb)
        a = strip_ref(arg)
        # try_into::<[u8; N]>() of a slice whose length is N
        if a[0] == "call" and a[1] == "core::convert::TryInto::try_into":
            ga = a[4] if len(a) > 4 else ()
            target = ga[1] if len(ga) > 1 else ""
            if target.startswith("[u8; "):
                n = int(target[len("[u8; "):-1]) if target[len("[u8; "):-1].isdigit() else None
                if n is not None:
                    L = len_of(pr, a[2][0])
                    ok1, w1 = pr.prove_nonneg(L.add(Lin(n), -1), bb)
                    ok2, w2 = pr.prove_nonneg(Lin(n).add(L, -1), bb)
                    if ok1 and ok2:
                        return True, "slice has exactly %d bytes" % n
                    return False, "slice length != %d: %s %s" % (n, w1[:80], w2[:80])
        # facts: is_some / discriminant guards
        for f in ():
            pass
        return False, "unwrap of %s" % show(arg)[:100]
    if kind == "truncation":
        st = s["st"]
        rv = st["rv"]
        src = vx.operand(rv["o"], bb)
        to = ty_range(ty_str(rv["ty"]))
        L = pr.lin(src)
        ok1, w1 = pr.prove_nonneg(L.add(Lin(to[0]), -1), bb)
        ok2, w2 = pr.prove_nonneg(Lin(to[1]).add(L, -1), bb)
        if ok1 and ok2:
            return True, "operand within %s" % (to,)
        return False, "cast %s may truncate: %s" % (s["detail"], (w1 if not ok1 else w2)[:120])
    if kind == "alloc":
        size = vx.operand(t["args"][s["size_arg"]], bb)
        L = pr.lin(size)
        r = pr.lin_interval(L)
        if r and r[1] <= 1 << 20 and r[0] >= 0:
            return True, "allocation size in %s" % (r,)
        return False, "allocation size %s is not bounded" % show(size)[:80]
    if kind in ("panic", "diverging-call"):
        return False, "explicit panic %s" % s["detail"]
    return False, "unsupported site kind %s" % kind


def strip_outer_ref(s):
    while s.startswith("&mut "):
        s = s[5:]
    while s.startswith("&"):
        s = s[1:]
    return s


# ------------------------------------------------------------------ lemmas

def make_prover(body, crates):
    """Prover with closure-capture ranges taken from the parent body."""
    pr = Prover(body, crates)
    if body.raw["defkind"] == "Closure" and not body.raw.get("coroutine_kind"):
        parent = None
        for c in crates:
            parent = parent or c.bodies.get(body.raw.get("parent"))
        if parent is not None:
            pp = Prover(parent, crates)
            for i in sorted(parent.reachable(0)):
                for st in parent.blocks[i]["stmts"]:
                    if st["s"] == "assign" and st["rv"]["r"] == "agg" and st["rv"]["kind"] == "closure" and \
                            st["rv"].get("n") == body.id:
                        names = [pr.vx.upvars[k][0] for k in sorted(pr.vx.upvars)]
                        for nm, op in zip(names, st["rv"]["ops"]):
                            e = pp.vx.operand(op, i)
                            if e[0] == "ref":
                                # captured by shared reference: the referent cannot change while the
                                # closure (and its borrow) is alive
                                e = e[1]
                            r = pp.interval(e)
                            if r is not None:
                                prev = pr.vx.upvar_facts.get(nm)
                                pr.vx.upvar_facts[nm] = r if prev is None else (min(prev[0], r[0]), max(prev[1], r[1]))
    install_loop_lemmas(pr, crates)
    return pr


def counted_loops(pr):
    """Loops of the form `for i in lo..hi` (Iterator::next on a Range): list of dicts with
    next_bb, some_target, none_target, lo, hi (exprs), idx expr (payload of next)."""
    b, vx = pr.b, pr.vx
    out = []
    for bb, t in b.calls():
        if callee(t) != "core::iter::traits::iterator::Iterator::next":
            continue
        ga = ty_str(t["f"]["a"][0])
        if ga.startswith(_SLICE_ITERS):
            lp = _slice_counted_loop(pr, bb, t, ga)
            if lp:
                out.append(lp)
            continue
        if not ga.startswith(("core::ops::range::Range<", "core::iter::adapters::rev::Rev<core::ops::range::Range<")):
            continue
        reversed_ = ga.startswith("core::iter::adapters::rev::Rev<")
        it = vx.operand(t["args"][0], bb)
        it = strip_ref(it)
        rng = None
        if it[0] == "var":
            # the iterator variable: defined once by into_iter(Range{lo,hi}) and advanced by next()
            for d in pr.tr.defs.get(it[2], []):
                if d[2] == "call" and callee(d[3]).endswith("IntoIterator::into_iter"):
                    r = vx.operand(d[3]["args"][0], d[0])
                    if r[0] == "call" and r[1] == "core::iter::traits::iterator::Iterator::rev" and reversed_:
                        r = r[2][0]
                    if r[0] == "agg" and r[1].endswith("Range::Range"):
                        rng = r
                elif d[2] == "assign":
                    r = vx.rvalue(d[3]["rv"], d[0])
                    if r[0] == "call" and r[1].endswith("IntoIterator::into_iter") and r[2][0][0] == "agg":
                        rng = r[2][0]
                    elif r[0] == "agg" and r[1].endswith("Range::Range"):
                        rng = r
            others = [w for w in pr.vx.mw.get(it[2], []) if callee(w[1]) != "core::iter::traits::iterator::Iterator::next"]
            if others:
                rng = None
        if rng is None or t["to"] is None:
            continue
        nt = b.blocks[t["to"]]["term"]
        if nt["t"] != "switch":
            continue
        some_t = none_t = None
        for v, tb in nt["targets"]:
            if v == 1:
                some_t = tb
            if v == 0:
                none_t = tb
        if some_t is None:
            continue
        if none_t is None:
            none_t = nt["else"]
        idx = ("proj", ("call", callee(t), tuple(vx._operand(a, bb) for a in t["args"]), bb,
                        tuple(ty_str(x) for x in t["f"]["a"])), ("@Some", "0"))
        out.append(dict(next_bb=bb, sw_bb=t["to"], some=some_t, none=none_t, lo=rng[2][0], hi=rng[2][1], idx=idx,
                        dest=t["dest"]["l"], reversed=reversed_))
    return out


_SLICE_ITERS = ("core::slice::iter::Iter<", "core::slice::iter::IterMut<", "core::iter::adapters::rev::Rev<core::slice::iter::Iter<",
                "core::iter::adapters::rev::Rev<core::slice::iter::IterMut<")
_SLICE_ITER_MAKERS = ("core::slice::<impl [T]>::iter", "core::slice::<impl [T]>::iter_mut")


def exact_len(pr, e, depth=0):
    """The expression H when the slice denoted by e has exactly H elements by construction: the first half of
    `split_at(_, H)`, `x[..H]`, `x[0..H]` (each of them panics rather than yield a shorter slice)."""
    e = strip_ref(e)
    if e[0] == "proj" and tuple(e[2]) == ("0",) and e[1][0] == "call" and \
            e[1][1] in ("core::slice::<impl [T]>::split_at", "core::slice::<impl [T]>::split_at_mut") and len(e[1][2]) == 2:
        return e[1][2][1]
    if e[0] == "call" and e[1] in INDEX and len(e[2]) == 2:
        r = strip_ref(e[2][1])
        if r[0] == "agg" and r[1].endswith("RangeTo::RangeTo") and r[2]:
            return r[2][0]
        if r[0] == "agg" and r[1].endswith("Range::Range") and len(r[2]) == 2 and r[2][0] == ("const", 0):
            return r[2][1]
    if e[0] == "var" and depth < 4:
        ds = pr.tr.defs.get(e[2], [])
        if len(ds) == 1 and ds[0][2] == "assign" and e[2] not in pr.vx.mw:
            return exact_len(pr, pr.vx.rvalue(ds[0][3]["rv"], ds[0][0]), depth + 1)
    return None


def _slice_counted_loop(pr, bb, t, ga):
    """`for x in s.iter()` (also iter_mut / .rev(), and what fold / for_each are lowered to) over a slice with
    exactly H elements by construction (exact_len) is a loop of exactly H trips: reported like `for _ in 0..H`
    (without an index value)."""
    b, vx = pr.b, pr.vx
    it = strip_ref(vx.operand(t["args"][0], bb))
    if it[0] != "var" or t["to"] is None:
        return None
    ds = pr.tr.defs.get(it[2], [])
    if len(ds) != 1:
        return None
    d = ds[0]
    if d[2] == "call":
        src = ("call", callee(d[3]), tuple(vx.operand(a, d[0]) for a in d[3]["args"]))
    elif d[2] == "assign":
        src = vx.rvalue(d[3]["rv"], d[0])
    else:
        return None
    for _ in range(3):      # into_iter(iter(s)) / rev(iter(s))
        if src[0] == "call" and src[2] and (src[1].endswith("IntoIterator::into_iter") or src[1] == "core::iter::traits::iterator::Iterator::rev") \
                and strip_ref(src[2][0])[0] == "call":
            src = strip_ref(src[2][0])
    if not (src[0] == "call" and src[2] and (src[1] in _SLICE_ITER_MAKERS or src[1].endswith("IntoIterator::into_iter"))):
        return None
    h = exact_len(pr, src[2][0])
    if h is None:
        return None
    if [w for w in vx.mw.get(it[2], []) if callee(w[1]) != "core::iter::traits::iterator::Iterator::next"]:
        return None
    if len([1 for bb2, t2 in b.calls() if callee(t2) == "core::iter::traits::iterator::Iterator::next" and
            strip_ref(vx.operand(t2["args"][0], bb2)) == it]) != 1:
        return None         # a second `next()` on the same iterator: the trips are not H
    nt = b.blocks[t["to"]]["term"]
    if nt["t"] != "switch":
        return None
    some_t = none_t = None
    for v, tb in nt["targets"]:
        if v == 1:
            some_t = tb
        if v == 0:
            none_t = tb
    if some_t is None:
        return None
    if none_t is None:
        none_t = nt["else"]
    return dict(next_bb=bb, sw_bb=t["to"], some=some_t, none=none_t, lo=("const", 0), hi=h, idx=None, dest=t["dest"]["l"],
                reversed=ga.startswith("core::iter::adapters::rev::Rev<"), slice=True)


def install_loop_lemmas(pr, crates):
    """(a) after `for i in 0..H { let Some(_) = data.get(i) else { return } .. }` : len(data) >= H;
    (b) decimal accumulator bound inside such a loop."""
    b, vx = pr.b, pr.vx
    pr.loop_facts = []          # (edge (P,S), Lin)  fact valid where the edge dominates
    pr.acc_bounds = {}          # local -> (hi_expr, c1, dmax, loopinfo)
    for lp in counted_loops(pr):
        if lp["lo"] != ("const", 0):
            continue
        # (a) find get(data, i) tests in the loop body with i = this loop's index
        for i in sorted(b.reachable(lp["some"])):
            t = b.blocks[i]["term"]
            if t["t"] != "switch":
                continue
            cond = vx.operand(t["d"], i)
            if cond[0] != "discr":
                continue
            inner = strip_ref(cond[1])
            some_val = 1
            # `data.get(i).ok_or(e)?`: the Continue edge of the `?` is the Some edge of the get
            if inner[0] == "call" and inner[1] == "core::ops::try_trait::Try::branch" and inner[2]:
                a_ = strip_ref(inner[2][0])
                if a_[0] == "call" and a_[1] in ("core::option::Option::<T>::ok_or", "core::option::Option::<T>::ok_or_else") and a_[2]:
                    inner, some_val = strip_ref(a_[2][0]), 0
                elif a_[0] == "call" and a_[1].endswith("<impl [T]>::get"):
                    inner, some_val = a_, 0
            if not (inner[0] == "call" and inner[1].endswith("<impl [T]>::get") and len(inner[2]) == 2):
                continue
            ix = strip_ref(inner[2][1])
            if not _is_loop_index(pr, ix, lp):
                continue
            data = strip_ref(inner[2][0])
            if data[0] == "var" and data[3] != ("entry",):
                continue
            some_edge = None
            for v, tb in t["targets"]:
                if v == some_val:
                    some_edge = tb
            if some_edge is None:
                continue
            # with the Some edge cut, the loop cannot continue to the next iteration
            seen = set()
            st = [lp["some"]]
            reaches_next = False
            while st:
                x = st.pop()
                if x in seen:
                    continue
                seen.add(x)
                if x == lp["next_bb"]:
                    reaches_next = True
                    break
                for s in b.succ[x]:
                    if x == i and s == some_edge:
                        continue
                    st.append(s)
            if reaches_next:
                continue
            L = len_of(pr, inner[2][0]).add(pr.lin(lp["hi"]), -1)
            pr.loop_facts.append(((lp["sw_bb"], lp["none"]), L, "counted loop over 0..%s tested get(i) for every i" % show(lp["hi"])))
        # (b) accumulators
        loop_blocks = b.reachable(lp["some"]) & {x for x in b.reachable(0) if lp["next_bb"] in b.reachable(x)}
        for l, loc in enumerate(b.locals):
            ds = pr.tr.defs.get(l, [])
            if len(ds) != 2 or ty_str(loc["ty"]) not in U or l in vx.mw:
                continue
            init = [d for d in ds if d[0] not in loop_blocks]
            step = [d for d in ds if d[0] in loop_blocks]
            if len(init) != 1 or len(step) != 1 or init[0][2] != "assign" or step[0][2] != "assign":
                continue
            i0 = vx.rvalue(init[0][3]["rv"], init[0][0])
            if i0 != ("const", 0) or not b.dominates(init[0][0], lp["next_bb"]):
                continue
            e = vx.rvalue(step[0][3]["rv"], step[0][0])
            L = pr.lin(e)
            me = [a for a in L.t if a[0] == "var" and a[2] == l]
            if len(me) != 1:
                continue
            c1 = L.t[me[0]]
            rest = Lin(L.c, {a: v for a, v in L.t.items() if a != me[0]})
            r = pr.lin_interval(rest)
            if c1 < 2 or r is None or r[0] < 0:
                continue
            pr.acc_bounds[l] = dict(hi=lp["hi"], c1=c1, dmax=r[1], ty=ty_str(loc["ty"]))
    # make loop facts available
    orig = pr.facts_at

    def facts_at(bb, orig=orig):
        fs = list(orig(bb))
        for (P, S_), L, why in pr.loop_facts:
            if pr.edge_dominates(P, S_, bb):
                fs.append(L)
        return fs
    pr.facts_at = facts_at


def _is_loop_index(pr, ix, lp):
    """ix denotes the value produced by this loop's `next()` in the current iteration."""
    if lp.get("slice"):
        return False        # a slice loop yields elements, not positions
    if ix[0] == "proj" and ix[1][0] == "call" and ix[1][1].endswith("Iterator::next") and ix[1][3] == lp["next_bb"] \
            and tuple(ix[2]) == ("@Some", "0"):
        return True
    if ix[0] == "var":
        # user variable bound from the Some payload
        ds = pr.tr.defs.get(ix[2], [])
        if len(ds) >= 1 and all(d[2] == "assign" for d in ds):
            vals = {canon(pr.vx.rvalue(d[3]["rv"], d[0])) for d in ds}
            if len(vals) == 1:
                v = next(iter(vals))
                return _is_loop_index(pr, v, lp)
    return False


def instantiations_of(crates, generic_name):
    """Constant arguments with which a const-generic type such as LlvImpl<N> is instantiated
    anywhere in the analysed crates."""
    import re
    out = set()
    pat = re.compile(re.escape(generic_name) + r"<(\d+)>")
    for c in crates:
        for b in c.bodies.values():
            for bb, t in b.all_calls():
                f = t.get("f") or {}
                for a in f.get("a", []):
                    for m in pat.finditer(ty_str(a)):
                        out.add(int(m.group(1)))
            for loc in b.locals:
                for m in pat.finditer(ty_str(loc["ty"])):
                    out.add(int(m.group(1)))
        for im in c.impls:
            for m in pat.finditer(ty_str(im.get("self"))):
                out.add(int(m.group(1)))
    return out


def accumulator_ok(pr, s, crates):
    """Discharge `acc * c1` / `acc*c1 + d` overflow sites of a decimal accumulator inside a
    counted loop: after k <= H iterations acc <= dmax*(c1^k - 1)/(c1 - 1)."""
    t = s.get("term")
    if s["kind"] != "Overflow" or not getattr(pr, "acc_bounds", None):
        return None
    a = pr.vx.operand(t["ops"][0], s["bb"])
    c = pr.vx.operand(t["ops"][1], s["bb"])
    involved = [x for x in list(walk(a)) + list(walk(c)) if x[0] == "var" and x[2] in pr.acc_bounds]
    if not involved:
        return None
    info = pr.acc_bounds[involved[0][2]]
    hi = info["hi"]
    if hi[0] == "const" and isinstance(hi[1], int):
        hs = {hi[1]}
        src = "constant bound"
    elif hi[0] == "constparam":
        self_ty = ty_str(pr.b.raw.get("impl_self"))
        gname = self_ty.split("<")[0]
        hs = instantiations_of(crates, gname)
        src = "instantiations %s<N> for N in %s found in the analysed crates" % (gname.rsplit("::", 1)[-1], sorted(hs))
        if not hs:
            return False, "no instantiation of %s found" % gname
    else:
        return False, "loop bound %s is not a constant" % show(hi)
    mx = U[info["ty"]]
    for h in hs:
        bound = info["dmax"] * (info["c1"] ** h - 1) // (info["c1"] - 1)
        if bound > mx:
            return False, "accumulator may reach %d > %s::MAX after %d iterations (%s)" % (bound, info["ty"], h, src)
    return True, "accumulator <= %d*(%d^N-1)/%d fits %s for every N (%s)" % (info["dmax"], info["c1"], info["c1"] - 1, info["ty"], src)


def _on_infeasible_try_into_err(pr, bb):
    """Block bb lies behind the Err edge of `try_into::<[u8; N]>(s)` where len(s) == N is provable at the
    test: that edge cannot be taken (the conversion fails only on a length mismatch)."""
    b, vx = pr.b, pr.vx
    for sw in sorted(b.reachable(0)):
        t = b.blocks[sw]["term"]
        if t["t"] != "switch":
            continue
        e = vx.operand(t["d"], sw)
        if e[0] != "discr":
            continue
        inner = strip_ref(e[1])
        if not (inner[0] == "call" and inner[1] == "core::convert::TryInto::try_into"):
            continue
        ga = inner[4] if len(inner) > 4 else ()
        tgt = ga[1] if len(ga) > 1 else ""
        if not (tgt.startswith("[u8; ") and tgt[5:-1].isdigit()):
            continue
        n = int(tgt[5:-1])
        err_t = dict((v, tb) for v, tb in t["targets"]).get(1, t["else"])
        if err_t is None or not (b.dominates(err_t, bb) and pr.edge_dominates(sw, err_t, bb)):
            continue
        L = len_of(pr, inner[2][0])
        at = inner[3] if len(inner) > 3 and isinstance(inner[3], int) else sw
        ok1, _ = pr.prove_nonneg(L.add(Lin(n), -1), at)
        ok2, _ = pr.prove_nonneg(Lin(n).add(L, -1), at)
        if ok1 and ok2:
            return True
    return False


def ok_when_len_ge(body_id, crates, depth=0, memo=None):
    """Smallest K such that the decoder `body_id(bytes)` returns Ok whenever len(bytes) >= K
    (None if it cannot be established).  Err returns must be (a) explicit Err under a fact
    len(bytes) <= c, (b) `?` on a local decoder applied to the same slice, or (c) `?` on a
    try_into::<[u8;N]> of a slice of exactly N bytes (infeasible)."""
    memo = memo if memo is not None else {}
    if body_id in memo:
        return memo[body_id]
    memo[body_id] = None
    body = None
    for c in crates:
        body = body or c.bodies.get(body_id)
    if body is None or depth > 4 or body.back_edges():
        return None
    pr = make_prover(body, crates)
    vx = pr.vx
    K = 0
    param_len = Lin(0, {("len", canon(("path", vx.root_name(1), ()))): 1})
    for i in sorted(body.reachable(0)):
        for st in body.blocks[i]["stmts"]:
            if st["s"] == "assign" and st["p"]["l"] == 0 and st["rv"]["r"] == "agg" and st["rv"].get("vname") == "Err":
                # need: len(param) <= c at this block
                best = None
                for c_ in range(0, 64):
                    ok, _ = pr.prove_nonneg(Lin(c_).add(param_len, -1), i)
                    if ok:
                        best = c_
                        break
                if best is None:
                    if _on_infeasible_try_into_err(pr, i):
                        continue
                    return None
                K = max(K, best + 1)
        t = body.blocks[i]["term"]
        if t["t"] == "call" and t["dest"]["l"] == 0 and callee(t).endswith("FromResidual::from_residual"):
            e = vx.operand(t["args"][0], i)
            calls = [x for x in walk(e) if x[0] == "call" and x[1] != "core::ops::try_trait::Try::branch"]
            src = None
            # `s.split_first_chunk::<N>().ok_or(e)?` / `s.first_chunk::<N>().ok_or(e)?` on the whole parameter slice: None
            # (hence the `?` exit) exactly when len(s) < N
            chunk = [x for x in calls if x[1] in ("core::slice::<impl [T]>::split_first_chunk", "core::slice::<impl [T]>::first_chunk")]
            wraps = [x for x in calls if x[1] in ("core::option::Option::<T>::ok_or", "core::option::Option::<T>::ok_or_else")]
            if len(chunk) == 1 and len(wraps) == 1 and strip_ref(wraps[0][2][0]) == chunk[0] and \
                    len([x for x in calls if x not in chunk and x not in wraps and x[1] not in _PURE_ANYWHERE]) == 0:
                a0 = strip_ref(chunk[0][2][0])
                ga = (body.blocks[chunk[0][3]]["term"].get("f") or {}).get("a") or []
                n_ = ga[1].get("v") if len(ga) > 1 and ga[1].get("k") == "const" else None
                if a0[0] == "path" and a0[1] == vx.root_name(1) and not a0[2] and isinstance(n_, int):
                    K = max(K, n_)
                    continue
                return None
            for x in calls:
                if x[1] in CONTRACTED or x[1] == "core::result::Result::<T, E>::map_err":
                    src = x
                    break
            if src is None:
                return None
            if src[1] == "core::result::Result::<T, E>::map_err":
                inner = strip_ref(src[2][0])
                if inner[0] == "call" and inner[1] == "core::convert::TryInto::try_into":
                    ga = inner[4]
                    tgt = ga[1] if len(ga) > 1 else ""
                    if tgt.startswith("[u8; ") and tgt[5:-1].isdigit():
                        n = int(tgt[5:-1])
                        L = len_of(pr, inner[2][0])
                        bb_ = src[3]
                        ok1, _ = pr.prove_nonneg(L.add(Lin(n), -1), bb_)
                        ok2, _ = pr.prove_nonneg(Lin(n).add(L, -1), bb_)
                        if ok1 and ok2:
                            continue
                return None
            # `?` on another decoder applied to the whole parameter slice
            a0 = strip_ref(src[2][0])
            if not (a0[0] == "path" and a0[1] == vx.root_name(1) and not a0[2]):
                return None
            ct = body.blocks[src[3]]["term"]
            res = (ct.get("f") or {}).get("res") or {}
            k2 = ok_when_len_ge(res.get("n"), crates, depth + 1, memo)
            if k2 is None:
                return None
            K = max(K, k2)
    memo[body_id] = K
    return K


def unwrap_of_decode_ok(pr, s, crates):
    """`<decoder>(&[a, b, ..]).unwrap()` on an array literal long enough for the decoder."""
    t = s["term"]
    arg = strip_ref(pr.vx.operand(t["args"][0], s["bb"]))
    if not (arg[0] == "call" and arg[1] in CONTRACTED):
        return None
    ct = pr.b.blocks[arg[3]]["term"]
    res = (ct.get("f") or {}).get("res") or {}
    if res.get("kind") != "item":
        return False, "decoder call is not resolvable"
    a0 = strip_ref(arg[2][0])
    while a0[0] == "cast":
        a0 = strip_ref(a0[1])
    if not (a0[0] == "agg" and a0[1] == "array"):
        return False, "decoder input is not an array literal"
    k = ok_when_len_ge(res["n"], crates)
    if k is None:
        return False, "could not establish that %s succeeds on long enough input" % res["n"]
    if len(a0[2]) >= k:
        return True, "%s returns Ok for every input of >= %d bytes; the array literal has %d" % (res["n"].rsplit("::", 2)[-2], k, len(a0[2]))
    return False, "array literal has %d bytes, decoder needs %d" % (len(a0[2]), k)
