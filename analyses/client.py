"""Helpers for the rules over the terminal client (zvt_feig_terminal)."""
from mirlite import callee, op_place, ty_str, feasible_reach
from flow import Tracer
from expr import Ex, show, walk, strip_ref

FEIG = "zvt_feig_terminal::feig::Feig::"
STREAM = "zvt_feig_terminal::stream::ResetSequence::"
HM = "std::collections::hash::map::HashMap::<K, V, S, A>::"
NEXT = "tokio_stream::stream_ext::StreamExt::next"
PLUMBING = ("core::future::", "core::pin::Pin", "core::fmt::", "log::", "core::mem::drop",
            "anyhow::kind::", "core::hint::", "alloc::fmt::")


class Fn:
    def __init__(self, crate, short, body_id=None):
        self.short = short
        bid = body_id or (FEIG + short + "::{closure#0}")
        self.body = crate.bodies.get(bid)
        self.outer = crate.bodies.get(FEIG + short)
        if self.body is None:
            raise KeyError("client function %s not found" % short)
        self.b = self.body
        self.tr = Tracer(self.b)
        self.ex = Ex(self.b, self.tr)
        self.reach = self.b.reachable(0)

    def param(self, k):
        """Name of the k-th parameter of the async fn (1 = self) - whatever the source calls it."""
        try:
            nm = self.outer.raw["locals"][k].get("name") if self.outer is not None else None
        except (IndexError, KeyError):
            nm = None
        return nm or "_%d" % k

    def sp(self, bb=None):
        if bb is None:
            return self.b.sp()
        return self.b.blocks[bb]["term"].get("sp")

    # ---- calls
    def calls(self, pred):
        out = []
        for bb, t in self.b.calls():
            n = callee(t)
            if pred(n, t):
                out.append((bb, t))
        return out

    def call_expr(self, t, bb):
        return ("call", callee(t), tuple(self.ex.operand(a) for a in t["args"]), bb)

    def traffic_calls(self):
        """Calls that talk (or may talk) to the terminal: starting a ResetSequence stream on
        self.socket, or invoking another async Feig method."""
        out = []
        for bb, t in self.b.calls():
            n = callee(t)
            if n.startswith(STREAM):
                out.append((bb, t, "stream"))
            elif n.startswith(FEIG) and n[len(FEIG):] not in ("new",):
                out.append((bb, t, "method"))
        return out

    def stream_calls(self):
        return [(bb, t) for bb, t, k in self.traffic_calls() if k == "stream"]

    def seq_of(self, t):
        """Sequence type of a ResetSequence::into_stream* call."""
        return ty_str(t["f"]["a"][0])

    # ---- return values
    def ret_writes(self):
        """(block, expression) of every definition of the return value.  A return value that is the result of an inlined
        helper (`self.helper().await` as the tail expression: `_0 = <the helper's return slot>`) is listed as the helper's
        own return definitions, at their blocks."""
        out = []

        def slot_defs(l, seen):
            # whole definitions of a local that is only a carrier of the result (several defs: Ok / Err / from_residual)
            ds = self.tr.defs.get(l, [])
            if l in seen or len(ds) < 2 or l <= self.b.raw["arg_count"]:
                return None
            res = []
            for d in ds:
                lhs = d[3]["p"] if d[2] == "assign" else (d[3]["dest"] if d[2] == "call" else None)
                if lhs is None or lhs["p"] or d[0] not in self.reach:
                    return None
                if d[2] == "assign":
                    res.extend(expand(d[0], self.ex.rvalue(d[3]["rv"]), seen | {l}))
                else:
                    res.append((d[0], self.call_expr(d[3], d[0])))
            return res

        def expand(bb, e, seen):
            # `Poll::Ready(slot).@Ready.0`, `slot`: look through to the slot's definitions
            x = e
            if x[0] == "proj" and x[1][0] == "agg" and len(x[1][2]) == 1 and tuple(x[2])[-1:] == ("0",) and len(x[2]) <= 2:
                x = x[1][2][0]
            if x[0] == "path" and not x[2] and isinstance(x[1], str) and x[1][:1] == "_" and x[1][1:].isdigit():
                sub = slot_defs(int(x[1][1:]), seen)
                if sub:
                    return sub
            if x[0] == "var" and len(x) > 2:
                sub = slot_defs(x[2], seen)
                if sub:
                    return sub
            return [(bb, e)]
        for i in sorted(self.reach):
            for st in self.b.blocks[i]["stmts"]:
                if st["s"] == "assign" and st["p"]["l"] == 0 and not st["p"]["p"]:
                    out.extend(expand(i, self.ex.rvalue(st["rv"]), set()))
            t = self.b.blocks[i]["term"]
            if t["t"] == "call" and t["dest"]["l"] == 0 and not t["dest"]["p"]:
                out.append((i, self.call_expr(t, i)))
        return [(bb, self._carriers(e)) for bb, e in out]

    def _carriers(self, e, depth=0, seen=frozenset()):
        """A result that travels through the return slot of an inlined helper before it is handed on (`helper().await?`):
        the slot (`_N`, several whole definitions, each an Ok/Err aggregate or the from_residual of a `?`) is shown as the
        alternatives it carries, so that "which call's failure is this" can be read off the expression."""
        if not isinstance(e, tuple) or not e or depth > 12:
            return e
        if e[0] == "path" and not e[2] and isinstance(e[1], str) and e[1][:1] == "_" and e[1][1:].isdigit():
            l = int(e[1][1:])
            ds = self.tr.defs.get(l, [])
            if l not in seen and len(ds) >= 2 and l > self.b.raw["arg_count"]:
                alts = []
                for d in ds:
                    lhs = d[3]["p"] if d[2] == "assign" else (d[3]["dest"] if d[2] == "call" else None)
                    if lhs is None or lhs["p"]:
                        return e
                    if d[2] == "assign" and d[3]["rv"]["r"] in ("agg", "use"):
                        # (`use`: the helper hands on another call's result as it is - `self.end_of_day().await` as its tail)
                        alts.append(self._carriers(self.ex.rvalue(d[3]["rv"]), depth + 1, seen | {l}))
                    elif d[2] == "call":
                        alts.append(self._carriers(self.call_expr(d[3], d[0]), depth + 1, seen | {l}))
                    else:
                        return e
                return ("agg", "one-of", tuple(alts), ())
            return e
        k = e[0]
        if k in ("call", "agg"):
            return (k, e[1], tuple(self._carriers(a, depth + 1, seen) for a in e[2])) + tuple(e[3:])
        if k in ("ref", "discr", "proj", "cast"):
            return (k, self._carriers(e[1], depth + 1, seen)) + tuple(e[2:])
        return e

    def hands_on(self, e, name):
        """the returned value *is* the (awaited) result of a call of `name` - `self.end_of_day().await` as the tail expression:
        its failure is the caller's failure without any `?`"""
        x = e
        for _ in range(12):
            if x[0] == "proj":
                x = x[1]
            elif x[0] == "agg" and len(x[2]) == 1 and str(x[1]).endswith(("Poll::Ready", "one-of")):
                x = x[2][0]
            elif x[0] == "ref":
                x = x[1]
            else:
                break
        if x[0] == "call" and x[1] == name:
            return True
        # through the future plumbing of an await: poll(pin(into_future(call)))
        if x[0] == "call" and (x[1].endswith(("Future::poll", "Pin::<Ptr>::new_unchecked", "IntoFuture::into_future")) or "Pin" in x[1]) and x[2]:
            return self.hands_on(x[2][0], name)
        return False

    def classify_ret(self, e):
        """'ok' | 'err' | 'propagate' (from_residual of a failed `?`) | 'ok_or' | '?'"""
        if e[0] == "agg" and e[1] == "core::result::Result::Ok":
            return "ok"
        if e[0] == "agg" and e[1] == "core::result::Result::Err":
            return "err"
        if e[0] == "call" and e[1].endswith("FromResidual::from_residual"):
            return "propagate"
        if e[0] == "call" and e[1].endswith("::ok_or"):
            return "ok_or"
        return "?"

    # ---- graph helpers
    def reach_from(self, start, cut_edges=(), cut_blocks=()):
        """Blocks reachable from `start` (edges / blocks removed).  Bool temporaries set to constants on the
        way (`matches!`, `let flag = ..`) are followed path-sensitively, so a test routed through a flag counts
        like the test itself."""
        return feasible_reach(self.b, start, cut_edges=cut_edges, cut_blocks=cut_blocks)

    def edge_dominates(self, edge, target):
        """Every path entry -> target uses the edge."""
        return target not in self.reach_from(0, cut_edges=[edge]) and target in self.reach

    def switch_edges(self, bb):
        t = self.b.blocks[bb]["term"]
        assert t["t"] == "switch"
        out = {}
        for v, tb in t["targets"]:
            out[v] = tb
        out["else"] = t["else"]
        return out

    def bool_switches(self, pred):
        """Switches whose discriminant expression satisfies pred -> list of
        (bb, expr, true_target, false_target)."""
        out = []
        for i in sorted(self.reach):
            t = self.b.blocks[i]["term"]
            if t["t"] != "switch":
                continue
            e = self.ex.operand(t["d"])
            if pred(e):
                ed = self.switch_edges(i)
                out.append((i, e, ed["else"], ed.get(0)))
        return out

    def contains_agg(self, e, name):
        return any(x[0] == "agg" and x[1] == name for x in walk(e))

    def find(self, e, pred):
        return [x for x in walk(e) if pred(x)]


def is_call(e, suffix):
    e2 = strip_ref(e)
    return e2[0] == "call" and e2[1].endswith(suffix)


def mentions_path(e, root, fields):
    for x in walk(e):
        if x[0] == "path" and x[1] == root and tuple(x[2][:len(fields)]) == tuple(fields):
            return True
    return False


def config_field(e, *fields):
    """Is e (through refs/casts) `TcpStream::config(&self.socket).<fields>`?"""
    e = strip_ref(e)
    while e[0] == "cast":
        e = strip_ref(e[1])
    if e[0] == "proj" and tuple(e[2]) == tuple(fields):
        c = strip_ref(e[1])
        return c[0] == "call" and c[1] == "zvt_feig_terminal::stream::TcpStream::config"
    # a parameter / local of type Config, whatever it is called: the field chain identifies it (`feig_config` is a field
    # of Config only)
    if e[0] == "path" and tuple(e[2]) == tuple(fields) and fields and fields[0] == "feig_config":
        return True
    return False


def variant_switches(f, adts):
    """Switches on the discriminant of a reply-enum value: list of
    (bb, enum, {variant: target}, else_target, place_expr)."""
    out = []
    for i in sorted(f.reach):
        t = f.b.blocks[i]["term"]
        if t["t"] != "switch":
            continue
        v = f.tr.value(t["d"])
        if v.kind != "rv" or v.rv["r"] != "discr":
            continue
        ty = v.rv["of"]
        if not ty or ty.get("k") != "adt" or ty["n"] not in adts or adts[ty["n"]]["kind"] != "enum":
            continue
        adt = adts[ty["n"]]
        names = {vv.get("discr", idx): vv["name"] for idx, vv in enumerate(adt["variants"])}
        m = {}
        for val, tb in t["targets"]:
            m[names.get(val, "?%d" % val)] = tb
        rest = [n for n in names.values() if n not in m]
        out.append((i, ty["n"], m, t["else"], rest, f.ex.place(f.tr.nplace(v.rv["p"]))))
    return out


def follow(f, bb):
    """Skip falseEdge / empty goto blocks."""
    seen = set()
    while bb not in seen:
        seen.add(bb)
        t = f.b.blocks[bb]["term"]
        if t["t"] == "falseedge" or (t["t"] == "goto" and not f.b.blocks[bb]["stmts"]):
            bb = t["to"]
        else:
            break
    return bb


def emptiness_switches(f, is_collection, len_suffixes=("::len",), empty_suffixes=("::is_empty",)):
    """Switches that test whether a collection is empty, in any spelling:
    `c.is_empty()`, `c.len() == 0`, `0 == c.len()`, `c.len() != 0`, `c.len() > 0`, `c.len() >= 1`, `c.len() < 1`.
    is_collection(expr) recognises the receiver.  -> [(bb, expr, empty_target, nonempty_target)]"""
    out = []
    for i in sorted(f.reach):
        t = f.b.blocks[i]["term"]
        if t["t"] != "switch":
            continue
        e = f.ex.operand(t["d"])
        ed = f.switch_edges(i)
        true_t, false_t = ed["else"], ed.get(0)
        e2 = strip_ref(e)
        if e2[0] == "call" and e2[1].endswith(empty_suffixes) and e2[2] and is_collection(e2[2][0]):
            out.append((i, e, true_t, false_t))
            continue
        if e2[0] == "bin" and e2[1] in ("Eq", "Ne", "Gt", "Ge", "Lt", "Le"):
            op, a, b = e2[1], strip_ref(e2[2]), strip_ref(e2[3])

            def coll_of(x):
                # the collection behind a slice view of it (`v.as_slice()`, `&v[..]`, `&*v`)
                x = strip_ref(x)
                while x[0] == "call" and x[2] and x[1].endswith(("::as_slice", "Deref::deref", "AsRef::as_ref", "::as_mut_slice")):
                    x = strip_ref(x[2][0])
                return x

            def is_len(x):
                if x[0] == "call" and x[1].endswith(len_suffixes) and x[2] and (is_collection(x[2][0]) or is_collection(coll_of(x[2][0]))):
                    return True
                # slice patterns (`[first, ..]`, `[]`) test the length of the slice in place
                return x[0] == "un" and x[1] == "PtrMetadata" and is_collection(coll_of(x[2]))
            if is_len(b) and a[0] == "const":
                a, b = b, a
                op = {"Gt": "Lt", "Ge": "Le", "Lt": "Gt", "Le": "Ge"}.get(op, op)
            if is_len(a) and b[0] == "const" and isinstance(b[1], int):
                n = b[1]
                if (op, n) in (("Eq", 0), ("Lt", 1), ("Le", 0)):
                    out.append((i, e, true_t, false_t))
                elif (op, n) in (("Ne", 0), ("Gt", 0), ("Ge", 1)):
                    out.append((i, e, false_t, true_t))
    return out


def option_switches(f, pred):
    """Switches that distinguish Some from None of an Option-valued expression X with pred(X):
    `X.is_some()`, `X.is_none()`, and `match X` / `if let Some(..) = X` / `let Some(..) = X else`.
    -> [(bb, X, some_target, none_target)]"""
    out = []
    for i in sorted(f.reach):
        t = f.b.blocks[i]["term"]
        if t["t"] != "switch":
            continue
        e = strip_ref(f.ex.operand(t["d"]))
        ed = f.switch_edges(i)
        if e[0] == "call" and e[1].endswith("Option::<T>::is_some") and pred(e[2][0]):
            out.append((i, e[2][0], ed["else"], ed.get(0)))
        elif e[0] == "call" and e[1].endswith("Option::<T>::is_none") and pred(e[2][0]):
            out.append((i, e[2][0], ed.get(0), ed["else"]))
        elif e[0] == "discr" and pred(e[1]):
            v = f.tr.value(t["d"])
            if v.kind == "rv" and v.rv["r"] == "discr" and ty_str(v.rv["of"]).startswith("core::option::Option<"):
                out.append((i, e[1], ed[1] if 1 in ed else ed["else"], ed[0] if 0 in ed else ed["else"]))
    return out
