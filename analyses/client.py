"""Helpers for the rules over the terminal client (zvt_feig_terminal)."""
from mirlite import callee, op_place, ty_str
from flow import Tracer
from expr import Ex, show, walk, strip_ref

FEIG = "zvt_feig_terminal::feig::Feig::"
STREAM = "zvt_feig_terminal::stream::ResetSequence::"
HM = "std::collections::hash::map::HashMap::<K, V, S, A>::"
NEXT = "tokio_stream::stream_ext::StreamExt::next"
PLUMBING = ("core::future::", "core::pin::Pin", "core::fmt::", "log::", "core::mem::drop",
            "anyhow::kind::", "core::hint::", "alloc::fmt::")


class Fn:
    def __init__(self, crate, short, body_id=None):
        self.short = short
        bid = body_id or (FEIG + short + "::{closure#0}")
        self.body = crate.bodies.get(bid)
        self.outer = crate.bodies.get(FEIG + short)
        if self.body is None:
            raise KeyError("client function %s not found" % short)
        self.b = self.body
        self.tr = Tracer(self.b)
        self.ex = Ex(self.b, self.tr)
        self.reach = self.b.reachable(0)

    def sp(self, bb=None):
        if bb is None:
            return self.b.sp()
        return self.b.blocks[bb]["term"].get("sp")

    # ---- calls
    def calls(self, pred):
        out = []
        for bb, t in self.b.calls():
            n = callee(t)
            if pred(n, t):
                out.append((bb, t))
        return out

    def call_expr(self, t, bb):
        return ("call", callee(t), tuple(self.ex.operand(a) for a in t["args"]), bb)

    def traffic_calls(self):
        """Calls that talk (or may talk) to the terminal: starting a ResetSequence stream on
        self.socket, or invoking another async Feig method."""
        out = []
        for bb, t in self.b.calls():
            n = callee(t)
            if n.startswith(STREAM):
                out.append((bb, t, "stream"))
            elif n.startswith(FEIG) and n[len(FEIG):] not in ("new",):
                out.append((bb, t, "method"))
        return out

    def stream_calls(self):
        return [(bb, t) for bb, t, k in self.traffic_calls() if k == "stream"]

    def seq_of(self, t):
        """Sequence type of a ResetSequence::into_stream* call."""
        return ty_str(t["f"]["a"][0])

    # ---- return values
    def ret_writes(self):
        out = []
        for i in sorted(self.reach):
            for st in self.b.blocks[i]["stmts"]:
                if st["s"] == "assign" and st["p"]["l"] == 0 and not st["p"]["p"]:
                    out.append((i, self.ex.rvalue(st["rv"])))
            t = self.b.blocks[i]["term"]
            if t["t"] == "call" and t["dest"]["l"] == 0 and not t["dest"]["p"]:
                out.append((i, self.call_expr(t, i)))
        return out

    def classify_ret(self, e):
        """'ok' | 'err' | 'propagate' (from_residual of a failed `?`) | 'ok_or' | '?'"""
        if e[0] == "agg" and e[1] == "core::result::Result::Ok":
            return "ok"
        if e[0] == "agg" and e[1] == "core::result::Result::Err":
            return "err"
        if e[0] == "call" and e[1].endswith("FromResidual::from_residual"):
            return "propagate"
        if e[0] == "call" and e[1].endswith("::ok_or"):
            return "ok_or"
        return "?"

    # ---- graph helpers
    def reach_from(self, start, cut_edges=(), cut_blocks=()):
        cut_edges = set(cut_edges)
        cut_blocks = set(cut_blocks)
        seen = set()
        st = [start]
        while st:
            x = st.pop()
            if x in seen or x in cut_blocks:
                continue
            seen.add(x)
            for s in self.b.succ[x]:
                if (x, s) not in cut_edges:
                    st.append(s)
        return seen

    def edge_dominates(self, edge, target):
        """Every path entry -> target uses the edge."""
        return target not in self.reach_from(0, cut_edges=[edge]) and target in self.reach

    def switch_edges(self, bb):
        t = self.b.blocks[bb]["term"]
        assert t["t"] == "switch"
        out = {}
        for v, tb in t["targets"]:
            out[v] = tb
        out["else"] = t["else"]
        return out

    def bool_switches(self, pred):
        """Switches whose discriminant expression satisfies pred -> list of
        (bb, expr, true_target, false_target)."""
        out = []
        for i in sorted(self.reach):
            t = self.b.blocks[i]["term"]
            if t["t"] != "switch":
                continue
            e = self.ex.operand(t["d"])
            if pred(e):
                ed = self.switch_edges(i)
                out.append((i, e, ed["else"], ed.get(0)))
        return out

    def contains_agg(self, e, name):
        return any(x[0] == "agg" and x[1] == name for x in walk(e))

    def find(self, e, pred):
        return [x for x in walk(e) if pred(x)]


def is_call(e, suffix):
    e2 = strip_ref(e)
    return e2[0] == "call" and e2[1].endswith(suffix)


def mentions_path(e, root, fields):
    for x in walk(e):
        if x[0] == "path" and x[1] == root and tuple(x[2][:len(fields)]) == tuple(fields):
            return True
    return False


def config_field(e, *fields):
    """Is e (through refs/casts) `TcpStream::config(&self.socket).<fields>`?"""
    e = strip_ref(e)
    while e[0] == "cast":
        e = strip_ref(e[1])
    if e[0] == "proj" and tuple(e[2]) == tuple(fields):
        c = strip_ref(e[1])
        return c[0] == "call" and c[1] == "zvt_feig_terminal::stream::TcpStream::config"
    if e[0] == "path" and e[1] == "config" and tuple(e[2]) == tuple(fields):
        return True
    return False


def variant_switches(f, adts):
    """Switches on the discriminant of a reply-enum value: list of
    (bb, enum, {variant: target}, else_target, place_expr)."""
    out = []
    for i in sorted(f.reach):
        t = f.b.blocks[i]["term"]
        if t["t"] != "switch":
            continue
        v = f.tr.value(t["d"])
        if v.kind != "rv" or v.rv["r"] != "discr":
            continue
        ty = v.rv["of"]
        if not ty or ty.get("k") != "adt" or ty["n"] not in adts or adts[ty["n"]]["kind"] != "enum":
            continue
        adt = adts[ty["n"]]
        names = {vv.get("discr", idx): vv["name"] for idx, vv in enumerate(adt["variants"])}
        m = {}
        for val, tb in t["targets"]:
            m[names.get(val, "?%d" % val)] = tb
        rest = [n for n in names.values() if n not in m]
        out.append((i, ty["n"], m, t["else"], rest, f.ex.place(f.tr.nplace(v.rv["p"]))))
    return out


def follow(f, bb):
    """Skip falseEdge / empty goto blocks."""
    seen = set()
    while bb not in seen:
        seen.add(bb)
        t = f.b.blocks[bb]["term"]
        if t["t"] == "falseedge" or (t["t"] == "goto" and not f.b.blocks[bb]["stmts"]):
            bb = t["to"]
        else:
            break
    return bb
