"""C15 — replies are dispatched solely by their class and instruction bytes."""
from mirlite import ty_str, callee, op_place, callee_res
from flow import Tracer, NPlace

LEVEL = "proof"
EXPLANATION = (
    "Decision-tree extraction from the MIR of every ZvtParser::zvt_parse impl (derive(ZvtEnum) output). The "
    "body is loop-free; all paths are enumerated symbolically over the two header bytes b0=bytes[0], "
    "b1=bytes[1] and the guard len<2. Every path condition is a box (value | complement set) per byte, so the "
    "leaves partition all 65,536 control fields by construction - coverage is a set computation, not an "
    "enumeration of inputs. Obligations: each leaf that constructs variant V has path condition exactly the "
    "single point (CLASS, INSTR) const-evaluated from V's payload type, decodes the *whole* input with that "
    "payload type's own zvt_deserialize and wraps component 0 of its Ok result in V; every other point of the "
    "domain and every short input leads to Err; decode failure propagates as Err; each variant is reachable; "
    "the (enum, variant, control field) table equals spec/replies.json.")
RULE = ("per enum: leaves(V) == {(CLASS_V, INSTR_V)}; leaf action = V(zvt_deserialize::<Payload_V>(bytes)?.0); "
        "complement -> Err; len<2 -> Err; variants pairwise distinct and all reachable; table == spec.")

PARSER = "zvt_builder::ZvtParser"


def _accessor_of(tr, l, fields):
    """(k, call term) when local l - or, for a tuple `(a.first(), a.get(1))`, its component `fields` - is the Option that
    `bytes.first()` (k = 0) / `bytes.get(k)` of parameter 1 returned"""
    d = tr.single_def(l)
    for _ in range(4):
        if d is None:
            return None
        if d[2] == "assign" and d[3]["rv"]["r"] == "agg" and d[3]["rv"]["kind"] == "tuple" and len(fields) >= 1 and \
                fields[0] < len(d[3]["rv"]["ops"]):
            q = op_place(d[3]["rv"]["ops"][fields[0]])
            if q is None or q["p"]:
                return None
            fields = fields[1:]
            d = tr.single_def(q["l"])
            continue
        if d[2] == "assign" and d[3]["rv"]["r"] == "use" and not d[3]["p"]["p"]:
            q = op_place(d[3]["rv"]["o"])
            if q is None or q["p"]:
                return None
            d = tr.single_def(q["l"])
            continue
        break
    if d is None or d[2] != "call" or fields:
        return None
    n = callee(d[3])
    if not n.endswith(("<impl [T]>::first", "<impl [T]>::get")) or not d[3]["args"]:
        return None
    s_ = tr.value(d[3]["args"][0])
    if not ((s_.kind == "ref" and s_.place.strip_deref() == NPlace(1, [])) or (s_.kind == "place" and s_.place.strip_deref() == NPlace(1, []))):
        return None
    if n.endswith("::first"):
        return (0, d[3])
    k = tr.const_int(d[3]["args"][1]) if len(d[3]["args"]) == 2 else None
    return (k, d[3]) if isinstance(k, int) else None


def byte_index(tr, body, operand, depth=0):
    """i if the operand denotes bytes[i] of parameter 1 (through tuples / copies)."""
    if depth > 6:
        return None
    p = op_place(operand)
    if p is None:
        return None
    np = tr.nplace(p)
    # `*(opt as Some).0` with opt = bytes.first() / bytes.get(k), possibly a component of a tuple of such options
    pj = [e for e in np.p if e != "deref"]
    if np.l != 1 and len(pj) >= 2 and isinstance(pj[-1], tuple) and pj[-1][0] == "f" and pj[-1][1] == 0 and \
            isinstance(pj[-2], tuple) and pj[-2][0] in ("dc", "variant") and all(isinstance(e, tuple) and e[0] == "f" for e in pj[:-2]):
        acc = _accessor_of(tr, np.l, [e[1] for e in pj[:-2]])
        if acc is not None:
            return acc[0]
    # direct index projection
    if np.l == 1:
        idx = [e for e in np.p if isinstance(e, tuple) and e[0] in ("idx", "cidx")]
        if len(idx) == 1 and all(e == "deref" or e in idx for e in np.p):
            e = idx[0]
            if e[0] == "cidx":
                return e[1] if not e[2] else None
            d = tr.single_def(e[1])
            if d and d[2] == "assign" and d[3]["rv"]["r"] == "use" and "k" in d[3]["rv"]["o"]:
                return d[3]["rv"]["o"]["k"].get("v")
        return None
    # `let Some(&[a, b]) = bytes.first_chunk::<2>()`: element i of the chunk is bytes[i]
    d0 = tr.single_def(np.l)
    if d0 is not None and d0[2] == "call" and callee(d0[3]).endswith(("<impl [T]>::first_chunk", "<impl [T]>::split_first_chunk")):
        s_ = tr.value(d0[3]["args"][0])
        on_input = (s_.kind == "ref" and s_.place.strip_deref() == NPlace(1, [])) or \
            (s_.kind == "place" and s_.place.strip_deref() == NPlace(1, []))
        idx = [e for e in np.p if isinstance(e, tuple) and e[0] == "cidx"]
        flds = [e for e in np.p if isinstance(e, tuple) and e[0] == "f"]
        is_split = callee(d0[3]).endswith("split_first_chunk")
        # first_chunk: (opt as Some).0 -> &[T; N];  split_first_chunk: (opt as Some).0.0 -> &[T; N]
        if on_input and len(idx) == 1 and not idx[0][2] and [f_[1] for f_ in flds] == ([0, 0] if is_split else [0]):
            return idx[0][1]
        return None
    d = tr.single_def(np.l)
    if d is None or d[2] != "assign":
        return None
    rv = d[3]["rv"]
    fields = [e[1] for e in np.p if isinstance(e, tuple) and e[0] == "f"]
    if rv["r"] == "agg" and rv["kind"] == "tuple" and len(fields) == 1 and fields[0] < len(rv["ops"]):
        return byte_index(tr, body, rv["ops"][fields[0]], depth + 1)
    if rv["r"] == "use" and not np.p:
        return byte_index(tr, body, rv["o"], depth + 1)
    return None


def len_test(tr, body, operand):
    """(M, true_means_short) if operand is a comparison of len(bytes) (bytes = param 1) with a constant,
    normalised so that the operand is true iff `len < M` (true_means_short) or iff `len >= M`."""
    v = tr.value(operand)
    # `bytes.first_chunk::<M>()` is Some exactly when len >= M: its discriminant (Some = 1) is that test
    if v.kind == "rv" and v.rv["r"] == "discr":
        # `bytes.get(k)` / `bytes.first()` is Some exactly when len >= k + 1
        dp = tr.nplace(v.rv["p"])
        pj_ = [e for e in dp.p if e != "deref"]
        if all(isinstance(e, tuple) and e[0] == "f" for e in pj_):
            acc = _accessor_of(tr, dp.l, [e[1] for e in pj_])
            if acc is not None:
                return (acc[0] + 1, False)
        src = tr.value({"c": v.rv["p"]})
        if src.kind == "call" and callee(src.term).endswith(("<impl [T]>::first_chunk", "<impl [T]>::split_first_chunk")):
            s_ = tr.value(src.term["args"][0])
            on_input = (s_.kind == "ref" and s_.place.strip_deref() == NPlace(1, [])) or \
                (s_.kind == "place" and s_.place.strip_deref() == NPlace(1, []))
            ns = [int(str(g.get("v", g.get("s", "")))) for g in (src.term.get("f") or {}).get("a", [])
                  if isinstance(g, dict) and str(g.get("v", g.get("s", ""))).isdigit()]
            if on_input and len(ns) == 1:
                return (ns[0], False)
        return None
    if not (v.kind == "rv" and v.rv["r"] == "bin" and v.rv["op"] in ("Lt", "Le", "Gt", "Ge")):
        return None

    def is_len(o):
        a = tr.value(o)
        if a.kind == "call" and callee(a.term) == "core::slice::<impl [T]>::len":
            s = tr.value(a.term["args"][0])
            return s.kind == "ref" and s.place.strip_deref() == NPlace(1, [])
        # slice patterns test the length through PtrMetadata(bytes)
        if a.kind == "rv" and a.rv["r"] == "un" and a.rv.get("op") == "PtrMetadata":
            s = tr.value(a.rv["a"])
            if s.kind == "place" and s.place.strip_deref() == NPlace(1, []):
                return True
            p_ = op_place(a.rv["a"])
            return p_ is not None and tr.nplace(p_).strip_deref() == NPlace(1, [])
        return False
    op = v.rv["op"]
    if is_len(v.rv["a"]):
        n = tr.const_int(v.rv["b"])
    elif is_len(v.rv["b"]):
        n = tr.const_int(v.rv["a"])
        op = {"Lt": "Gt", "Le": "Ge", "Gt": "Lt", "Ge": "Le"}[op]      # n OP len  ==  len OP' n
    else:
        return None
    if n is None:
        return None
    return {"Lt": (n, True), "Le": (n + 1, True), "Ge": (n, False), "Gt": (n + 1, False)}[op]


class Box:
    def __init__(self):
        self.eq = {0: None, 1: None}
        self.ne = {0: set(), 1: set()}
        self.short = None  # True: len < 2, False: len >= 2

    def copy(self):
        b = Box()
        b.eq = dict(self.eq)
        b.ne = {k: set(v) for k, v in self.ne.items()}
        b.short = self.short
        return b

    def size(self):
        n = 1
        for i in (0, 1):
            n *= 1 if self.eq[i] is not None else 256 - len(self.ne[i])
        return n

    def desc(self):
        def one(i):
            if self.eq[i] is not None:
                return "%02X" % self.eq[i]
            if not self.ne[i]:
                return "**"
            return "!{" + ",".join("%02X" % x for x in sorted(self.ne[i])) + "}"
        return ("short" if self.short else one(0) + " " + one(1))


def enumerate_leaves(body, tr):
    """DFS over the loop-free CFG.  Returns list of (Box, events) where events is the list of
    (bb, kind, payload) seen along the path: deser calls, variant constructions, ret writes."""
    leaves = []
    limit = [0]

    def events_of(bb):
        ev = []
        for st in body.blocks[bb]["stmts"]:
            if st["s"] == "assign" and st["rv"]["r"] == "agg" and st["rv"]["kind"] == "adt":
                ev.append((bb, "agg", st))
        t = body.blocks[bb]["term"]
        if t["t"] == "call":
            ev.append((bb, "call", t))
        return ev

    def go(bb, box, evs, depth):
        limit[0] += 1
        if limit[0] > 20000 or depth > 400:
            raise RuntimeError("path explosion")
        evs = evs + events_of(bb)
        t = body.blocks[bb]["term"]
        k = t["t"]
        if k == "return":
            leaves.append((box, evs))
            return
        if k == "unreachable":
            return
        if k == "switch":
            lt = len_test(tr, body, t["d"])
            if lt is not None and lt[0] == 2:
                true_means_short = lt[1]
                for v, tb in t["targets"]:
                    b2 = box.copy()
                    cond = (v != 0)
                    b2.short = cond if true_means_short else not cond
                    if box.short is None or box.short == b2.short:
                        go(tb, b2, evs, depth + 1)
                b2 = box.copy()
                # the fall-through edge stands for "true" when 0 is listed, for 0 (false / None) when it is not
                else_cond = any(v == 0 for v, _ in t["targets"])
                b2.short = else_cond if true_means_short else not else_cond
                if box.short is None or box.short == b2.short:
                    go(t["else"], b2, evs, depth + 1)
                return
            if lt is not None and lt[0] == 1:
                # a test of `len >= 1` (`bytes.first()` is Some): its negative edge is a short input; the positive edge
                # says nothing about the second byte yet
                true_means_short = lt[1]
                edges = [(v != 0, tb) for v, tb in t["targets"]] + [(any(v == 0 for v, _ in t["targets"]), t["else"])]
                for cond, tb in edges:
                    if body.blocks[tb]["term"]["t"] == "unreachable":
                        continue
                    is_short = cond if true_means_short else not cond
                    b2 = box.copy()
                    if is_short:
                        if box.short is False:
                            continue
                        b2.short = True
                    go(tb, b2, evs, depth + 1)
                return
            i = byte_index(tr, body, t["d"])
            if i in (0, 1):
                vals = []
                for v, tb in t["targets"]:
                    vals.append(v)
                    if box.eq[i] is not None and box.eq[i] != v:
                        continue
                    if v in box.ne[i]:
                        continue
                    b2 = box.copy()
                    b2.eq[i] = v
                    go(tb, b2, evs, depth + 1)
                if box.eq[i] is None:
                    b2 = box.copy()
                    b2.ne[i] |= set(vals)
                    go(t["else"], b2, evs, depth + 1)
                elif box.eq[i] not in vals:
                    go(t["else"], box.copy(), evs, depth + 1)
                return
            # other switches (Try::branch discriminants, ...) : explore all edges
            seen = set()
            for v, tb in t["targets"]:
                if tb not in seen:
                    seen.add(tb)
                    go(tb, box.copy(), evs + [(bb, "edge", v)], depth + 1)
            if t["else"] not in seen and body.blocks[t["else"]]["term"]["t"] != "unreachable":
                go(t["else"], box.copy(), evs + [(bb, "edge", "else")], depth + 1)
            return
        for s in body.succ[bb]:
            go(s, box, evs, depth + 1)

    go(0, Box(), [], 0)
    return leaves



def total(ctx, chk):
    """A reply parser maps every input to a variant or an error: no panic site in any zvt_parse body (the C02-a/b site
    discharge restricted to the parsers) - `bytes[3]` in a fallback arm would turn one control field into a crash."""
    import rules_c02
    from report import Sub
    sub = Sub(chk, "C15/total", lambda r: r in ("C15p-a/no-panic", "C15p-b/no-wrap", "C15p-b/no-truncation"))
    # the parsers and what they call besides the payload decoders (helpers that build the error for the fallback arm ...)
    from mirlite import callee_res
    crates = [ctx.crate("zvt_builder"), ctx.crate("zvt")]
    by_id = {}
    for c in crates:
        by_id.update(c.bodies)
    roots = [b for b in by_id.values() if b.raw.get("name") == "zvt_parse" and b.raw.get("impl_trait") == PARSER]
    reach, work = set(), list(roots)
    while work:
        b = work.pop()
        if b.id in reach:
            continue
        reach.add(b.id)
        for _, t_ in b.calls():
            n = callee_res(t_)
            cb = by_id.get(n)
            # payload decoding is C02's own subject (and the parsers' leaf-action rule says which decoder is called)
            if cb is not None and cb.raw.get("name") not in ("zvt_deserialize", "deserialize_tagged", "decode", "deserialize"):
                work.append(cb)
        for cb in by_id.values():
            if cb.raw.get("parent") == b.id:
                work.append(cb)
    rules_c02.run(ctx, sub, only=lambda b: b.id in reach, prop="C15p")
    chk.analysed["parser_sites_discharged"] = sub.count

def run(ctx, chk):
    total(ctx, chk)
    zvt = ctx.crate("zvt")
    spec = ctx.spec("replies.json")
    cmds = {}
    for im in zvt.impls:
        if im.get("trait") == "zvt_builder::ZvtCommand":
            c = {x["name"]: x.get("v") for x in im["consts"]}
            cmds[ty_str(im["self"])] = (c.get("CLASS"), c.get("INSTR"))
    parsers = [b for b in zvt.bodies.values() if b.raw.get("impl_trait") == PARSER and b.raw.get("name") == "zvt_parse"
               and b.raw["defkind"] == "AssocFn"]
    chk.analysed["reply_enums"] = len(parsers)
    n_leaves = 0
    seen_enums = set()
    for b in sorted(parsers, key=lambda x: x.id):
        ename = ty_str(b.raw["impl_self"])
        seen_enums.add(ename)
        adt = zvt.adts.get(ename)
        site = b.sp()
        if adt is None or adt["kind"] != "enum":
            chk.fail("C15/enum", ename, "ZvtParser implemented for something that is not a local enum", site)
            continue
        variants = {v["name"]: (ty_str(v["fields"][0]["ty"]) if len(v["fields"]) == 1 else None)
                    for v in adt["variants"]}
        if not chk.require(not b.back_edges(), "C15/loop-free", ename, "parser body contains a loop", "", site,
                           nontrivial=False):
            continue
        tr = Tracer(b)
        try:
            leaves = enumerate_leaves(b, tr)
        except RuntimeError as e:
            chk.fail("C15/shape", ename, "decision tree not extractable: %s" % e, site)
            continue
        made = {}       # variant -> list of boxes
        total_err = 0
        covered = 0
        counted_boxes = set()
        for box, evs in leaves:
            n_leaves += 1
            # classify the leaf by the last write to _0
            ret = None
            for (bb, kind, x) in evs:
                if kind == "agg" and x["p"]["l"] == 0 and x["rv"]["n"] == "core::result::Result":
                    ret = ("Ok" if x["rv"]["vname"] == "Ok" else "Err", x)
                if kind == "call" and x["dest"]["l"] == 0:
                    ret = ("Err" if "from_residual" in callee(x) else "Call", x)
            inst = "%s [%s]" % (ename, box.desc())
            if box.short:
                chk.require(ret is not None and ret[0] == "Err", "C15/short-input", inst,
                            "an input shorter than two bytes does not lead to an error", "Err", site)
                continue
            if box.short is None:
                chk.fail("C15/guard", inst, "header bytes are read on a path that never tested len >= 2", site)
                continue
            if ret is None:
                chk.fail("C15/leaf", inst, "path returns without writing a result", site)
                continue
            if ret[0] == "Err":
                total_err += box.size()
                if box.desc() not in counted_boxes:
                    counted_boxes.add(box.desc())
                    covered += box.size()
                # an Err leaf after a successful decode of the right type is fine (it is the `?`)
                chk.ok("C15/err-leaf", inst, "%d control field(s) -> Err" % box.size(), site, nontrivial=False)
                continue
            if ret[0] != "Ok":
                chk.fail("C15/leaf", inst, "unrecognised result construction", site)
                continue
            if box.desc() not in counted_boxes:
                counted_boxes.add(box.desc())
                covered += box.size()
            # Ok leaf: which variant, from which decode?
            okv = tr.value(ret[1]["rv"]["ops"][0])
            if not (okv.kind == "agg" and okv.rv["kind"] == "adt" and okv.rv["n"] == ename):
                chk.fail("C15/leaf", inst, "Ok(..) does not wrap a freshly constructed variant of the enum", site)
                continue
            vname = okv.rv["vname"]
            payload_ty = variants.get(vname)
            made.setdefault(vname, []).append(box)
            cf = cmds.get(payload_ty)
            point = box.eq[0] is not None and box.eq[1] is not None
            chk.require(point and cf == (box.eq[0], box.eq[1]), "C15/leaf-condition", "%s::%s" % (ename, vname),
                        "variant %s (payload %s, control field %s) is returned for control fields [%s]"
                        % (vname, payload_ty, "%02X %02X" % cf if cf and None not in cf else cf, box.desc()),
                        "only for %s" % box.desc(), site)
            # payload derives from zvt_deserialize::<payload_ty>(bytes) Ok component 0
            deser = [x for (bb, kind, x) in evs if kind == "call" and
                     callee(x) == "zvt_builder::ZvtSerializer::zvt_deserialize"]
            good = False
            why = "no zvt_deserialize call on the path"
            if len(deser) == 1:
                d = deser[0]
                dty = ty_str(d["f"]["a"][0])
                arg = tr.value(d["args"][0])
                whole = arg.kind == "ref" and arg.place.strip_deref() == NPlace(1, [])
                srcs = tr.sources(okv.rv["ops"][0], through_calls=lambda n, t: n == "core::ops::try_trait::Try::branch")
                from_call = any(s[0] == "call" and s[1] == "zvt_builder::ZvtSerializer::zvt_deserialize" for s in srcs) \
                    and not any(s[0] == "call" and s[1] != "zvt_builder::ZvtSerializer::zvt_deserialize" for s in srcs)
                pl = tr.nplace(op_place(okv.rv["ops"][0])) if op_place(okv.rv["ops"][0]) else None
                comp0 = pl is not None and [e[1] for e in pl.p if isinstance(e, tuple) and e[0] == "f"][-1:] == [0]
                good = dty == payload_ty and whole and from_call and comp0
                why = "decodes %s from %s, component0=%s" % (dty, "the whole input" if whole else "a different slice", comp0)
            elif len(deser) > 1:
                why = "%d decode calls on one path" % len(deser)
            chk.require(good, "C15/leaf-action", "%s::%s" % (ename, vname),
                        "variant content is not exactly what %s decodes on its own from the whole input: %s"
                        % (payload_ty, why), "V(zvt_deserialize::<%s>(bytes)?.0)" % payload_ty, site)
        chk.require(covered == 65536, "C15/partition", ename,
                    "leaves cover %d of 65536 control fields" % covered, "65536 control fields partitioned", site)
        for vname, pty in variants.items():
            chk.require(vname in made, "C15/variant-reachable", "%s::%s" % (ename, vname),
                        "variant is never produced (its control field %s collides with another variant?)"
                        % (cmds.get(pty),), "reachable", site)
        cfs = [cmds.get(p) for p in variants.values()]
        chk.require(len(set(cfs)) == len(cfs), "C15/distinct", ename,
                    "two variants share a control field: %s" % cfs, "%d distinct control fields" % len(cfs), site)
        # spec table
        want = spec.get(ename)
        got = {v: list(cmds.get(p) or []) for v, p in variants.items()}
        if want is None:
            chk.note("enum %s not in spec/replies.json (dispatch checked, table not)" % ename)
        else:
            chk.require(got == want["variants"], "C15/table", ename,
                        "reply table is %s, specification table says %s" % (got, want["variants"]),
                        "table agrees", site)
    # per command: the reply set (by control fields) of the enum its sequence parses is the one the specification lists for
    # it - under whatever name that enum goes (two commands with the same reply set may share one enum; a command that is
    # given a wider enum accepts a reply outside its set)
    import seqcheck
    seq_spec = ctx.spec("sequences.json")
    seqs, _ = seqcheck.sequences(zvt)
    served = set()
    n_seq = 0
    for sname, sp_ in sorted(seq_spec.items()):
        if sname.startswith("_"):
            continue
        ent = seqs.get(sname)
        if ent is None:
            continue
        out = ent["output"]
        adt = zvt.adts.get(out)
        want = spec.get(sp_["output"], {}).get("variants")
        if adt is None or want is None:
            continue
        got = sorted(tuple(cmds.get(ty_str(v["fields"][0]["ty"])) or ()) for v in adt["variants"] if len(v.get("fields", [])) == 1)
        n_seq += 1 if out in seen_enums else 0
        served.add(sp_["output"])
        chk.require(got == sorted(map(tuple, want.values())) and out in seen_enums, "C15/reply-set", sname,
                    "the sequence parses %s with control fields %s; the specification lists %s for this command"
                    % (out, got, sorted(map(tuple, want.values()))), "reply set agrees", ent.get("sp"))
    # ... and each reply is decoded with the packet type the specification table names for this command: two packet types
    # share 06 1E (`Abort`, and `PartialReversalAbort` that also carries the pending receipt number) - an enum borrowed from a
    # command with the same control fields but another packet type drops or invents fields of that reply
    n_pl = 0
    for sname, sp_ in sorted(seq_spec.items()):
        if sname.startswith("_") or seqs.get(sname) is None:
            continue
        ent = seqs[sname]
        adt = zvt.adts.get(ent["output"])
        sp_e = spec.get(sp_["output"], {})
        if adt is None or not sp_e.get("payloads") or not sp_e.get("variants"):
            continue
        want_by_cf = {tuple(cf): sp_e["payloads"].get(v) for v, cf in sp_e["variants"].items() if sp_e["payloads"].get(v)}
        for v in adt["variants"]:
            if len(v.get("fields", [])) != 1:
                continue
            pty = ty_str(v["fields"][0]["ty"])
            cf = tuple(cmds.get(pty) or ())
            if cf in want_by_cf:
                n_pl += 1
                same = pty == want_by_cf[cf]
                if not same:
                    # judged by content, not by name: another type with the same rows (spec/layout.json, which C03 holds the
                    # code to) decodes the same content
                    lay = ctx.spec("layout.json")
                    ra, rb = (lay.get(pty) or {}).get("rows"), (lay.get(want_by_cf[cf]) or {}).get("rows")
                    same = ra is not None and ra == rb
                chk.require(same, "C15/reply-payload", "%s %02X %02X" % ((sname,) + cf),
                            "the reply %02X %02X of this command is decoded as %s; the specification table says %s (the content of "
                            "the variant is then not what the command's own reply carries)" % (cf + (pty, want_by_cf[cf])),
                            "payload type agrees", ent.get("sp"))
    chk.floor("reply payload types per command", n_pl, 60)
    for e in spec:
        if not e.startswith("_"):
            chk.require(e in seen_enums or e in served, "C15/present", e, "reply enum of the specification table has no parser", "",
                        nontrivial=False)
    chk.floor("commands whose reply enum has a parser", n_seq, 17)
    chk.floor("decision-tree leaves", n_leaves, 80)
    chk.trusted.extend(["rustc MIR construction of match on (u8,u8) tuples", "const evaluation of CLASS/INSTR"])
