"""C02 — decoding is total: arbitrary bytes give a value or an error, never a panic."""
import layout
import sites
import contracts
from mirlite import callee, callee_res, ty_str, op_place
from expr import show, walk, strip_ref
from discharge import (make_prover, check_site, accumulator_ok, unwrap_of_decode_ok, CONTRACTED, INDEX, SPLIT_AT, Lin, len_of)

LEVEL = "proof"
EXPLANATION = (
    "Site enumeration + discharge over the whole decode path. Scope = call-graph closure (modular over trait impl sets) "
    "from every Encoding::decode, Length::deserialize, deserialize_tagged, zvt_deserialize, zvt_parse impl and "
    "PacketTransport::read_packet in zvt_builder and zvt, including all 55 derive-generated decoders and 17 reply "
    "parsers. Every site that can panic, wrap, truncate or allocate (MIR Assert terminators for overflow / bounds / "
    "division, calls of panicking std APIs such as Index::index and unwrap, explicit panics, narrowing `as` casts, sized "
    "allocations) is an obligation. An obligation is discharged only if its safety condition is entailed by the "
    "conditions of the switch edges that edge-dominate the site (SSA-like versions keep facts from being applied to a "
    "reassigned variable), std summaries (first/get Some, is_empty, slicing lengths, Vec length after from_elem/resize, "
    "try_into of an exact-length slice), interval arithmetic on masks/shifts/remainders/casts, the suffix contracts "
    "K1-K3 (assumed at calls, verified on every impl) and two loop lemmas (counted loop with per-index get; decimal "
    "accumulator bound per const-generic instantiation). Every loop needs a termination argument (finite iterator, "
    "strictly shorter suffix per iteration, or the generated no-progress guard over remainder-only assignments); growth "
    "inside such loops is bounded by the same measure. Overflow checks are on in the analysed build, so an undischarged "
    "Overflow site is exactly a possible debug/release divergence. Holds for all inputs: nothing is executed.")
RULE = ("for every site in scope: facts(edge-dominating guards) + summaries + contracts |- safety condition, by interval "
        "evaluation of goal minus at most three facts; for every loop: classification in {iterator, consuming, "
        "progress-guard}; for every decoder impl: Ok remainder is a suffix of the input (K1-K3), Tag decoders strictly.")

NOT_INSTANTIATED = {
    "<E as zvt_builder::encoding::Encoding<core::option::Option<T>>>::decode":
        "blanket Encoding<Option<T>>: Option rows go through ZvtSerializerImpl for Option<T> (both methods overridden)",
    "<E as zvt_builder::encoding::Encoding<alloc::vec::Vec<T>>>::decode":
        "blanket Encoding<Vec<T>>: Vec rows go through ZvtSerializerImpl for Vec<T> (both methods overridden)",
}


def site_key(b, s):
    t = s.get("term")
    sig = s["detail"]
    return "%s|%s|%s" % (b.id, s["kind"], sig)


def in_scope(ctx, extra_crates=()):
    crates = [ctx.crate("zvt_builder"), ctx.crate("zvt")] + list(extra_crates)
    sc = sites.scope(crates)
    return crates, sc


def dedicated_impls_override_both(crates):
    """ZvtSerializerImpl for Option<T> and Vec<T> define serialize_tagged and deserialize_tagged."""
    need = {"core::option::Option<T>": set(), "alloc::vec::Vec<T, alloc::alloc::Global>": set(), "alloc::vec::Vec<T>": set()}
    for c in crates:
        for im in c.impls:
            if im.get("trait") == "zvt_builder::ZvtSerializerImpl":
                s = ty_str(im["self"])
                if s in need:
                    need[s] |= set(im["fns"])
    opt = need["core::option::Option<T>"]
    vec = need["alloc::vec::Vec<T, alloc::alloc::Global>"] | need["alloc::vec::Vec<T>"]
    return {"serialize_tagged", "deserialize_tagged"} <= opt and {"serialize_tagged", "deserialize_tagged"} <= vec


FN_FLOOR = 105


def thorough_extra(ctx, chk):
    """Thorough tier: the derive-generated decoders of the integration-test structs (zvt/tests/derive.rs,
    type-checked with --tests) are analysed like the shipped ones."""
    if ctx.tier != "thorough":
        return []
    try:
        d = ctx.crate("derive", kind="test", tests=True)
    except Exception as e:  # noqa
        chk.note("test structs not analysed: %r" % (e,))
        return []
    chk.analysed["test_crate_bodies"] = len(d.bodies)
    return [d]


def run(ctx, chk, only=None, prop="C02"):
    crates, sc = in_scope(ctx, thorough_extra(ctx, chk) if only is None else ())
    excluded = {}
    if dedicated_impls_override_both(crates):
        for k, why in NOT_INSTANTIATED.items():
            if k in sc:
                excluded[k] = why
                del sc[k]
                for cid in [x for x in sc if x.startswith(k + "::")]:
                    del sc[cid]
        for k, why in excluded.items():
            chk.note("out of scope (not instantiated by shipped rows or derive output): %s - %s" % (k, why))
    chk.analysed["bodies_in_scope"] = len(sc)
    n_sites = 0
    n_loops = 0
    provers = {}
    for bid, b in sorted(sc.items()):
        if only and not only(b):
            continue
        pr = None
        for s in sites.enumerate_sites(b):
            pr = pr or make_prover(b, crates)
            provers[bid] = pr
            n_sites += 1
            try:
                ok, why = check_site(pr, s)
                if not ok:
                    for lem in (accumulator_ok, unwrap_of_decode_ok):
                        if lem is unwrap_of_decode_ok and s["kind"] != "unwrap":
                            continue
                        r = lem(pr, s, crates)
                        if r is not None and r[0]:
                            ok, why = r
            except Exception as e:  # fail closed
                ok, why = False, "engine error %r" % (e,)
            rule = {"Overflow": "b/no-wrap", "OverflowNeg": "b/no-wrap", "truncation": "b/no-truncation",
                    "alloc": "d/allocation-bound"}.get(s["kind"], "a/no-panic")
            what = {"b/no-wrap": "arithmetic can overflow (panic in debug, wrapped value in release)",
                    "b/no-truncation": "narrowing cast can silently truncate",
                    "d/allocation-bound": "allocation size is not bounded",
                    "a/no-panic": "can panic"}[rule]
            inst = "%s bb%d %s %s" % (short(bid), s["bb"], s["kind"], s["detail"].rsplit("::", 1)[-1])
            chk.require(ok, "%s-%s" % (prop, rule), inst, "%s: %s" % (what, why), why[:160], s.get("sp"),
                        key="%s-%s|%s" % (prop, rule, site_key(b, s)))
        if b.raw.get("coroutine_kind") is None or True:
            loops = b.natural_loops()
            for h, blks in sorted(loops.items()):
                pr = pr or provers.get(bid) or make_prover(b, crates)
                kind, ok, why = contracts.classify_loop(pr, h, blks)
                n_loops += 1
                chk.require(ok, "%s-c/progress" % prop, "%s loop@bb%d" % (short(bid), h),
                            "loop may not terminate (and may allocate without bound): " + why, "%s: %s" % (kind, why[:120]),
                            b.blocks[h]["term"].get("sp"), key="%s-c/progress|%s" % (prop, bid))
    chk.analysed["sites"] = n_sites
    chk.analysed["loops"] = n_loops
    if only is None:
        # ---- contracts on every decoder impl
        n_k = 0
        for bid, b in sorted(sc.items()):
            r = b.raw
            tr = r.get("impl_trait") or r.get("in_trait")
            if r["defkind"] != "AssocFn" or r.get("name") not in ("decode", "deserialize", "deserialize_tagged", "zvt_deserialize"):
                continue
            if tr not in ("zvt_builder::encoding::Encoding", "zvt_builder::length::Length", "zvt_builder::ZvtSerializerImpl",
                          "zvt_builder::ZvtSerializer"):
                continue
            pr = provers.get(bid) or make_prover(b, crates)
            n_k += contracts.check_suffix_contract(chk, pr, "%s/K-suffix" % prop, short(bid))
        chk.analysed["contract_returns"] = n_k
        strict_tag_decoders(chk, crates, sc, prop)
        # safer code has fewer panic sites: these are sanity floors against an empty scope, not exact counts
        chk.floor("sites in scope", n_sites, 60)
        chk.floor("loops classified", n_loops, 20)
        chk.floor("decoder Ok-returns checked against the suffix contract", n_k, 85)
        # functions, not closures: a refactoring may add or remove closures freely
        chk.floor("functions in scope", len([b for b in sc.values() if b.raw["defkind"] in ("Fn", "AssocFn")]), FN_FLOOR)
        chk.trusted.extend(["std/chrono/hex/yore functions called on the decode path are total (from_ymd_opt, and_hms_opt, "
                            "String::from_utf8, CP437.decode, encode_hex, HashSet ops)",
                            "slice lengths never exceed isize::MAX"])


def short(bid):
    s = bid.replace("zvt_builder::encoding::", "").replace("zvt_builder::length::", "").replace("zvt_builder::", "")
    return s if len(s) < 110 else "..." + s[-107:]


def strict_tag_decoders(chk, crates, sc, prop):
    """K5: decoding a Tag consumes at least one byte (used by the strictly-consuming loop rule)."""
    n = 0
    for bid, b in sorted(sc.items()):
        r = b.raw
        if r.get("impl_trait") == "zvt_builder::encoding::Encoding" and r.get("name") == "decode" and \
                len(r["impl_trait_args"]) > 1 and ty_str(r["impl_trait_args"][1]) == "zvt_builder::Tag":
            pr = make_prover(b, crates)
            for bb, rem in contracts.ok_remainders(pr):
                n += 1
                ok = strict_suffix(pr, rem, crates)
                chk.require(ok, "%s/K5-tag-consumes" % prop, short(bid),
                            "a tag can be decoded without consuming input: %s" % show(rem)[:80], "remainder strictly shorter", b.sp())
    chk.floor("tag decoder returns", n, 3)


def strict_suffix(pr, e, crates, depth=0):
    from discharge import unq
    e = strip_ref(unq(e))
    if depth > 4:
        return False
    if e[0] == "call" and e[1] in INDEX:
        rng = strip_ref(e[2][1])
        if rng[0] == "agg" and rng[1].endswith("RangeFrom::RangeFrom"):
            r = pr.lin_interval(pr.lin(rng[2][0]))
            return bool(r and r[0] >= 1) and contracts.suffix_of_param(pr, e[2][0])
        return False
    if e[0] in ("path", "proj") and e[2] and isinstance(e[2][-1], tuple) and e[2][-1][0] == "sub":
        _, frm, to, from_end = e[2][-1]
        base = (e[0], e[1], tuple(e[2][:-1])) + tuple(e[3:])
        return bool(from_end and to == 0 and frm >= 1) and contracts.suffix_of_param(pr, base)
    from discharge import split_first_parts
    sf = split_first_parts(e)
    if sf is not None and sf[2] == 1 and sf[1] >= 1:
        return contracts.suffix_of_param(pr, sf[0])
    if e[0] == "proj" and e[1][0] == "call" and e[1][1] in SPLIT_AT and tuple(e[2]) == ("1",):
        # s.split_at(m).1 == s[m..]
        r = pr.lin_interval(pr.lin(e[1][2][1]))
        return bool(r and r[0] >= 1) and contracts.suffix_of_param(pr, e[1][2][0])
    if e[0] == "proj" and e[1][0] == "call" and e[1][1] in CONTRACTED and tuple(e[2]) == ("@Ok", "0", "1"):
        if not contracts.suffix_of_param(pr, e[1][2][0]):
            return False
        ct = pr.b.blocks[e[1][3]]["term"]
        res = (ct.get("f") or {}).get("res") or {}
        body = None
        for c in crates:
            body = body or c.bodies.get(res.get("n"))
        if body is None:
            return False
        p2 = make_prover(body, crates)
        rems = contracts.ok_remainders(p2)
        return bool(rems) and all(strict_suffix(p2, r, crates, depth + 1) for _, r in rems if r[0] not in ("?", "delegate")) and \
            not any(r[0] in ("?", "delegate") for _, r in rems)
    return False
