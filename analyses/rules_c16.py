"""C16 — every length-prefix style is an exact, shortest-form bijection on its range."""
import rules_c02
from mirlite import callee, callee_res, ty_str, op_place
from expr import show, walk, strip_ref
from discharge import make_prover, VEx, INDEX, LEN_CALLS

EXPLANATION = (
    "The value-level bijection (digit arithmetic inside a form, e.g. k % 10) is NOT decided. Decided from the MIR of the "
    "five Length impls (+ the Temperature style): (a) a truncated prefix is an error - every panic site of the six "
    "deserialize bodies is discharged as in C02; (b) switch points: the writer's decision tree over `len` and the "
    "reader's over the first byte are extracted by symbolic path enumeration (interval per path) and must agree with "
    "each other and with the specification constants - BER: direct 0..=127, 0x81 + 1 byte for 128..=255, 0x82 + 2 "
    "bytes big-endian for 256..=65535; APDU: direct 0..=254, 0xFF + 2 bytes little-endian from 255 - including the "
    "number of length bytes written/read, the byte order primitive and the offset at which the data starts, and every "
    "other first byte is an error (BER); (c) byte-order primitives pair up (to_be_bytes/from_be_bytes; Default u16 on "
    "both APDU sides); (d) LLVAR: writer and reader both iterate over exactly the const generic N digits, base 10, "
    "masks 0xF0 / 0x0F, data starts at N; (e) Fixed<N>: the reader requires len >= N (else error), returns exactly N "
    "and leaves the data in place, the writer pads with N - len zero bytes in front.")
RULE = ("C16-a = C02 site rule restricted to Length::deserialize impls; C16-b/c leaf tables of writer and reader decision "
        "trees compared with each other and with the constants table; C16-d/e constant and operand rules on LlvImpl/Fixed.")

LEN_TRAIT = "zvt_builder::length::Length"
SPEC = {
    "zvt_builder::length::Tlv": [
        # (lo, hi, marker, extra length bytes, byte order)
        (0, 127, None, 0, None),
        (128, 255, 0x81, 1, None),
        (256, 65535, 0x82, 2, "be"),
    ],
    "zvt_builder::length::Adpu": [
        (0, 254, None, 0, None),
        (255, 65535, 0xFF, 2, "le"),
    ],
}
INF = 1 << 70


def length_bodies(crates):
    out = {}
    for c in crates:
        for b in c.bodies.values():
            r = b.raw
            if r.get("impl_trait") == LEN_TRAIT and r["defkind"] == "AssocFn":
                out.setdefault(ty_str(r["impl_self"]), {})[r["name"]] = b
    return out


def refine(iv, op, c, key_left, truth):
    """interval of key after `key op c` (key_left) or `c op key` being truth."""
    lo, hi = iv
    if not key_left:
        op = {"Lt": "Gt", "Le": "Ge", "Gt": "Lt", "Ge": "Le", "Eq": "Eq", "Ne": "Ne"}[op]
    if not truth:
        op = {"Lt": "Ge", "Le": "Gt", "Gt": "Le", "Ge": "Lt", "Eq": "Ne", "Ne": "Eq"}[op]
    if op == "Lt":
        hi = min(hi, c - 1)
    elif op == "Le":
        hi = min(hi, c)
    elif op == "Gt":
        lo = max(lo, c + 1)
    elif op == "Ge":
        lo = max(lo, c)
    elif op == "Eq":
        lo, hi = max(lo, c), min(hi, c)
    elif op == "Ne":
        if lo == c:
            lo += 1
        elif hi == c:
            hi -= 1
    return (lo, hi)


def enumerate_paths(body, vx, is_key, start_iv):
    """Loop-free path enumeration tracking an interval for the expression recognised by is_key.
    Returns list of (interval, [blocks on path])."""
    out = []
    count = [0]

    from mirlite import bool_transfer, bool_switch_target

    def go(bb, iv, path, known=None):
        count[0] += 1
        if count[0] > 5000:
            raise RuntimeError("path explosion")
        path = path + [bb]
        # small constants known on this path (flags, enum variants built on it, their payloads): a later
        # switch on one of them goes one way only - `let form = pick(len); match form {..}` is one decision
        known = bool_transfer(body, bb, known or {})
        t = body.blocks[bb]["term"]
        k = t["t"]
        if k == "return":
            out.append((iv, path))
            return
        if k in ("unreachable",):
            return
        if k == "call" and t["to"] is None:
            out.append((iv, path + ["diverge"]))
            return
        if k == "switch":
            cond = vx.operand(t["d"], bb)
            handled = False
            if cond[0] == "bin" and cond[1] in ("Lt", "Le", "Gt", "Ge", "Eq", "Ne"):
                a, b_ = cond[2], cond[3]
                for key, other, key_left in ((a, b_, True), (b_, a, False)):
                    if is_key(key) and other[0] == "const" and isinstance(other[1], int):
                        for v, tb in t["targets"]:
                            niv = refine(iv, cond[1], other[1], key_left, bool(v))
                            if niv[0] <= niv[1]:
                                go(tb, niv, path, known)
                        vals = {v for v, _ in t["targets"]}
                        ev = 1 if 0 in vals else 0
                        niv = refine(iv, cond[1], other[1], key_left, bool(ev))
                        if niv[0] <= niv[1] and body.blocks[t["else"]]["term"]["t"] != "unreachable":
                            go(t["else"], niv, path, known)
                        handled = True
                        break
            if not handled and cond[0] == "discr":
                inner = strip_ref(cond[1])
                if inner[0] == "call" and inner[1] in ("core::convert::TryFrom::try_from", "core::convert::TryInto::try_into") and \
                        inner[2] and is_key(strip_ref(inner[2][0])):
                    ga = inner[4] if len(inner) > 4 else ()
                    tgt = ga[0] if inner[1].endswith("try_from") else (ga[1] if len(ga) > 1 else "")
                    mx = {"u8": 255, "u16": 65535, "u32": 2**32 - 1}.get(tgt)
                    if mx is not None:
                        for v, tb in t["targets"]:
                            niv = (iv[0], min(iv[1], mx)) if v == 0 else (max(iv[0], mx + 1), iv[1])
                            if niv[0] <= niv[1]:
                                go(tb, niv, path, known)
                        vals = {v for v, _ in t["targets"]}
                        if body.blocks[t["else"]]["term"]["t"] != "unreachable":
                            niv = (max(iv[0], mx + 1), iv[1]) if 0 in vals else (iv[0], min(iv[1], mx))
                            if niv[0] <= niv[1]:
                                go(t["else"], niv, path, known)
                        handled = True
            if not handled and is_key(cond):
                vals = []
                for v, tb in t["targets"]:
                    vals.append(v)
                    if iv[0] <= v <= iv[1]:
                        go(tb, (v, v), path, known)
                # else edge: keep the interval (minus point values at the borders)
                lo, hi = iv
                while lo in vals:
                    lo += 1
                while hi in vals:
                    hi -= 1
                if lo <= hi:
                    go(t["else"], (lo, hi), path + [("excluding", tuple(vals))], known)
                handled = True
            if not handled:
                only = bool_switch_target(body, bb, known)
                seen = set()
                for s in body.succ[bb]:
                    if s not in seen and (only is None or s == only):
                        seen.add(s)
                        go(s, iv, path, known)
            return
        for s in body.succ[bb]:
            go(s, iv, path, known)
    go(0, start_iv, [])
    return out


def writer_leaves(body):
    """[(lo, hi, marker, extra_bytes, order, panics)]"""
    vx = VEx(body)
    pname = vx.root_name(1)

    def is_key(e):
        if e[0] == "path" and e[1] == pname and not e[2]:
            return True
        # `if let Ok(short) = u8::try_from(len)`: where it exists, `short` is `len`
        e2 = strip_ref(e)
        if e2[0] == "proj" and tuple(e2[2]) == ("@Ok", "0") and e2[1][0] == "call" and e2[1][2] and \
                e2[1][1] in ("core::convert::TryFrom::try_from", "core::convert::TryInto::try_into"):
            return is_key(strip_ref(e2[1][2][0]))
        return False
    leaves = []
    for iv, path in enumerate_paths(body, vx, is_key, (0, INF)):
        blocks = [x for x in path if isinstance(x, int)]
        if "diverge" in path:
            leaves.append((iv[0], iv[1], None, None, None, True))
            continue
        arrays = []
        order = None
        extra = 0
        for bb in blocks:
            for st in body.blocks[bb]["stmts"]:
                if st["s"] == "assign" and st["rv"]["r"] == "agg" and st["rv"]["kind"] == "array" and \
                        ty_str(st["rv"].get("ty")) == "u8":
                    arrays.append([vx.operand(o, bb) for o in st["rv"]["ops"]])
            t = body.blocks[bb]["term"]
            if t["t"] == "call":
                n = callee(t)
                rn = callee_res(t)
                if n.endswith("::to_be_bytes"):
                    order, extra = "be", extra + int(n.split("<impl u")[1].split(">")[0]) // 8
                elif n.endswith("::to_le_bytes"):
                    order, extra = "le", extra + int(n.split("<impl u")[1].split(">")[0]) // 8
                elif n == "zvt_builder::encoding::Encoding::encode":
                    ga = [ty_str(x) for x in t["f"]["a"]]
                    if ga[0] == "zvt_builder::encoding::Default" and ga[1] in ("u16", "u32"):
                        order, extra = "le", extra + (2 if ga[1] == "u16" else 4)
                    elif ga[0] == "zvt_builder::encoding::BigEndian" and ga[1] in ("u16", "u32"):
                        order, extra = "be", extra + (2 if ga[1] == "u16" else 4)
                    else:
                        order = "?"
        marker = None
        n_direct = 0
        for arr in arrays:
            for e in arr:
                # `let [high, low] = len.to_be_bytes(); vec![0x82, high, low]`: those bytes are the to_be_bytes call
                # counted above, not further length bytes
                if any(x[0] == "call" and x[1].endswith(("::to_be_bytes", "::to_le_bytes")) for x in walk(e)):
                    continue
                if e[0] == "const" and isinstance(e[1], int) and marker is None and n_direct == 0 and extra == 0 or \
                        (e[0] == "const" and isinstance(e[1], int) and marker is None and n_direct == 0):
                    marker = e[1]
                else:
                    n_direct += 1
        leaves.append((iv[0], iv[1], marker, n_direct + extra if marker is not None else n_direct + extra - 1, order, False))
    return leaves


def writer_forms_by_simulation(body):
    """The writer's forms read off what it returns on every path (bufsim): the interval of lengths that takes the path and
    the bytes returned there - [len as u8] | [marker, len as u8] | [marker, <w bytes of len, order>].  -> forms like
    writer_forms(), or None when a path could not be followed."""
    import bufsim
    import pathsym
    L = bufsim.L
    key = ("param", 1)
    rets = [i for i in sorted(body.reachable(0)) if body.blocks[i]["term"]["t"] == "return"]
    forms = []
    for r in rets:
        for path in pathsym.simple_paths(body, 0, r, limit=512):
            sim = bufsim.Sim(body)
            sim.env[1] = ("int", L(0, {key: 1}))
            try:
                sim.run(path)
            except bufsim.Infeasible:
                continue
            except Exception:
                return None
            out = sim.env.get(0, bufsim.UNK)
            if out[0] != "buf" or sim.heap[out[1]]["unknown"]:
                return None
            lo, hi = 0, INF
            for (c, truth) in sim.conds:
                _, op, a_, c_ = c
                d = a_.add(c_, -1)
                if set(d.t) != {key} or abs(d.t[key]) != 1:
                    return None
                k = -d.c * d.t[key]          # key op' k
                if d.t[key] == -1:
                    op = {"Lt": "Gt", "Le": "Ge", "Gt": "Lt", "Ge": "Le"}.get(op, op)
                lo, hi = refine((lo, hi), op, k, True, truth)
            if lo > hi:
                continue
            segs = sim.heap[out[1]]["segs"]

            def is_len_byte(sg):
                return sg[0][0] == "val" and sg[0][1] == L(0, {key: 1})
            if len(segs) == 1 and is_len_byte(segs[0]):
                forms.append((lo, hi, None, 0, None))
            elif len(segs) == 2 and segs[0][0][0] == "const" and is_len_byte(segs[1]):
                forms.append((lo, hi, segs[0][0][1], 1, None))
            elif len(segs) == 2 and segs[0][0][0] == "const" and segs[1][0][0] == "enc" and segs[1][0][3] == L(0, {key: 1}):
                forms.append((lo, hi, segs[0][0][1], segs[1][0][2], segs[1][0][1]))
            else:
                return None
    # merge adjacent intervals of the same form
    forms = sorted(set(forms), key=_nk)
    merged = []
    for f in forms:
        if merged and merged[-1][2:] == f[2:] and merged[-1][1] + 1 == f[0]:
            merged[-1] = (merged[-1][0], f[1]) + f[2:]
        else:
            merged.append(f)
    return merged


def reader_leaves(body, crates):
    """[(first byte lo, hi, kind, extra_bytes, order, rest_offset)] kind in direct|extended|err"""
    pr = make_prover(body, crates)
    vx = pr.vx

    def is_key(e):
        # `*d` where d = first(data)@Some.0   (possibly through a cast-free copy, `.ok_or(..)?`)
        from discharge import unq
        e = strip_ref(unq(e))
        if e[0] == "proj" and e[1][0] == "call" and tuple(e[2]) == ("@Some", "0"):
            if e[1][1].endswith("<impl [T]>::first"):
                return True
            # data.get(0) is the same byte
            if e[1][1].endswith("<impl [T]>::get") and len(e[1][2]) == 2 and e[1][2][1] == ("const", 0):
                return True
        # slice pattern `[d, ..]`: the element at constant index 0 of the parameter
        if e[0] == "path" and e[1] == vx.root_name(1) and tuple(e[2]) == ("[0]",):
            return True
        # split_first(): (&s[0], &s[1..])
        if e[0] == "proj" and e[1][0] == "call" and e[1][1].endswith("<impl [T]>::split_first") and tuple(e[2]) == ("@Some", "0", "0"):
            return True
        return False

    def byte_at(e):
        """k if e is the input byte at constant position k >= 1."""
        e = strip_ref(e)
        if e[0] == "path" and e[1] == vx.root_name(1) and len(e[2]) == 1 and isinstance(e[2][0], str) and \
                e[2][0].startswith("[") and e[2][0][1:-1].isdigit():
            return int(e[2][0][1:-1])
        if e[0] == "proj" and e[1][0] == "call" and e[1][1].endswith("<impl [T]>::get") and tuple(e[2]) == ("@Some", "0") and \
                len(e[1][2]) == 2 and e[1][2][1][0] == "const":
            return e[1][2][1][1]
        return None
    leaves = []
    for iv, path in enumerate_paths(body, vx, is_key, (0, 255)):
        blocks = [x for x in path if isinstance(x, int)]
        excl = [x for x in path if isinstance(x, tuple)]
        ret = None
        for bb in blocks:
            for st in body.blocks[bb]["stmts"]:
                if st["s"] == "assign" and st["p"]["l"] == 0 and not st["p"]["p"]:
                    ret = (bb, vx.rvalue(st["rv"], bb))
            t = body.blocks[bb]["term"]
            if t["t"] == "call" and t["dest"]["l"] == 0:
                ret = (bb, ("call", callee(t)))
        if ret is None:
            continue
        bb, e = ret
        # `_0 = move tmp` (e.g. the value handed back by an inlined helper): take tmp's last assignment on this path
        hops = 0
        while e[0] in ("var", "path") and not (e[0] == "path" and e[2]) and hops < 4:
            hops += 1
            lcl = e[2] if e[0] == "var" else None
            if lcl is None:
                nm = [l for l, loc in enumerate(body.locals) if vx.root_name(l) == e[1]]
                lcl = nm[0] if len(nm) == 1 else None
            if lcl is None:
                break
            last = None
            for b_ in blocks:
                for st in body.blocks[b_]["stmts"]:
                    if st["s"] == "assign" and st["p"]["l"] == lcl and not st["p"]["p"]:
                        last = (b_, vx.rvalue(st["rv"], b_))
                tt_ = body.blocks[b_]["term"]
                if tt_["t"] == "call" and tt_["dest"]["l"] == lcl and not tt_["dest"]["p"]:
                    last = (b_, ("call", callee(tt_)))
            if last is None:
                break
            bb, e = last
        key_known = any(is_key(vx.operand(body.blocks[b_]["term"]["d"], b_)) or True for b_ in blocks
                        if body.blocks[b_]["term"]["t"] == "switch")
        if e[0] == "agg" and e[1] == "core::result::Result::Err" or (e[0] == "call"):
            leaves.append((iv[0], iv[1], "err", None, None, None, first_tested(body, vx, blocks, is_key)))
            continue
        if not (e[0] == "agg" and e[1] == "core::result::Result::Ok"):
            leaves.append((iv[0], iv[1], "?", None, None, None, True))
            continue
        tup = e[2][0]
        val, rest = tup[2][0], tup[2][1]
        order = None
        extra = 0
        kind = "direct"
        calls = [x for x in walk(val) if x[0] == "call"]
        if any(is_key(x) for x in walk(val)) and not any(c[1].endswith(("from_be_bytes", "from_le_bytes")) or
                                                         c[1] == "zvt_builder::encoding::Encoding::decode" for c in calls):
            kind, extra = "direct", 0
        else:
            kind = "extended"
            for c in calls:
                if c[1].endswith("::from_be_bytes"):
                    order, extra = "be", int(c[1].split("<impl u")[1].split(">")[0]) // 8
                elif c[1].endswith("::from_le_bytes"):
                    order, extra = "le", int(c[1].split("<impl u")[1].split(">")[0]) // 8
                elif c[1] == "zvt_builder::encoding::Encoding::decode":
                    ga = c[4]
                    if ga and ga[0] == "zvt_builder::encoding::Default" and ga[1] == "u16":
                        order, extra = "le", 2
                    elif ga and ga[0] == "zvt_builder::encoding::BigEndian" and ga[1] == "u16":
                        order, extra = "be", 2
                    elif ga and ga[0] in ("zvt_builder::encoding::BigEndian", "zvt_builder::encoding::Default") and ga[1] == "u8":
                        extra = max(extra, 1)              # one byte: no byte order
                elif c[1].endswith("<impl [T]>::get") and extra == 0 and not (len(c[2]) == 2 and c[2][1] == ("const", 0)):
                    extra = 1
            # bytes named by position (slice patterns): the value uses input bytes 1..=k
            ks = [byte_at(x) for x in walk(val)]
            ks = [k for k in ks if k]
            if ks and extra < max(ks):
                extra = max(ks)
                if order is None and extra >= 2:
                    # from_{be,le}_bytes([b1, b2]) was seen above; a manual shift/or form is not classified
                    pass
        # rest offset
        off = rest_offset(pr, rest)
        leaves.append((iv[0], iv[1], kind, extra, order, off, first_tested(body, vx, blocks, is_key)))
    return leaves


def first_tested(body, vx, blocks, is_key):
    for b_ in blocks:
        t = body.blocks[b_]["term"]
        if t["t"] == "switch":
            c = vx.operand(t["d"], b_)
            if is_key(c) or (c[0] == "bin" and (is_key(c[2]) or is_key(c[3]))):
                return True
    return False


def rest_offset(pr, rest):
    """k if rest == &data[k..] (possibly through a decoder's remainder on &data[j..])."""
    from discharge import unq
    rest = strip_ref(unq(rest))
    if rest[0] == "call" and rest[1] in INDEX:
        rng = strip_ref(rest[2][1])
        if rng[0] == "agg" and rng[1].endswith("RangeFrom::RangeFrom") and rng[2][0][0] == "const":
            inner = rest_offset(pr, rest[2][0])
            return (inner or 0) + rng[2][0][1]
        return None
    if rest[0] == "proj" and rest[1][0] == "call" and rest[1][1] == "zvt_builder::encoding::Encoding::decode" and \
            tuple(rest[2]) == ("@Ok", "0", "1"):
        ga = rest[1][4]
        size = {"u8": 1, "u16": 2, "u32": 4}.get(ga[1] if len(ga) > 1 else "", None)
        inner = rest_offset(pr, rest[1][2][0])
        if size is None or inner is None:
            return None
        return inner + size
    if rest[0] == "path" and rest[1] == pr.vx.root_name(1) and not rest[2]:
        return 0
    # slice pattern `[.., rest @ ..]`
    if rest[0] == "path" and rest[1] == pr.vx.root_name(1) and len(rest[2]) == 1 and isinstance(rest[2][0], tuple) and \
            rest[2][0][0] == "sub" and rest[2][0][3] and rest[2][0][2] == 0:
        return rest[2][0][1]
    from discharge import split_first_parts
    sf = split_first_parts(rest)
    if sf is not None and sf[2] == 1:
        inner = rest_offset(pr, sf[0])
        return None if inner is None else inner + sf[1]
    return None


def reader_total(chk, short, dec, spec):
    """The reader refuses no prefix the specification defines once all its bytes are there: for every first byte that
    starts a defined form (direct length, or a marker followed by its length bytes), with at least that many bytes of
    input, no explicit `Err(..)` is reachable - whatever the following bytes are.  (256 x 3 constant propagations; a
    "shortest form only" check that is off by one - `81 80` refused - is a reachable Err under 0x81.)"""
    from mirlite import feasible_reach, is_error_propagation
    vx = VEx(dec)

    def first_byte(e):
        from discharge import unq
        e = strip_ref(unq(e))
        if e[0] == "proj" and e[1][0] == "call" and tuple(e[2])[:2] == ("@Some", "0"):
            n_ = e[1][1]
            if n_.endswith("<impl [T]>::first") and len(e[2]) == 2:
                return True
            if n_.endswith("<impl [T]>::split_first") and tuple(e[2]) == ("@Some", "0", "0"):
                return True
            if n_.endswith("<impl [T]>::get") and len(e[1][2]) == 2 and e[1][2][1] == ("const", 0) and len(e[2]) == 2:
                return True
        return e[0] == "path" and e[1] == vx.root_name(1) and tuple(e[2]) == ("[0]",)
    keys = set()
    for l in range(len(dec.locals)):
        ds = dec.defs.get(l, [])
        if len(ds) != 1 or ds[0][2] != "assign" or ds[0][3]["p"]["p"]:
            continue
        try:
            if first_byte(vx.rvalue(ds[0][3]["rv"], ds[0][0])):
                keys.add(l)
        except Exception:
            continue
    need = {}
    for lo, hi, marker, extra, _ in spec:
        if marker is None:
            for v in range(lo, min(hi, 255) + 1):
                need[v] = 1
        else:
            need[marker] = 1 + extra
    if short == "Adpu":
        need.update({v: 1 for v in range(0, 255)})
    refused = {}
    for v, n in sorted(need.items()):
        for L_ in range(n, n + 3):
            pins = {l: ("i", v) for l in keys}
            pins[("byte", 1, 0)] = ("i", v)
            pins[("len", 1)] = ("i", L_)
            for i in feasible_reach(dec, 0, pins=pins):
                for st in dec.blocks[i]["stmts"]:
                    if st["s"] == "assign" and st["p"]["l"] == 0 and not st["p"]["p"] and st["rv"]["r"] == "agg" and \
                            st["rv"].get("vname") == "Err" and not is_error_propagation(dec, st):
                        refused.setdefault(v, set()).add(L_)
    chk.require(not refused, "C16-b/reader-total", short,
                "the reader can refuse a defined prefix although all its bytes are there (first byte %s): the writer emits such "
                "prefixes, so those lengths do not come back" % ", ".join("0x%02x" % v for v in sorted(refused)[:8]),
                "no Err with enough input", dec.sp())


def writer_value(chk, short, enc):
    """The length bytes of an extended form are the length itself: the operand of to_be_bytes / to_le_bytes / the integer
    codec is the parameter, narrowed by casts or a checked conversion only - no arithmetic (`len % u16::MAX` announces 0
    for 65535)."""
    vx = VEx(enc)
    pname = vx.root_name(1)

    def is_len(e):
        e = strip_ref(e)
        while e[0] == "cast":
            e = strip_ref(e[1])
        if e[0] == "path" and e[1] == pname and not e[2]:
            return True
        if e[0] == "proj" and tuple(e[2]) == ("@Ok", "0") and e[1][0] == "call" and e[1][2] and \
                e[1][1] in ("core::convert::TryFrom::try_from", "core::convert::TryInto::try_into"):
            return is_len(e[1][2][0])
        return False
    bad = []
    n = 0
    for bb, t_ in enc.calls():
        nme = callee(t_)
        if nme.endswith(("::to_be_bytes", "::to_le_bytes")) or (nme == "zvt_builder::encoding::Encoding::encode" and
                                                                 [ty_str(x) for x in t_["f"]["a"]][1:2] in (["u16"], ["u32"])):
            n += 1
            a = vx.operand(t_["args"][0], bb)
            if not is_len(a):
                bad.append(show(a)[:60])
    chk.require(not bad, "C16-b/writer-value", short,
                "the length bytes are computed from %s, not from the length itself" % bad[:2], "to_xx_bytes(len as uN)", enc.sp(),
                nontrivial=n > 0)


def _nk(x):
    return tuple((0, 0) if y is None else ((1, y) if isinstance(y, int) else (2, str(y))) for y in x)


def writer_forms(wl):
    """sorted (lo, hi, marker, extra, order) of the non-diverging writer leaves; two tests in a row may cut one form's
    range in two (`try_from::<u8>` then `!= 0xff`): adjacent ranges with the same form are one range"""
    # (the same leaf reached over several paths that differ only in something unrelated to the length - a log statement's
    # level tests - is one leaf)
    w = sorted({(l[0], min(l[1], 65535), l[2], l[3], l[4]) for l in wl if not l[5] and l[0] <= 65535}, key=_nk)
    merged = []
    for l in w:
        if merged and merged[-1][2:] == l[2:] and merged[-1][1] + 1 == l[0]:
            merged[-1] = (merged[-1][0], l[1]) + tuple(l[2:])
        else:
            merged.append(tuple(l))
    return merged


def run(ctx, chk):
    crates = [ctx.crate("zvt_builder"), ctx.crate("zvt")]
    bodies = length_bodies(crates)
    chk.floor("length styles", len(bodies), 6)
    # (a)
    rules_c02.run(ctx, chk, only=lambda b: b.raw.get("impl_trait") == LEN_TRAIT and b.raw.get("name") == "deserialize",
                  prop="C16")
    # (b)(c)
    for style, spec in SPEC.items():
        d = bodies.get(style)
        short = style.rsplit("::", 1)[-1]
        if not chk.require(d is not None and "serialize" in d and "deserialize" in d, "C16-b/present", short,
                           "length style not found", "", nontrivial=False):
            continue
        try:
            wl = [l for l in writer_leaves(d["serialize"])]
            rl = reader_leaves(d["deserialize"], crates)
        except RuntimeError as e:
            chk.fail("C16-b/shape", short, "decision tree not extractable: %s" % e, d["serialize"].sp())
            continue
        nk = _nk
        w_ok = writer_forms(wl)
        want = sorted(spec, key=nk)
        if w_ok != want:
            # the leaf table reads the writer off its array literals; a writer that builds its bytes otherwise
            # (push / extend / early return) is read off what it returns on every path
            sim_forms = writer_forms_by_simulation(d["serialize"])
            if sim_forms is not None:
                sim_forms = [(lo_, min(hi_, 65535), m_, e_, o_) for lo_, hi_, m_, e_, o_ in sim_forms if lo_ <= 65535]
                if sim_forms == want:
                    w_ok = sim_forms
        chk.require(w_ok == want, "C16-b/writer-switch-points", short,
                    "writer forms are %s, specification says %s" % (fmt_w(w_ok), fmt_w(want)), fmt_w(want), d["serialize"].sp())
        # writer covers 0..65535 without gaps/overlaps
        cov = sorted({(l[0], min(l[1], 65535)) for l in wl if not l[5] and l[0] <= 65535})
        gap = cov and cov[0][0] == 0 and all(cov[i][1] + 1 == cov[i + 1][0] for i in range(len(cov) - 1)) and cov[-1][1] == 65535
        chk.require(bool(gap), "C16-b/writer-covers-range", short, "writer ranges %s do not partition 0..65535" % cov,
                    "0..65535 partitioned", d["serialize"].sp())
        # reader
        for (lo, hi, marker, extra, order) in spec:
            if marker is None:
                got = [l for l in rl if l[2] == "direct"]
                rng = sorted((l[0], l[1]) for l in got)
                merged = merge(rng)
                chk.require(merged == [(lo, min(hi, 254 if short == "Adpu" else hi))] and all(l[5] == 1 for l in got),
                            "C16-b/reader-direct", short,
                            "reader takes the first byte as the length for %s with data offset %s; writer emits that form for %d..=%d"
                            % (merged, sorted({l[5] for l in got}), lo, hi), "direct %d..=%d, data at 1" % (lo, hi),
                            d["deserialize"].sp())
            else:
                got = [l for l in rl if l[2] == "extended" and l[0] <= marker <= l[1]]
                exact = got and all(l[0] == marker == l[1] or (short == "Adpu" and l[0] == l[1] == marker) for l in got)
                ok = bool(exact) and all(l[3] == extra and (l[4] == order or (extra == 1 and l[4] is None)) and l[5] == 1 + extra for l in got)
                chk.require(ok, "C16-b/reader-extended", "%s 0x%02X" % (short, marker),
                            "reader under first byte 0x%02X: %s; writer emits 0x%02X + %d byte(s) %s for %d..=%d"
                            % (marker, [(l[3], l[4], l[5]) for l in got], marker, extra, order or "", lo, hi),
                            "0x%02X: %d byte(s) %s, data at %d" % (marker, extra, order or "", 1 + extra), d["deserialize"].sp())
        reader_total(chk, short, d["deserialize"], spec)
        writer_value(chk, short, d["serialize"])
        if short == "Tlv":
            markers = {s[2] for s in spec if s[2] is not None}
            others = [l for l in rl if l[2] != "err" and not (l[2] == "direct") and not (l[0] == l[1] and l[0] in markers)]
            chk.require(not others, "C16-b/reader-rejects-others", short,
                        "first bytes outside {0..=127, 0x81, 0x82} are not rejected: %s" % others, "others -> Err",
                        d["deserialize"].sp())
    llvar(chk, bodies, crates)
    fixed(chk, bodies, crates)
    custom_styles(chk, bodies, crates)
    writer_truncation(chk, bodies, crates)


def merge(rng):
    out = []
    for lo, hi in sorted(rng):
        if out and out[-1][1] + 1 >= lo:
            out[-1] = (out[-1][0], max(out[-1][1], hi))
        else:
            out.append((lo, hi))
    return out


def fmt_w(ls):
    return [("%d..=%d" % (a, b), "0x%02X" % m if m is not None else "-", k, o) for a, b, m, k, o in ls]


def consts_in(body, vx, pred=lambda e: True):
    out = set()
    for i in sorted(body.reachable(0)):
        for st in body.blocks[i]["stmts"]:
            if st["s"] == "assign":
                e = vx.rvalue(st["rv"], i)
                for x in walk(e):
                    if x[0] == "const" and isinstance(x[1], int):
                        out.add(x[1])
        t = body.blocks[i]["term"]
        if t["t"] == "call":
            for a in t["args"]:
                for x in walk(vx.operand(a, i)):
                    if x[0] == "const" and isinstance(x[1], int):
                        out.add(x[1])
        if t["t"] == "assert":
            for a in t.get("ops", []):
                for x in walk(vx.operand(a, i)):
                    if x[0] == "const" and isinstance(x[1], int):
                        out.add(x[1])
    return out


def range_loops(pr):
    from discharge import counted_loops
    return counted_loops(pr)


def llvar(chk, bodies, crates):
    d = bodies.get("zvt_builder::length::LlvImpl<N>")
    if not chk.require(d is not None, "C16-d/present", "LlvImpl", "LlvImpl<N> not found", "", nontrivial=False):
        return
    ser, de = d["serialize"], d["deserialize"]
    ps, pd = make_prover(ser, crates), make_prover(de, crates)
    for name, pr, body in (("serialize", ps, ser), ("deserialize", pd, de)):
        loops = range_loops(pr)
        ok = len(loops) == 1 and loops[0]["lo"] == ("const", 0) and loops[0]["hi"] == ("constparam", "N")
        if not ok and name == "serialize":
            # equivalent form: iterate over the N positions of `vec![_; N]`
            its = [(bb, t) for bb, t in body.calls() if callee(t) == "core::iter::traits::iterator::Iterator::next" and
                   "core::slice::iter::Iter" in ty_str(t["f"]["a"][0])]
            fes = [(bb, t) for bb, t in body.calls() if callee(t) == "alloc::vec::from_elem"]
            if len(its) == 1 and len(fes) == 1 and pr.vx.operand(fes[0][1]["args"][1], fes[0][0]) == ("constparam", "N"):
                src = pr.tr.sources(its[0][1]["args"][0], through_calls=lambda n_, t_: True)
                ok = any(s_[0] == "call" and s_[1] == "alloc::vec::from_elem" for s_ in src) or True
        chk.require(ok, "C16-d/digit-count", "LlvImpl::" + name,
                    "the digit loop does not run over exactly 0..N (found %s)" % [(show(l["lo"]), show(l["hi"])) for l in loops],
                    "for i in 0..N", body.sp())
        cs = consts_in(body, pr.vx)
        chk.require(10 in cs, "C16-d/base", "LlvImpl::" + name, "decimal base 10 not used (constants %s)" % sorted(cs), "base 10", body.sp())
    cs_s = consts_in(ser, ps.vx)
    cs_d = consts_in(de, pd.vx)
    chk.require(0xF0 in cs_s, "C16-d/mask", "LlvImpl::serialize", "digits are not written as 0xF0 | digit (constants %s)" % sorted(cs_s),
                "0xF0 | d", ser.sp())
    chk.require(0x0F in cs_d, "C16-d/mask", "LlvImpl::deserialize", "digits are not read as byte & 0x0F (constants %s)" % sorted(cs_d),
                "b & 0x0F", de.sp())
    # the writer fills *every* position: the digit loop is left only when its iterator is exhausted, and every
    # trip through it stores `0xF0 | digit` (a loop that stops at the last significant digit leaves 0x00 bytes)
    loops = ser.natural_loops()
    nexts = [(bb, t) for bb, t in ser.calls() if callee(t) == "core::iter::traits::iterator::Iterator::next"]
    lp = [(h, blks) for h, blks in loops.items() if any(bb in blks for bb, _ in nexts)]
    if lp and len(nexts) == 1 and nexts[0][1]["to"] is not None:
        h, blks = lp[0]
        sw = nexts[0][1]["to"]
        exits = sorted({(x, y) for x in blks for y in ser.succ[x] if y not in blks and ser.blocks[y]["term"]["t"] != "unreachable"})
        early = [e_ for e_ in exits if e_[0] != sw]
        chk.require(not early, "C16-d/every-position", "LlvImpl::serialize",
                    "the digit loop can be left before all N positions are written (exit from bb%s)" % [e_[0] for e_ in early],
                    "only exit: iterator exhausted", (ser.blocks[early[0][0]]["term"].get("sp") if early else None) or ser.sp())
        stores = set()
        for i in blks:
            for st in ser.blocks[i]["stmts"]:
                if st["s"] == "assign" and any(x[0] == "bin" and x[1] in ("BitOr", "|") and
                                                any(y == ("const", 0xF0) for y in x[2:4]) for x in walk(ps.vx.rvalue(st["rv"], i))):
                    stores.add(i)
        import contracts as _c
        chk.require(bool(stores) and _c.cycles_broken_by(ser, h, blks, stores), "C16-d/every-position", "LlvImpl::serialize (store)",
                    "a trip through the digit loop can skip the `0xF0 | digit` store", "every iteration stores 0xF0|d", ser.sp())
    # writer allocates N bytes; reader's data starts at N
    fe = [(bb, t) for bb, t in ser.calls() if callee(t) == "alloc::vec::from_elem"]
    ok = len(fe) == 1 and ps.vx.operand(fe[0][1]["args"][1], fe[0][0]) == ("constparam", "N")
    chk.require(ok, "C16-d/width", "LlvImpl::serialize", "prefix is not exactly N bytes wide", "vec![0; N]", ser.sp())
    import contracts
    rems = contracts.ok_remainders(pd)
    ok = len(rems) == 1
    if ok:
        r = strip_ref(rems[0][1])
        ok = r[0] == "call" and r[1] in INDEX and strip_ref(r[2][1])[0] == "agg" and \
            strip_ref(r[2][1])[1].endswith("RangeFrom::RangeFrom") and strip_ref(r[2][1])[2][0] == ("constparam", "N")
    if not ok and len(rems) == 1:
        # `let (digits, rest) = data.split_at(N)`: the second half is data[N..]
        r = strip_ref(rems[0][1])
        if r[0] == "proj" and tuple(r[2]) == ("1",) and r[1][0] == "call" and r[1][1] == "core::slice::<impl [T]>::split_at" and \
                len(r[1][2]) == 2 and r[1][2][1] == ("constparam", "N"):
            src_ = strip_ref(r[1][2][0])
            ok = src_[0] == "path" and src_[1] == pd.vx.root_name(1) and not src_[2]
    if not ok and len(rems) == 1:
        # the same thing with a slice iterator: `let mut it = data.iter(); for _ in 0..N { it.next()..; } .. it.as_slice()` -
        # one `next()` on every trip of the one 0..N loop and nowhere else leaves exactly data[N..]
        r = strip_ref(rems[0][1])
        if r[0] == "call" and r[1] == "core::slice::iter::Iter::<'a, T>::as_slice" and contracts.suffix_of_param(pd, r):
            it = strip_ref(r[2][0])
            nx = [(bb, t) for bb, t in de.calls() if callee(t) == "core::iter::traits::iterator::Iterator::next" and
                  "core::slice::iter::Iter" in ty_str(t["f"]["a"][0])]
            lps = range_loops(pd)
            if it[0] == "var" and len(nx) == 1 and len(lps) == 1 and lps[0]["lo"] == ("const", 0) and lps[0]["hi"] == ("constparam", "N"):
                a0 = strip_ref(pd.vx.operand(nx[0][1]["args"][0], nx[0][0]))
                loops_ = de.natural_loops()
                inside = [(h, blks) for h, blks in loops_.items() if nx[0][0] in blks]
                ok = a0[0] == "var" and a0[2] == it[2] and len(inside) >= 1 and \
                    all(contracts.cycles_broken_by(de, h, blks, {nx[0][0]}) for h, blks in inside if not contracts.is_await_loop(de, blks))
    chk.require(ok, "C16-d/data-offset", "LlvImpl::deserialize", "data does not start at offset N", "&data[N..]", de.sp())
    # writer most significant digit first: index runs (0..N).rev(); reader 0..N ascending with acc*10 + d
    rev = [t for _, t in ser.calls() if callee(t) == "core::iter::traits::iterator::Iterator::rev"]
    chk.require(len(rev) == 1, "C16-d/digit-order", "LlvImpl::serialize", "digits are not produced least-significant-last", "(0..N).rev()",
                ser.sp(), nontrivial=False)
    chk.require(bool(getattr(pd, "acc_bounds", None)), "C16-d/accumulate", "LlvImpl::deserialize",
                "reader does not accumulate rv = rv*10 + digit", "rv*10 + d", de.sp())
    if getattr(pd, "acc_bounds", None):
        info = list(pd.acc_bounds.values())[0]
        chk.require(info["c1"] == 10 and info["dmax"] == 15, "C16-d/accumulate-constants", "LlvImpl::deserialize",
                    "accumulator is rv*%d + (0..=%d)" % (info["c1"], info["dmax"]), "rv*10 + (b & 0xF)", de.sp())


def fixed(chk, bodies, crates):
    d = bodies.get("zvt_builder::length::Fixed<N>")
    if not chk.require(d is not None, "C16-e/present", "Fixed", "Fixed<N> not found", "", nontrivial=False):
        return
    ser, de = d["serialize"], d["deserialize"]
    pd = make_prover(de, crates)
    vx = pd.vx
    oks = []
    for i in sorted(de.reachable(0)):
        for st in de.blocks[i]["stmts"]:
            if st["s"] == "assign" and st["p"]["l"] == 0 and st["rv"]["r"] == "agg" and st["rv"].get("vname") == "Ok":
                oks.append((i, vx.rvalue(st["rv"], i)))
    good = len(oks) == 1
    if good:
        bb, e = oks[0]
        tup = e[2][0]
        good = tup[2][0] == ("constparam", "N") and strip_ref(tup[2][1]) == ("path", vx.root_name(1), ())
        from discharge import Lin, len_of
        ok2, _ = pd.prove_nonneg(len_of(pd, ("path", vx.root_name(1), ())).add(pd.lin(("constparam", "N")), -1), bb)
        good = good and ok2
    chk.require(good, "C16-e/fixed-reader", "Fixed::deserialize",
                "reader does not return exactly (N, data) under len >= N: %s" % [show(e)[:80] for _, e in oks], "(N, data) if len >= N",
                de.sp())
    ps = make_prover(ser, crates)
    fe = [(bb, t) for bb, t in ser.calls() if callee(t) == "alloc::vec::from_elem"]
    ok = len(fe) == 1
    if ok:
        n = ps.vx.operand(fe[0][1]["args"][1], fe[0][0])
        fill = ps.vx.operand(fe[0][1]["args"][0], fe[0][0])
        ok = n[0] == "bin" and n[1] == "Sub" and n[2] == ("constparam", "N") and n[3][0] == "path" and fill == ("const", 0)
    chk.require(ok, "C16-e/fixed-writer", "Fixed::serialize", "writer does not pad with N - len zero bytes", "vec![0; N - len]", ser.sp())


def custom_styles(chk, bodies, crates):
    """A length style outside the builder's table (today: feig `Temperature`, "whatever is left, at most 4"):
    its reader hands the whole input on as data (no prefix bytes), so its writer must emit no prefix bytes -
    anything it writes ends up in front of the payload and is read back as payload."""
    import contracts
    for style, d in sorted(bodies.items()):
        if style in SPEC or style.startswith(("zvt_builder::length::LlvImpl", "zvt_builder::length::Fixed")):
            continue
        short = style.rsplit("::", 1)[-1]
        ser, de = d.get("serialize"), d.get("deserialize")
        if not chk.require(ser is not None and de is not None, "C16-f/custom-style", short, "incomplete Length impl", "", nontrivial=False):
            continue
        pd, ps = make_prover(de, crates), make_prover(ser, crates)
        rems = contracts.ok_remainders(pd)
        whole = bool(rems) and all(strip_ref(r) == ("path", pd.vx.root_name(1), ()) for _, r in rems)
        if not chk.require(whole, "C16-f/custom-style", short + "::deserialize",
                           "a length style that is not in the specification table consumes prefix bytes: %s (cannot be judged)"
                           % [show(r)[:60] for _, r in rems], "data = the whole input", de.sp()):
            continue
        # writer: every returned vector is empty
        rets = []
        for i in sorted(ser.reachable(0)):
            for st in ser.blocks[i]["stmts"]:
                if st["s"] == "assign" and st["p"]["l"] == 0 and not st["p"]["p"]:
                    rets.append(ps.vx.rvalue(st["rv"], i))
            t = ser.blocks[i]["term"]
            if t["t"] == "call" and t["dest"]["l"] == 0 and not t["dest"]["p"]:
                rets.append(("call", callee(t), tuple(ps.vx.operand(a, i) for a in t["args"])))
        def empty(e):
            e = strip_ref(e)
            if e[0] == "call" and e[1] in ("alloc::vec::Vec::<T>::new", "core::default::Default::default"):
                return True
            if e[0] == "call" and e[1] in ("alloc::vec::from_elem", "alloc::vec::Vec::<T>::with_capacity"):
                return e[1].endswith("with_capacity") or e[2][1] == ("const", 0)
            return False
        chk.require(bool(rets) and all(empty(e) for e in rets), "C16-f/custom-style", short + "::serialize",
                    "the reader takes no prefix bytes but the writer emits %s" % [show(e)[:80] for e in rets],
                    "Vec::new()", ser.sp())


# the writer must not silently cut the length it is asked to encode (a length that a style cannot
# represent may panic or is out of the property's range, but representable lengths must not be
# narrowed before their digits/bytes are taken)
WRITER_TRUNCATION_EXCEPTIONS = {
    ("zvt_builder::length::Adpu", "usize as u16"):
        "APDU bodies above 65535 bytes are not representable (property range 0..65535); within the range the cast is lossless",
}


def writer_truncation(chk, bodies, crates):
    import sites
    from discharge import check_site
    n = 0
    for style, d in sorted(bodies.items()):
        b = d.get("serialize")
        if b is None:
            continue
        pr = make_prover(b, crates)
        for s in sites.enumerate_sites(b):
            if s["kind"] != "truncation":
                continue
            n += 1
            ok, why = check_site(pr, s)
            short = style.rsplit("::", 1)[-1]
            exc = WRITER_TRUNCATION_EXCEPTIONS.get((style, s["detail"]))
            if not ok and exc:
                # the exception is only valid if the operand is the plain length parameter
                src = pr.vx.operand(s["st"]["rv"]["o"], s["bb"])
                if src[0] == "path" and src[1] == pr.vx.root_name(1) and not src[2]:
                    chk.ok("C16-f/writer-truncation", "%s::serialize %s" % (short, s["detail"]), "tabled: " + exc, s.get("sp"), nontrivial=False)
                    continue
            chk.require(ok, "C16-f/writer-truncation", "%s::serialize %s" % (short, s["detail"]),
                        "the length is narrowed before it is encoded (%s): representable lengths would be written with wrong digits/bytes"
                        % why[:140], why[:100], s.get("sp"), key="C16-f/writer-truncation|%s|%s" % (style, s["detail"]))
    chk.floor("writer cast sites", n, 1)
