"""C12 — the derive macro implements the declared layout for any user-defined struct."""
import json
import os
import shutil
import subprocess
import sys

import codec_rules
import contracts
import facts
import layout
import mirlite
from discharge import make_prover
from mirlite import ty_str

LEVEL = "translation_validation"
EXPLANATION = (
    "Translation validation of the macro per generated program, entirely static. A generator (fixtures/derive_grid/"
    "gen.py) enumerates user-defined structs over the attribute grammar - positional / zvt_bmp(number) / zvt_tlv(tag) "
    "fields x every length style x every admissible (encoding, type) pair x {T, Option<T>, Vec<T>}, one- and two-byte "
    "tags, attribute keys in every order, nested structs to depth 3, up to 8 fields, optional control field - and "
    "writes down, from the grammar alone, the layout each struct's attributes describe. The structs are type-checked "
    "with the real macro under the MIR driver (never run); for every struct the layout extracted from the generated "
    "encoder AND from the generated decoder must equal the generator's description (field, tag, prefix style, value "
    "encoding, cardinality, order), encoder and decoder must agree with each other (C01-a/e), the tag loop must satisfy "
    "all C13 rules, every loop of the generated decoder needs a termination argument and its remainder must be a suffix "
    "of its input (C02-c, K-contract), and a control field must be the declared one. The generic Option<T>/Vec<T> "
    "serialiser impls these layouts run through are covered by C01-d/C02/C14 on zvt_builder. Not decided: the "
    "value-level inverse for those layouts.")
RULE = ("per generated struct: extracted encoder rows == described rows == extracted decoder rows (as canonical wire "
        "descriptors); codec_rules.check_enc_dec_agree; codec_rules.check_tag_loop; contracts.classify_loop; K-suffix.")

GRID = os.path.join(facts.VERIF, "fixtures", "derive_grid", "gen.py")


def build_fixture(mode, seed):
    # (the generated manifest has path dependencies on the analysed tree: its location is part of the key)
    key = facts.tree_key(False, "grid|%s|%d|%s" % (mode, seed, facts.REPO))
    out = os.path.join(facts.WORK, "grid", "%s-%d-%s" % (mode, seed, key))
    marker = os.path.join(out, "expected.json")
    if not os.path.exists(marker):
        if os.path.exists(out):
            shutil.rmtree(out)
        os.makedirs(out)
        r = subprocess.run([sys.executable, GRID, out, mode, str(seed)], stdout=subprocess.PIPE, stderr=subprocess.STDOUT, text=True)
        if r.returncode != 0:
            raise facts.FactError("grid generator failed: " + r.stdout[-2000:])
        shutil.copy(os.path.join(facts.REPO, "Cargo.lock"), os.path.join(out, "Cargo.lock"))
    # bound disk use: keep the three most recent fixtures
    root = os.path.join(facts.WORK, "grid")
    ds = sorted((os.path.join(root, d) for d in os.listdir(root)), key=os.path.getmtime, reverse=True)
    import time as _time
    for d in ds[3:]:
        # (never one that a concurrent run on another tree may still be building: only fixtures untouched for an hour)
        if d != out and _time.time() - os.path.getmtime(d) > 3600:
            shutil.rmtree(d, ignore_errors=True)
    return out


def vec_items(ctx, chk):
    """The repeated-field reader (`Vec<T>::deserialize_tagged`) keeps an element only if decoding it consumed input: at
    every `items.push(item)` the prover must derive len(remainder) < len(bytes) from the tests that dominate the push.
    (An element type that decodes from nothing - String, an all-optional struct - would otherwise be read out of an
    empty list: `[]` serialises to nothing and comes back as `[""]`.)"""
    from discharge import make_prover, Lin, len_of
    from expr import walk, strip_ref
    from mirlite import callee
    zb = ctx.crate("zvt_builder")
    crates = [zb, ctx.crate("zvt")]
    bodies = [b for b in zb.bodies.values() if b.raw.get("impl_trait") == "zvt_builder::ZvtSerializerImpl" and
              b.raw.get("name") == "deserialize_tagged" and b.raw["defkind"] == "AssocFn" and
              ty_str(b.raw.get("impl_self")).startswith("alloc::vec::Vec<")]
    if not chk.require(len(bodies) == 1, "C12-e/vec-impl", "Vec<T>::deserialize_tagged", "repeated-field reader not found (%d)" % len(bodies), "",
                       nontrivial=False):
        return
    b = bodies[0]
    pr = make_prover(b, crates)
    vx = pr.vx
    pushes = [(bb, t) for bb, t in b.calls() if callee(t) == "alloc::vec::Vec::<T, A>::push"]
    chk.require(len(pushes) >= 1, "C12-e/vec-item-consumed", "Vec<T>::deserialize_tagged", "no push of a decoded element found", "", b.sp(),
                nontrivial=False)
    for bb, t in pushes:
        item = vx.operand(t["args"][1], bb)
        # the decode call this element comes from, its input and its remainder
        calls = [x for x in walk(item) if x[0] == "call" and x[1] == layout.DESER]
        ok, why = False, "the pushed value does not come from a deserialize_tagged call"
        if calls:
            c = calls[0]
            inp = strip_ref(c[2][0])
            rem = ("proj", c, ("@Ok", "0", "1"))
            goal = len_of(pr, inp).add(len_of(pr, rem), -1).add(Lin(1), -1)
            ok, why = pr.prove_nonneg(goal, bb)
        chk.require(ok, "C12-e/vec-item-consumed", "Vec<T>::deserialize_tagged push@bb%d" % bb,
                    "an element is kept although decoding it may have consumed nothing (%s): an empty list would read back with a "
                    "phantom element" % str(why)[:160], "len(remainder) < len(input) at the push", t.get("sp"))


def optional_untagged(ctx, chk):
    """A positional (untagged) optional field is absent whenever its value cannot be decoded - whatever the reason: on
    every path of `Option<T>::deserialize_tagged` on which the tag argument is None the result is Ok.  (An absent
    `Option<Nested>` serialises to nothing; if only "input ran out" counted as absent, a Nested with a required tag
    would turn the absent field into MissingRequiredTags.)"""
    import pathsym as ps
    zb = ctx.crate("zvt_builder")
    bodies = [b for b in zb.bodies.values() if b.raw.get("impl_trait") == "zvt_builder::ZvtSerializerImpl" and
              b.raw.get("name") == "deserialize_tagged" and b.raw["defkind"] == "AssocFn" and
              ty_str(b.raw.get("impl_self")).startswith("core::option::Option<")]
    if not chk.require(len(bodies) == 1, "C12-g/option-impl", "Option<T>::deserialize_tagged", "optional-field reader not found (%d)" % len(bodies),
                       "", nontrivial=False):
        return
    b = bodies[0]
    pe = ps.PathEval(b, zb.adts)
    rets = [i for i in sorted(b.reachable(0)) if b.blocks[i]["term"]["t"] == "return"]
    n_none = n_ok = 0
    for r in rets:
        for path in ps.simple_paths(b, 0, r):
            env, conds = pe.run(path)
            tagged = None              # True: the path is taken only with a tag, False: only without one
            for _, ce, taken, listed in conds:
                c = ps.strip(ps.norm(ce))
                if c == ("discr", ("pre", 2)):
                    if taken in (0, 1):
                        tagged = bool(taken)
                    elif taken == "else" and len(listed) == 1 and listed[0] in (0, 1):
                        tagged = not bool(listed[0])
                if c[0] == "call" and c[2] and ps.strip(c[2][0]) == ("pre", 2):
                    truth = (taken == "else") if listed == [0] else (taken != 0)
                    if c[1].endswith("Option::<T>::is_none"):
                        tagged = not truth
                    elif c[1].endswith("Option::<T>::is_some"):
                        tagged = truth
            # ... or the element decoder is called with a literal `None` tag on this path
            for bb_ in path:
                t_ = b.blocks[bb_]["term"]
                if t_["t"] == "call" and mirlite.callee(t_) == layout.DESER and len(t_["args"]) == 2:
                    a_ = ps.strip(ps.norm(pe.operand(t_["args"][1], env)))
                    if a_[0] == "agg" and str(a_[1]).endswith("Option::None"):
                        tagged = False
            e = ps.norm(env.get(0, ("konst", "no value")))
            is_ok = e[0] == "agg" and str(e[1]).endswith("Result::Ok")
            n_ok += 1 if is_ok else 0
            if tagged is False:
                n_none += 1
            # a failing path must be one that is only taken with a tag
            chk.require(is_ok or tagged is True, "C12-g/optional-untagged-total", "Option<T>::deserialize_tagged",
                        "without a tag the optional-field reader can fail (%s): a positional optional that is absent would be an error "
                        "for element types whose decoder fails otherwise than by running out of input" % ps.show(e)[:80],
                        "Ok on every untagged path", b.sp())
    chk.require(n_none >= 1 and n_ok >= 2, "C12-g/optional-untagged-total", "Option<T>::deserialize_tagged",
                "expected a present and an absent successful path and one path taken without a tag, found %d/%d" % (n_ok, n_none), "",
                b.sp(), nontrivial=False)


def vec_writer(ctx, chk):
    """The repeated-field writer tags every element by handing its own tag argument down to the element's serialize_tagged
    (so that an element kind with its own rule - a nested Vec, an Option - still applies it); it writes no tag bytes of
    its own and passes no literal `None`."""
    from discharge import VEx
    from expr import walk, show
    from mirlite import callee
    zb = ctx.crate("zvt_builder")
    bodies = [b for b in zb.bodies.values() if (b.raw.get("impl_trait") == "zvt_builder::ZvtSerializerImpl" and
                                                 b.raw.get("name") == "serialize_tagged" and b.raw["defkind"] == "AssocFn" and
                                                 ty_str(b.raw.get("impl_self")).startswith("alloc::vec::Vec<"))]
    if not chk.require(len(bodies) == 1, "C12-h/vec-writer", "Vec<T>::serialize_tagged", "repeated-field writer not found (%d)" % len(bodies), "",
                       nontrivial=False):
        return
    root = bodies[0]
    scope = [root] + [b for b in zb.bodies.values() if b.id.startswith(root.id + "::{closure")]
    n = 0
    for b in scope:
        vx = VEx(b)
        for bb, t in b.calls():
            if callee(t) == layout.SER and len(t["args"]) == 2:
                n += 1
                a = vx.operand(t["args"][1], bb)
                tagname = root.local_name(2) or "_2"          # the vector's own tag parameter, whatever it is called
                from_tag = any((x[0] == "upvar" and x[1] == tagname) or (x[0] == "path" and x[1] in (tagname, "_2")) for x in walk(a))
                chk.require(from_tag, "C12-h/vec-writer", "Vec<T>::serialize_tagged",
                            "an element is serialised with %s instead of the tag handed to the vector: element kinds with their own "
                            "tagging rule (nested Vec, Option) get the wrong layout" % show(a)[:60], "element.serialize_tagged(tag.clone())",
                            t.get("sp"))
            elif callee(t) == "zvt_builder::encoding::Encoding::encode" and [ty_str(x) for x in t["f"]["a"]][1:2] == ["zvt_builder::Tag"]:
                chk.fail("C12-h/vec-writer", "Vec<T>::serialize_tagged", "the vector writes tag bytes itself instead of leaving the tagging to "
                         "the elements", t.get("sp"))
    chk.require(n >= 1, "C12-h/vec-writer", "Vec<T>::serialize_tagged", "no element serialisation found", "", root.sp(), nontrivial=False)


def option_writer(ctx, chk):
    """A present optional field is written exactly as the field itself would be: on every path of
    `Option<T>::serialize_tagged` on which `self` is `Some(x)` the result is `x.serialize_tagged(tag)` (no condition on
    the value or its encoding can suppress it - a zero BCD amount has an empty value encoding and is still a present
    field), and on the `None` path nothing is written."""
    import pathsym as ps
    zb = ctx.crate("zvt_builder")
    bodies = [b for b in zb.bodies.values() if b.raw.get("impl_trait") == "zvt_builder::ZvtSerializerImpl" and
              b.raw.get("name") == "serialize_tagged" and b.raw["defkind"] == "AssocFn" and
              ty_str(b.raw.get("impl_self")).startswith("core::option::Option<")]
    if not chk.require(len(bodies) == 1, "C12-h/option-writer", "Option<T>::serialize_tagged", "optional-field writer not found (%d)" % len(bodies),
                       "", nontrivial=False):
        return
    b = bodies[0]
    pe = ps.PathEval(b, zb.adts)
    rets = [i for i in sorted(b.reachable(0)) if b.blocks[i]["term"]["t"] == "return"]
    n = {0: 0, 1: 0}
    for r in rets:
        for path in ps.simple_paths(b, 0, r):
            env, conds = pe.run(path)
            which = None
            for _, ce, taken, listed in conds:
                c = ps.strip(ps.norm(ce))
                # (`self`, `self.as_ref()`, `&*self`: the same Option as far as present / absent goes)
                on_self = c[0] == "discr" and ps.core(c[1]) == ("pre", 1) and ps.field_chain(c[1])[1] == []
                if on_self and taken in (0, 1):
                    which = taken
                elif on_self and taken == "else" and len(listed) == 1 and listed[0] in (0, 1):
                    which = 1 - listed[0]
                elif c[0] == "call" and c[2] and ps.core(c[2][0]) == ("pre", 1) and c[1].endswith(("Option::<T>::is_some", "Option::<T>::is_none")):
                    truth = (taken == "else") if listed == [0] else (taken != 0)
                    which = int(truth) if c[1].endswith("is_some") else int(not truth)
            e = ps.strip(ps.norm(env.get(0, ("konst", "no value"))))
            if which is None:
                chk.fail("C12-h/option-writer", "Option<T>::serialize_tagged", "a path does not test whether the field is present (result %s)"
                         % ps.show(e)[:80], b.sp())
                continue
            n[which] += 1
            if which == 1:
                ok = e[0] == "call" and e[1] == layout.SER and len(e[2]) == 2 and ps.core(e[2][1]) == ("pre", 2) and \
                    ps.field_chain(ps.core(e[2][0]))[0] == ("pre", 1)
                chk.require(ok, "C12-h/option-writer", "Option<T>::serialize_tagged (Some)",
                            "a present optional field is written as %s instead of the field's own serialize_tagged(value, tag)" % ps.show(e)[:100],
                            "x.serialize_tagged(tag)", b.sp())
            else:
                ok = e[0] == "call" and (e[1] in ("alloc::vec::Vec::<T>::new", "core::default::Default::default") or
                                         (e[1] == "alloc::vec::from_elem" and ps.strip(e[2][1]) == ("konst", 0)))
                chk.require(ok, "C12-h/option-writer", "Option<T>::serialize_tagged (None)",
                            "an absent optional field writes %s" % ps.show(e)[:100], "Vec::new()", b.sp())
    chk.require(n[0] >= 1 and n[1] >= 1, "C12-h/option-writer", "Option<T>::serialize_tagged",
                "expected a present and an absent path, found %s" % n, "", b.sp(), nontrivial=False)


def run(ctx, chk):
    vec_items(ctx, chk)
    vec_writer(ctx, chk)
    option_writer(ctx, chk)
    optional_untagged(ctx, chk)
    # the declared value encoding of a field is only as good as that codec: Default little-endian and BigEndian big-endian in
    # both directions for every integral type (shared with C17-b)
    import rules_c17
    from report import Sub
    sub17 = Sub(chk, "C12-f", lambda r: r in ("C17-b/byte-order", "C17-a/encoder-exhausts-value") or r.startswith("C17-c/"))
    rules_c17.run(ctx, sub17)
    chk.floor("integral codec byte-order obligations (shared with C17-b)", sub17.count, 10)
    # ... and the declared length prefix style is only as good as that style: the C16 clauses
    import rules_c16
    sub16 = Sub(chk, "C12-f", lambda r: r.startswith("C16-"))
    rules_c16.run(ctx, sub16)
    chk.floor("length-style obligations (shared with C16)", sub16.count, 30)
    mode = "thorough" if ctx.tier == "thorough" else "quick"
    fx = build_fixture(mode, ctx.seed)
    with open(os.path.join(fx, "expected.json")) as fh:
        expected = json.load(fh)
    try:
        out, idx = facts.build(src=fx)
    except facts.FactError as e:
        chk.fail("C12/compiles", "derive_grid", "the generated well-formed structs do not compile with the macro: %s" % str(e)[-2600:],
                 key="C12/compiles|derive_grid")
        return
    grid = mirlite.Crate(facts.load(out, idx, "derive_grid", "rlib"), lower=getattr(ctx, "lower", False))
    crates = [ctx.crate("zvt_builder"), ctx.crate("zvt"), grid]
    impls = layout.codec_impl_bodies(grid)
    cmds = {}
    for im in grid.impls:
        if im.get("trait") == "zvt_builder::ZvtCommand":
            cmds[ty_str(im["self"])] = [x.get("v") for x in sorted(im["consts"], key=lambda c: c["name"])]
    n_structs = 0
    n_rows = 0
    shapes = set()
    flat = lambda d: [d["field"], d["tag"], d["prefix"], d["value"], d["card"]]
    for sname, exp in sorted(expected.items()):
        d = impls.get(sname)
        if not chk.require(d is not None and "encode" in d and "decode" in d, "C12/impl-present", sname,
                           "no generated codec found for the struct", "", nontrivial=False):
            continue
        n_structs += 1
        want = exp["rows"]
        try:
            erows = layout.extract_encode(d["encode"])
            info = layout.extract_decode(d["decode"])
        except layout.ShapeError as e:
            chk.fail("C12/shape", sname, "generated code not analysable: %s" % e.msg, key="C12/shape|" + shape_of(want))
            continue
        got_e = [flat(layout.descriptor(r)) for r in erows]
        gpos = [flat(layout.descriptor(r)) for r in info.positional]
        gtag = sorted((flat(layout.descriptor(r)) for r in info.tagged), key=lambda r: (r[1], r[0]))
        wpos = [w for w in want if w[1] is None]
        wtag = sorted((w for w in want if w[1] is not None), key=lambda r: (r[1], r[0]))
        sh = shape_of(want)
        shapes.add(sh)
        n_rows += len(want)
        chk.require(got_e == want, "C12-a/encoder-layout", sname,
                    "declared layout %s but the generated serialiser implements %s" % (want, got_e), "%d rows" % len(want),
                    key="C12-a/encoder-layout|" + sh)
        chk.require(gpos == wpos and gtag == wtag, "C12-a/decoder-layout", sname,
                    "declared layout %s but the generated deserialiser reads positional %s tagged %s" % (want, gpos, gtag),
                    "%d rows" % len(want), key="C12-a/decoder-layout|" + sh)
        codec_rules.check_enc_dec_agree(chk, sname, erows, info, d["encode"], d["decode"], "C12-b")
        codec_rules.check_tag_loop(chk, sname, d["decode"], info, "C12-c")
        # loops + suffix contract of the generated decoder
        pr = make_prover(d["decode"], crates)
        for h, blks in sorted(d["decode"].natural_loops().items()):
            kind, ok, why = contracts.classify_loop(pr, h, blks)
            chk.require(ok, "C12-d/progress", sname, "generated decoder loop may not terminate: " + why, kind,
                        key="C12-d/progress|" + sh, nontrivial=False)
        contracts.check_suffix_contract(chk, pr, "C12-d/K-suffix", sname)
        cf = exp.get("control_field")
        have = cmds.get(sname)
        if cf is None:
            chk.require(have is None, "C12-e/control-field", sname, "struct without control field implements ZvtCommand", "", nontrivial=False)
        else:
            chk.require(have == cf, "C12-e/control-field", sname, "control field declared %s but generated %s" % (cf, have),
                        "%02X %02X" % tuple(cf))
    chk.coverage_extra["programs"] = n_structs
    chk.analysed["generated_structs"] = n_structs
    chk.analysed["rows"] = n_rows
    chk.analysed["distinct_row_shapes"] = len(shapes)
    chk.analysed["fixture"] = fx
    chk.floor("generated structs validated", n_structs, 140 if mode == "quick" else 2600)
    chk.floor("rows validated", n_rows, 200 if mode == "quick" else 3600)


def shape_of(rows):
    """Line-number free key of a struct: its row shapes."""
    return ";".join("%s/%s/%s/%s" % ("T" if r[1] is not None else "P", r[2], r[3].split(":")[0], r[4]) for r in rows)[:300]
