"""C18 — card identity is a fixed function of the data the terminal reports."""
from mirlite import callee, ty_str
from client import Fn, FEIG, STREAM, NEXT, variant_switches, follow, is_call, mentions_path
from expr import show, walk, strip_ref
import rules_c20

EXPLANATION = (
    "Guard and transformation-chain rules over Feig::read_card (expression trees from MIR). Decided: CardInfo::Bank is "
    "constructed only under the FALSE edge of is_empty(tlv.subs) and the TRUE edge of is_some(subs[0].application_id) "
    "- hence a card that lists a payment application is never a membership card, because MembershipCard is "
    "constructed only under the TRUE edge of is_empty(tlv.subs); the membership id derives from tlv.uuid only, through "
    "exactly: to_uppercase, then - both under the edge len > 14 - the suffix slice [len-14..] and strip_prefix("
    "\"000000\") (constants compared with the specification: 14, 14, \"000000\"); no other transformation or source "
    "feeds it; the classification reads only the StatusInformation of this exchange; the abort arm returns "
    "NoCardPresented only for code 0x6C and an error otherwise (shared rule with C20). Identical for every presentation "
    "of the same card because the value depends on nothing but the reported uid.")
RULE = ("edge-dominance of constructor sites by the classification tests; operation set + constants + order of the "
        "definitions of the uid variable; sources of the membership string.")

KEEP = 14
STRIP = "000000"
NEUTRAL = ("alloc::string::ToString::to_string", "core::ops::deref::Deref::deref", "core::option::Option::<T>::unwrap_or",
           "alloc::string::String::len", "core::clone::Clone::clone", "alloc::string::String::as_str",
           "core::ops::index::Index::index", "alloc::borrow::ToOwned::to_owned", "core::convert::From::from",
           "core::convert::Into::into", "core::str::<impl str>::len")
UPPER = "alloc::str::<impl str>::to_uppercase"
STRIPP = "core::str::<impl str>::strip_prefix"


def run(ctx, chk):
    crate = ctx.crate("zvt_feig_terminal")
    zvt = ctx.crate("zvt")
    f = Fn(crate, "read_card")
    # constructor sites
    sites = {"Bank": [], "MembershipCard": []}
    for i in sorted(f.reach):
        for st in f.b.blocks[i]["stmts"]:
            if st["s"] == "assign" and st["rv"]["r"] == "agg" and st["rv"].get("n") == "zvt_feig_terminal::feig::CardInfo":
                sites[st["rv"]["vname"]].append((i, st))
    chk.require(sites["Bank"] and sites["MembershipCard"], "C18/anchor", "read_card", "CardInfo constructor sites not found", "",
                nontrivial=False)

    def subs_of_tlv(e):
        return any(x[0] in ("path", "proj") and x[2][-1:] == ("subs",) for x in walk(e)) or \
            any(x[0] == "path" and x[1] == "tlv" and x[2] == ("subs",) for x in walk(e))
    emp = f.bool_switches(lambda e: (is_call(e, "Vec::<T, A>::is_empty") or is_call(e, "<impl [T]>::is_empty")) and subs_of_tlv(e))
    neg = f.bool_switches(lambda e: e[0] == "un" and e[1] == "Not" and (is_call(e[2], "Vec::<T, A>::is_empty")) and subs_of_tlv(e[2]))
    tests = [(bb, tt, ft) for bb, e, tt, ft in emp] + [(bb, ft, tt) for bb, e, tt, ft in neg]
    if not chk.require(len(tests) == 1, "C18/listed-apps-test", "read_card",
                       "expected one is_empty() test of the reported application list, found %d" % len(tests), "", f.sp()):
        return
    tbb, empty_t, nonempty_t = tests[0]
    for bb, st in sites["Bank"]:
        chk.require(f.edge_dominates((tbb, nonempty_t), bb), "C18/bank-needs-application", "CardInfo::Bank",
                    "a bank card is reported on a path where no payment application was listed", "under !subs.is_empty()", f.sp(bb))
    some = f.bool_switches(lambda e: is_call(e, "Option::<T>::is_some") and
                           any(x[0] in ("path", "proj") and "application_id" in x[2] for x in walk(e)))
    if chk.require(len(some) == 1, "C18/application-id-test", "read_card",
                   "expected one is_some() test of the first application's id, found %d" % len(some), "", f.sp()):
        sbb, e, tt, ft = some[0]
        for bb, st in sites["Bank"]:
            chk.require(f.edge_dominates((sbb, tt), bb), "C18/bank-needs-application-id", "CardInfo::Bank",
                        "a bank card is reported without an application id", "under application_id.is_some()", f.sp(bb))
        # the tested application is element 0 of the list
        idx = [x for x in walk(e) if x[0] == "call" and x[1].endswith("Index::index")]
        chk.require(idx and idx[0][2][1] == ("const", 0), "C18/first-application", "read_card",
                    "the application id is not taken from the first listed application", "subs[0]", f.sp(sbb), nontrivial=False)
        chk.require(f.edge_dominates((tbb, nonempty_t), sbb), "C18/index-guarded", "subs[0]",
                    "subs[0] is evaluated without knowing the list is non-empty (panic)", "guarded by !is_empty", f.sp(sbb))
    for bb, st in sites["MembershipCard"]:
        chk.require(f.edge_dominates((tbb, empty_t), bb), "C18/member-needs-no-application", "CardInfo::MembershipCard",
                    "a membership card is reported although a payment application may be listed", "under subs.is_empty()", f.sp(bb))
        # payload is the uid variable
        pay = f.ex.operand(st["rv"]["ops"][0])
        pay_ok = (pay[0] in ("var", "path") and pay[1] == "uuid") or \
            (pay[0] == "call" and pay[1] in ("alloc::string::ToString::to_string", "alloc::borrow::ToOwned::to_owned") and
             any(x[0] in ("var", "path") and x[1] == "uuid" for x in walk(pay)))
        chk.require(pay_ok, "C18/member-payload",
                    "CardInfo::MembershipCard", "the membership id is %s, not the processed uid" % show(pay)[:80], "uuid", f.sp(bb),
                    nontrivial=False)
    uid_chain(chk, f)
    # abort handling: delegate to the C20 arm rule for this function
    sws = [s for s in variant_switches(f, zvt.adts) if "Abort" in s[2] or "Abort" in s[4]]
    if chk.require(len(sws) == 1, "C18/abort-arm", "read_card", "reply match with Abort arm not found", "", f.sp(), nontrivial=False):
        bb, enum, targets, else_t, rest, pexpr = sws[0]
        if "Abort" in targets:
            sub = type(chk)("C18", chk.tier, chk.seed, "", "")
            rules_c20.check_arm(sub, f, "read_card", enum, "Abort", follow(f, targets["Abort"]), bb)
            for o in sub.obligations:
                o = dict(o)
                o["rule"] = o["rule"].replace("C20/", "C18/abort-")
                chk.obligations.append(o)
            for v in sub.violations:
                v = dict(v)
                v["rule"] = v["rule"].replace("C20/", "C18/abort-")
                v["key"] = v["key"].replace("C20/", "C18/abort-")
                chk.violations.append(v)
    chk.floor("C18 obligations", len(chk.obligations), 14)


def uid_chain(chk, f):
    # the uid may live in one reassigned variable or in a chain of shadowed bindings
    uu = [l for l, loc in enumerate(f.b.locals) if loc.get("name") == "uuid" and
          ty_str(loc["ty"]) in ("alloc::string::String", "&str", "&alloc::string::String")]
    if not chk.require(len(uu) >= 1, "C18/uid-variable", "read_card", "uid variable not found", "", f.sp()):
        return
    defs = []
    seen = set()
    for l in uu:
        for d in f.tr.defs.get(l, []):
            e = f.ex.rvalue(d[3]["rv"]) if d[2] == "assign" else f.call_expr(d[3], d[0])
            key = show(e)
            if key in seen:
                continue
            seen.add(key)
            defs.append((d[0], e))
    kinds = {}
    for bb, e in defs:
        calls = [x[1] for x in walk(e) if x[0] == "call"]
        transforming = [c for c in calls if c not in NEUTRAL and not c.startswith(("core::future", "core::pin", "tokio_stream",
                                                                                   "zvt_feig_terminal::stream", "core::ops::try_trait",
                                                                                   "core::option::Option::<T>::ok_or",
                                                                                   "futures_util", "core::time"))]
        is_source = any(x[0] in ("path", "proj") and "uuid" in x[2] for x in walk(e)) and not transforming
        slices = [x for x in walk(e) if x[0] == "call" and x[1] == "core::ops::index::Index::index"]
        if is_source and not slices:
            kinds.setdefault("source", []).append((bb, e))
        elif transforming == [UPPER]:
            kinds.setdefault("upper", []).append((bb, e))
        elif transforming == [STRIPP]:
            kinds.setdefault("strip", []).append((bb, e))
        elif not transforming and slices:
            kinds.setdefault("slice", []).append((bb, e))
        else:
            kinds.setdefault("other", []).append((bb, e))
    chk.require(not kinds.get("other"), "C18/uid-only-known-steps", "uuid",
                "the uid undergoes an unexpected transformation: %s" % [show(e)[:100] for _, e in kinds.get("other", [])],
                "only upper-case, suffix, strip", f.sp())
    for k in ("source", "upper", "slice", "strip"):
        if not chk.require(len(kinds.get(k, [])) == 1, "C18/uid-step", k,
                           "expected exactly one '%s' step for the uid, found %d" % (k, len(kinds.get(k, []))), "", f.sp()):
            return
    sbb, se = kinds["source"][0]
    ubb, ue = kinds["upper"][0]
    lbb, le = kinds["slice"][0]
    pbb, pe = kinds["strip"][0]
    # source: tlv.uuid of the StatusInformation of this stream
    chk.require(any(x[0] in ("path", "proj") and "uuid" in x[2] and "@Some" in x[2] for x in walk(se)), "C18/uid-source", "uuid",
                "the uid does not come from tlv.uuid: %s" % show(se)[:100], "tlv.uuid", f.sp(sbb))
    # the test len > KEEP
    gt = f.bool_switches(lambda e: e[0] == "bin" and e[1] in ("Gt", "Ge", "Lt", "Le") and
                         any(is_call(x, "String::len") for x in (e[2], e[3])))
    if not chk.require(len(gt) == 1, "C18/length-test", "uuid", "expected one length test of the uid, found %d" % len(gt), "", f.sp()):
        return
    gbb, ge, tt, ft = gt[0]
    # normalise the comparison to "<edge> is taken iff len >= M" (so `len > 14`, `len >= 15`, `14 < len`,
    # `!(len <= 14)` are the same test)
    op, a, b_ = ge[1], ge[2], ge[3]
    if not is_call(a, "String::len"):
        a, b_ = b_, a
        op = {"Gt": "Lt", "Ge": "Le", "Lt": "Gt", "Le": "Ge"}[op]
    M = None
    long_edge = tt
    if is_call(a, "String::len") and b_[0] == "const" and isinstance(b_[1], int):
        k = b_[1]
        if op == "Gt":
            M, long_edge = k + 1, tt
        elif op == "Ge":
            M, long_edge = k, tt
        elif op == "Le":
            M, long_edge = k + 1, ft
        elif op == "Lt":
            M, long_edge = k, ft
    chk.require(M == KEEP + 1, "C18/length-constant", "uuid", "length test is %s, specification: longer than %d digits" % (show(ge), KEEP),
                "len > 14", f.sp(gbb))
    chk.require(f.b.dominates(sbb, ubb) and f.b.dominates(ubb, gbb), "C18/upper-first", "uuid",
                "upper-casing does not precede the length test on every path", "source -> upper -> test", f.sp(ubb))
    chk.require(f.edge_dominates((gbb, long_edge), lbb) and f.edge_dominates((gbb, long_edge), pbb) and f.b.dominates(lbb, pbb),
                "C18/cut-then-strip", "uuid", "the suffix cut and the prefix strip are not applied (in this order) exactly for long uids",
                "under len > 14: slice then strip", f.sp(lbb))
    # slice = [len - KEEP ..]
    rng = [x for x in walk(le) if x[0] == "agg" and x[1].endswith("RangeFrom::RangeFrom")]
    good = False
    if rng:
        a = rng[0][2][0]
        good = a[0] == "bin" and a[1] == "Sub" and is_call(a[2], "String::len") and a[3] == ("const", KEEP)
    chk.require(good, "C18/suffix-constant", "uuid", "the cut is %s, specification: last %d digits" % (show(rng[0])[:80] if rng else None, KEEP),
                "[len-14..]", f.sp(lbb))
    st = [x for x in walk(pe) if x[0] == "call" and x[1] == STRIPP]
    chk.require(st and st[0][2][1] == ("const", STRIP), "C18/strip-constant", "uuid",
                "strip_prefix argument is %s, specification: %r" % (show(st[0][2][1]) if st else None, STRIP), repr(STRIP), f.sp(pbb))
    # unwrap_or falls back to the unstripped value
    uo = [x for x in walk(pe) if x[0] == "call" and x[1] == "core::option::Option::<T>::unwrap_or"]
    chk.require(uo and any(y[0] in ("var", "path") and y[1] == "uuid" for y in walk(uo[0][2][1])), "C18/strip-fallback", "uuid",
                "when the prefix is absent the value is not kept", "unwrap_or(&uuid)", f.sp(pbb), nontrivial=False)
