"""C18 — card identity is a fixed function of the data the terminal reports."""
from mirlite import callee, ty_str
from client import emptiness_switches, option_switches, Fn, FEIG, STREAM, NEXT, variant_switches, follow, is_call, mentions_path
from expr import show, walk, strip_ref
import rules_c20

EXPLANATION = (
    "Guard and transformation-chain rules over Feig::read_card (expression trees from MIR). Decided: CardInfo::Bank is "
    "constructed only under the FALSE edge of is_empty(tlv.subs) and the TRUE edge of is_some(subs[0].application_id) "
    "- hence a card that lists a payment application is never a membership card, because MembershipCard is "
    "constructed only under the TRUE edge of is_empty(tlv.subs); the membership id derives from tlv.uuid only, through "
    "exactly: to_uppercase, then - both under the edge len > 14 - the suffix slice [len-14..] and strip_prefix("
    "\"000000\") (constants compared with the specification: 14, 14, \"000000\"); no other transformation or source "
    "feeds it; the classification reads only the StatusInformation of this exchange; the abort arm returns "
    "NoCardPresented only for code 0x6C and an error otherwise (shared rule with C20). Identical for every presentation "
    "of the same card because the value depends on nothing but the reported uid.")
RULE = ("edge-dominance of constructor sites by the classification tests; operation set + constants + order of the "
        "definitions of the uid variable; sources of the membership string.")

KEEP = 14
STRIP = "000000"
NEUTRAL = ("alloc::string::ToString::to_string", "core::ops::deref::Deref::deref", "core::option::Option::<T>::unwrap_or",
           "alloc::string::String::len", "core::clone::Clone::clone", "alloc::string::String::as_str",
           "core::ops::index::Index::index", "alloc::borrow::ToOwned::to_owned", "core::convert::From::from",
           "core::convert::Into::into", "core::str::<impl str>::len")
UPPER = "alloc::str::<impl str>::to_uppercase"
STRIPP = "core::str::<impl str>::strip_prefix"


def run(ctx, chk):
    crate = ctx.crate("zvt_feig_terminal")
    zvt = ctx.crate("zvt")
    f = Fn(crate, "read_card")
    # constructor sites
    sites = {"Bank": [], "MembershipCard": []}
    for i in sorted(f.reach):
        for st in f.b.blocks[i]["stmts"]:
            if st["s"] == "assign" and st["rv"]["r"] == "agg" and st["rv"].get("n") == "zvt_feig_terminal::feig::CardInfo":
                sites[st["rv"]["vname"]].append((i, st))
    chk.require(sites["Bank"] and sites["MembershipCard"], "C18/anchor", "read_card", "CardInfo constructor sites not found", "",
                nontrivial=False)

    def subs_of_tlv(e):
        return any(x[0] in ("path", "proj") and x[2][-1:] == ("subs",) for x in walk(e)) or \
            any(x[0] == "path" and x[1] == "tlv" and x[2] == ("subs",) for x in walk(e))
    # "the terminal lists a payment application": any spelling of the non-emptiness test of tlv.subs -
    # is_empty()/len() comparisons, or Some/None of subs.first() / subs.get(0)
    def first_of_subs(x):
        x = strip_ref(x)
        if x[0] == "call" and x[1].endswith("<impl [T]>::first") and subs_of_tlv(x):
            return True
        return x[0] == "call" and x[1].endswith("<impl [T]>::get") and len(x[2]) == 2 and x[2][1] == ("const", 0) and subs_of_tlv(x)
    tests = [(bb, et, nt) for bb, e, et, nt in emptiness_switches(
        f, subs_of_tlv, len_suffixes=("Vec::<T, A>::len", "<impl [T]>::len"),
        empty_suffixes=("Vec::<T, A>::is_empty", "<impl [T]>::is_empty"))]
    first_tests = option_switches(f, first_of_subs)
    tests += [(bb, none_t, some_t) for bb, x, some_t, none_t in first_tests]
    # a repeated test behind a decided edge of an earlier one (second arm of a slice-pattern match: `[]` after
    # `[first, ..]` failed) decides nothing new: the earlier test is *the* test
    tests = [x for x in tests if not any(y is not x and y[0] != x[0] and
                                         any(z is not None and f.b.dominates(z, x[0]) for z in (y[1], y[2])) for y in tests)]
    if not chk.require(len(tests) == 1, "C18/listed-apps-test", "read_card",
                       "expected one emptiness test of the reported application list, found %d" % len(tests), "", f.sp()):
        return
    tbb, empty_t, nonempty_t = tests[0]
    for bb, st in sites["Bank"]:
        chk.require(f.edge_dominates((tbb, nonempty_t), bb), "C18/bank-needs-application", "CardInfo::Bank",
                    "a bank card is reported on a path where no payment application was listed", "under !subs.is_empty()", f.sp(bb))
    some = option_switches(f, lambda x: any(y[0] in ("path", "proj") and "application_id" in y[2] for y in walk(x)))
    if chk.require(len(some) == 1, "C18/application-id-test", "read_card",
                   "expected one Some/None test of the first application's id, found %d" % len(some), "", f.sp()):
        sbb, e, tt, ft = some[0]
        for bb, st in sites["Bank"]:
            chk.require(f.edge_dominates((sbb, tt), bb), "C18/bank-needs-application-id", "CardInfo::Bank",
                        "a bank card is reported without an application id", "under application_id.is_some()", f.sp(bb))
        # the tested application is element 0 of the list
        idx = [x for x in walk(e) if x[0] == "call" and x[1].endswith("Index::index")]
        first = (idx and idx[0][2][1] == ("const", 0)) or any(first_of_subs(x) for x in walk(e)) or \
            any(x[0] in ("proj", "path") and "[0]" in x[2] and "[1]" not in x[2] and subs_of_tlv(x) for x in walk(e))   # `[first, ..]`
        chk.require(first, "C18/first-application", "read_card",
                    "the application id is not taken from the first listed application", "subs[0]", f.sp(sbb), nontrivial=False)
        chk.require(f.edge_dominates((tbb, nonempty_t), sbb), "C18/index-guarded", "subs[0]",
                    "subs[0] is evaluated without knowing the list is non-empty (panic)", "guarded by !is_empty", f.sp(sbb))
    for bb, st in sites["MembershipCard"]:
        chk.require(f.edge_dominates((tbb, empty_t), bb), "C18/member-needs-no-application", "CardInfo::MembershipCard",
                    "a membership card is reported although a payment application may be listed", "under subs.is_empty()", f.sp(bb))
    uid_paths(chk, f, zvt, sites)
    # abort handling: delegate to the C20 arm rule for this function
    sws = [s for s in variant_switches(f, zvt.adts) if "Abort" in s[2] or "Abort" in s[4]]
    if chk.require(len(sws) == 1, "C18/abort-arm", "read_card", "reply match with Abort arm not found", "", f.sp(), nontrivial=False):
        bb, enum, targets, else_t, rest, pexpr = sws[0]
        if "Abort" in targets:
            sub = type(chk)("C18", chk.tier, chk.seed, "", "")
            rules_c20.ZVT_ADTS.update(zvt.adts)
            rules_c20.check_arm(sub, f, "read_card", enum, "Abort", follow(f, targets["Abort"]), bb)
            for o in sub.obligations:
                o = dict(o)
                o["rule"] = o["rule"].replace("C20/", "C18/abort-")
                chk.obligations.append(o)
            for v in sub.violations:
                v = dict(v)
                v["rule"] = v["rule"].replace("C20/", "C18/abort-")
                v["key"] = v["key"].replace("C20/", "C18/abort-")
                chk.violations.append(v)
    # the card's status reaches read_card through the retry wrapper: its per-attempt bookkeeping (a failed attempt
    # is abandoned, a successful one is final and not re-issued) is decided by the C09-a/b clauses
    import rules_c09
    from report import Sub
    sub9 = Sub(chk, "C18/transport", lambda r: r in ("C09-a/reset-on-failure", "C09-b/keep-on-success", "C09-b/reconnect-only-when-dead"))
    rules_c09.retry(sub9, crate)
    chk.floor("retry-wrapper obligations (shared with C09)", sub9.count, 3)
    # ... and a card that is reported after a row of intermediate statuses is still this exchange's answer: the wait budget
    # of the wrapper is per packet (`read_card_timeout + 2` s was chosen for that meaning), not one deadline for the exchange
    import rules_c10
    sub10 = Sub(chk, "C18/transport", lambda r: r in ("C10-a/per-await-budget", "C10-a/await-bounded"),
                instance_filter=lambda i: "into_stream_with_retry" in str(i))
    rules_c10.run(ctx, sub10)
    chk.floor("per-packet wait obligations (shared with C10-a)", sub10.count, 2)
    # ... and the status reaches the client through read_packet: a reply that is framed wrongly (extended length header
    # dropped, body cut short) is not "the data the terminal reports" - the C04-b/d clauses
    import rules_c04
    sub4 = Sub(chk, "C18/transport", lambda r: r.startswith(("C04-b/", "C04-d/")))
    rules_c04.run(ctx, sub4)
    chk.floor("read_packet framing obligations (shared with C04)", sub4.count, 5)
    # ... and is decoded with the specified layout: a value codec that refuses legal data (an application id of 4 bytes)
    # makes the whole status unreadable - the C03-a rows of the status-information containers
    import rules_c03
    sub3 = Sub(chk, "C18/layout", lambda r: r in ("C03-a/encoder-row", "C03-a/decoder-row", "C03-a/encoder-shape", "C03-a/decoder-shape"),
               instance_filter=lambda i: any(s_ in str(i) for s_ in ("tlv::StatusInformation", "tlv::Subs", "packets::StatusInformation")))
    rules_c03._run_own(ctx, sub3)
    chk.floor("status-information layout rows (shared with C03-a)", sub3.count, 6)
    # ... whose containers are BER-TLV: a card with many applications needs the 0x81 / 0x82 length forms - a reader that gets
    # one of them wrong turns a bank card into a decoding error (the C16-b clauses of the Tlv length style)
    import rules_c16
    sub16 = Sub(chk, "C18/layout", lambda r: r.startswith("C16-b/"), instance_filter=lambda i: str(i).startswith("Tlv"))
    rules_c16.run(ctx, sub16)
    chk.floor("TLV length-form obligations (shared with C16-b)", sub16.count, 4)
    chk.floor("C18 obligations", len(chk.obligations), 14)


def uid_chain(chk, f):
    # the uid may live in one reassigned variable or in a chain of shadowed bindings
    uu = [l for l, loc in enumerate(f.b.locals) if loc.get("name") == "uuid" and
          ty_str(loc["ty"]) in ("alloc::string::String", "&str", "&alloc::string::String")]
    if not chk.require(len(uu) >= 1, "C18/uid-variable", "read_card", "uid variable not found", "", f.sp()):
        return
    defs = []
    seen = set()
    for l in uu:
        for d in f.tr.defs.get(l, []):
            e = f.ex.rvalue(d[3]["rv"]) if d[2] == "assign" else f.call_expr(d[3], d[0])
            key = show(e)
            if key in seen:
                continue
            seen.add(key)
            defs.append((d[0], e))
    kinds = {}
    for bb, e in defs:
        calls = [x[1] for x in walk(e) if x[0] == "call"]
        transforming = [c for c in calls if c not in NEUTRAL and not c.startswith(("core::future", "core::pin", "tokio_stream",
                                                                                   "zvt_feig_terminal::stream", "core::ops::try_trait",
                                                                                   "core::option::Option::<T>::ok_or",
                                                                                   "futures_util", "core::time"))]
        is_source = any(x[0] in ("path", "proj") and "uuid" in x[2] for x in walk(e)) and not transforming
        slices = [x for x in walk(e) if x[0] == "call" and x[1] == "core::ops::index::Index::index"]
        if is_source and not slices:
            kinds.setdefault("source", []).append((bb, e))
        elif transforming == [UPPER]:
            kinds.setdefault("upper", []).append((bb, e))
        elif transforming == [STRIPP]:
            kinds.setdefault("strip", []).append((bb, e))
        elif not transforming and slices:
            kinds.setdefault("slice", []).append((bb, e))
        else:
            kinds.setdefault("other", []).append((bb, e))
    chk.require(not kinds.get("other"), "C18/uid-only-known-steps", "uuid",
                "the uid undergoes an unexpected transformation: %s" % [show(e)[:100] for _, e in kinds.get("other", [])],
                "only upper-case, suffix, strip", f.sp())
    for k in ("source", "upper", "slice", "strip"):
        if not chk.require(len(kinds.get(k, [])) == 1, "C18/uid-step", k,
                           "expected exactly one '%s' step for the uid, found %d" % (k, len(kinds.get(k, []))), "", f.sp()):
            return
    sbb, se = kinds["source"][0]
    ubb, ue = kinds["upper"][0]
    lbb, le = kinds["slice"][0]
    pbb, pe = kinds["strip"][0]
    # source: tlv.uuid of the StatusInformation of this stream
    chk.require(any(x[0] in ("path", "proj") and "uuid" in x[2] and "@Some" in x[2] for x in walk(se)), "C18/uid-source", "uuid",
                "the uid does not come from tlv.uuid: %s" % show(se)[:100], "tlv.uuid", f.sp(sbb))
    # the test len > KEEP
    gt = f.bool_switches(lambda e: e[0] == "bin" and e[1] in ("Gt", "Ge", "Lt", "Le") and
                         any(is_call(x, "String::len") for x in (e[2], e[3])))
    if not chk.require(len(gt) == 1, "C18/length-test", "uuid", "expected one length test of the uid, found %d" % len(gt), "", f.sp()):
        return
    gbb, ge, tt, ft = gt[0]
    # normalise the comparison to "<edge> is taken iff len >= M" (so `len > 14`, `len >= 15`, `14 < len`,
    # `!(len <= 14)` are the same test)
    op, a, b_ = ge[1], ge[2], ge[3]
    if not is_call(a, "String::len"):
        a, b_ = b_, a
        op = {"Gt": "Lt", "Ge": "Le", "Lt": "Gt", "Le": "Ge"}[op]
    M = None
    long_edge = tt
    if is_call(a, "String::len") and b_[0] == "const" and isinstance(b_[1], int):
        k = b_[1]
        if op == "Gt":
            M, long_edge = k + 1, tt
        elif op == "Ge":
            M, long_edge = k, tt
        elif op == "Le":
            M, long_edge = k + 1, ft
        elif op == "Lt":
            M, long_edge = k, ft
    chk.require(M == KEEP + 1, "C18/length-constant", "uuid", "length test is %s, specification: longer than %d digits" % (show(ge), KEEP),
                "len > 14", f.sp(gbb))
    chk.require(f.b.dominates(sbb, ubb) and f.b.dominates(ubb, gbb), "C18/upper-first", "uuid",
                "upper-casing does not precede the length test on every path", "source -> upper -> test", f.sp(ubb))
    chk.require(f.edge_dominates((gbb, long_edge), lbb) and f.edge_dominates((gbb, long_edge), pbb) and f.b.dominates(lbb, pbb),
                "C18/cut-then-strip", "uuid", "the suffix cut and the prefix strip are not applied (in this order) exactly for long uids",
                "under len > 14: slice then strip", f.sp(lbb))
    # slice = [len - KEEP ..]
    rng = [x for x in walk(le) if x[0] == "agg" and x[1].endswith("RangeFrom::RangeFrom")]
    good = False
    if rng:
        a = rng[0][2][0]
        good = a[0] == "bin" and a[1] == "Sub" and is_call(a[2], "String::len") and a[3] == ("const", KEEP)
    chk.require(good, "C18/suffix-constant", "uuid", "the cut is %s, specification: last %d digits" % (show(rng[0])[:80] if rng else None, KEEP),
                "[len-14..]", f.sp(lbb))
    st = [x for x in walk(pe) if x[0] == "call" and x[1] == STRIPP]
    chk.require(st and st[0][2][1] == ("const", STRIP), "C18/strip-constant", "uuid",
                "strip_prefix argument is %s, specification: %r" % (show(st[0][2][1]) if st else None, STRIP), repr(STRIP), f.sp(pbb))
    # unwrap_or falls back to the unstripped value
    uo = [x for x in walk(pe) if x[0] == "call" and x[1] == "core::option::Option::<T>::unwrap_or"]
    chk.require(uo and any(y[0] in ("var", "path") and y[1] == "uuid" for y in walk(uo[0][2][1])), "C18/strip-fallback", "uuid",
                "when the prefix is absent the value is not kept", "unwrap_or(&uuid)", f.sp(pbb), nontrivial=False)


def uid_paths(chk, f, zvt, sites):
    """The membership id as a function of the reported uid, decided per control-flow path by symbolic
    evaluation (pathsym): whatever the spelling (one reassigned variable, shadowed bindings, a helper
    function, named constants), on every path from the StatusInformation arm to a MembershipCard
    construction the payload must be
        U                                         on paths where len(U) <= 14
        strip_prefix(T, "000000").unwrap_or(T)    on paths where len(U) >= 15,  T = U[len(U) - 14 ..]
    with U = to_uppercase(tlv.uuid)."""
    import pathsym as ps
    arm = None
    for (bb, enum, targets, else_t, rest, pexpr) in variant_switches(f, zvt.adts):
        if enum.endswith("ReadCardResponse") and "StatusInformation" in targets:
            arm = targets["StatusInformation"]
    if not chk.require(arm is not None, "C18/uid-variable", "read_card", "StatusInformation arm not found", "", f.sp()):
        return
    pe = ps.PathEval(f.b)
    polls = [bb for bb, t in f.b.calls() if callee(t) == NEXT]

    def has_uuid(e):
        return any(x[0] == "field" and x[2] == "uuid" for x in ps.walk(e))

    def is_upper(e):
        return e[0] == "call" and e[1] == UPPER and len(e[2]) == 1 and has_uuid(e[2][0])

    def is_len_of(e, u):
        return (e[0] == "call" and e[1].endswith("::len") and len(e[2]) == 1 and e[2][0] == u) or (e[0] == "len" and e[1] == u)

    def tail_of(e):
        """(U, K) if e == U[len(U) - K ..]"""
        if e[0] == "call" and e[1] == "core::ops::index::Index::index" and len(e[2]) == 2 and is_upper(e[2][0]):
            u, rng = e[2]
            if rng[0] == "agg" and str(rng[1]).endswith("RangeFrom::RangeFrom") and len(rng[2]) == 1:
                s = rng[2][0]
                if s[0] == "bin" and s[1] == "Sub" and is_len_of(s[2], u) and s[3][0] == "const":
                    return u, s[3][1]
        return None

    def long_form(e):
        """(U, K, S) if e == strip_prefix(T, S).unwrap_or(T) with T = U[len(U)-K..]"""
        if e[0] == "call" and e[1] == "core::option::Option::<T>::unwrap_or" and len(e[2]) == 2:
            sp, alt = e[2]
            if sp[0] == "call" and sp[1] == STRIPP and len(sp[2]) == 2 and sp[2][1][0] == "str":
                t1, t2 = tail_of(sp[2][0]), tail_of(alt)
                if t1 is not None and t1 == t2:
                    return t1[0], t1[1], sp[2][1][1]
        return None
    n_paths = 0
    for sbb, st in sites["MembershipCard"]:
        paths = ps.simple_paths(f.b, arm, sbb, avoid=polls)
        chk.require(0 < len(paths) < 512, "C18/uid-paths", "read_card", "could not enumerate the paths to the membership-card result (%d)" % len(paths),
                    "", f.sp(sbb), nontrivial=False)
        for path in paths:
            n_paths += 1
            env, conds = pe.run(path)
            site_val = env.get(st["p"]["l"])
            if not (site_val and site_val[0] == "agg" and site_val[2]):
                chk.fail("C18/member-payload", "CardInfo::MembershipCard", "payload of the membership card not found on a path", f.sp(sbb))
                continue
            pay = ps.norm(site_val[2][0])
            # the length test(s) met on this path, normalised to len >= M / len < M
            lo, hi = 0, None          # lo <= len <= hi
            U_seen = None
            for cbb, ce, taken, listed in conds:
                c = ps.norm(ce)
                if c[0] != "bin" or c[1] not in ("Gt", "Ge", "Lt", "Le"):
                    continue
                op, a, b = c[1], c[2], c[3]
                if not (a[0] in ("call", "len") and (is_upper(a[2][0]) if a[0] == "call" and a[2] else False)):
                    a, b = b, a
                    op = {"Gt": "Lt", "Ge": "Le", "Lt": "Gt", "Le": "Ge"}[op]
                if not (a[0] == "call" and a[1].endswith("::len") and a[2] and is_upper(a[2][0]) and b[0] == "const"):
                    continue
                U_seen = a[2][0]
                k = b[1]
                truth = (taken == "else") if listed == [0] else (taken != 0)
                # condition true iff ...
                if op == "Gt":
                    M = k + 1
                elif op == "Ge":
                    M = k
                elif op == "Lt":
                    M, truth = k, not truth
                else:
                    M, truth = k + 1, not truth
                if truth:
                    lo = max(lo, M)
                else:
                    hi = M - 1 if hi is None else min(hi, M - 1)
            inst = "path " + "-".join(str(x) for x in path[:3]) + ".." + str(path[-1])
            if lo >= KEEP + 1:
                lf = long_form(pay)
                if lf is None:
                    # the same function spelled as a match on `strip_prefix(T, S)`: on the Some path the id is the
                    # stripped value, on the None path it is T
                    for cbb, ce, taken, listed in conds:
                        c = ps.norm(ce)
                        if c[0] == "discr" and c[1][0] == "call" and c[1][1] == STRIPP and len(c[1][2]) == 2 and c[1][2][1][0] == "str":
                            sp_ = c[1]
                            t1 = tail_of(sp_[2][0])
                            if t1 is None:
                                continue
                            if taken == 1:
                                inner = pay
                                while inner[0] == "field":
                                    inner = inner[1]
                                if inner == sp_ and pay[0] == "field":
                                    lf = (t1[0], t1[1], sp_[2][1][1])
                            elif taken == 0 and tail_of(pay) == t1:
                                lf = (t1[0], t1[1], sp_[2][1][1])
                chk.require(lf is not None and lf[1] == KEEP and lf[2] == STRIP and (U_seen is None or lf[0] == U_seen),
                            "C18/uid-long", inst,
                            "for a uid longer than %d digits the membership id is %s; specification: the last %d digits of the "
                            "upper-cased uid with a leading %r dropped" % (KEEP, ps.show(pay)[:160], KEEP, STRIP),
                            "strip_prefix(U[len-14..], \"000000\").unwrap_or(..)", f.sp(sbb))
            elif hi is not None and hi <= KEEP:
                chk.require(is_upper(pay), "C18/uid-short", inst,
                            "for a uid of at most %d digits the membership id is %s; specification: the upper-cased uid unchanged"
                            % (KEEP, ps.show(pay)[:160]), "to_uppercase(tlv.uuid)", f.sp(sbb))
            else:
                chk.fail("C18/length-constant", inst,
                         "the path to the membership id does not separate uids of more than %d digits from shorter ones "
                         "(len range on this path: %s..%s); payload %s" % (KEEP, lo, hi, ps.show(pay)[:120]), f.sp(sbb))
            src_ok = any(x[0] == "field" and x[2] == "uuid" and any(y[0] == "field" and y[2] == "tlv" for y in ps.walk(x))
                         for x in ps.walk(pay))
            chk.require(src_ok, "C18/uid-source", inst, "the membership id does not derive from tlv.uuid of the status information: %s"
                        % ps.show(pay)[:120], "tlv.uuid", f.sp(sbb), nontrivial=False)
    chk.floor("membership-id paths evaluated", n_paths, 2)
