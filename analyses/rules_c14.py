"""C14 — a decoded packet depends only on the bytes inside its announced length."""
import layout
import contracts
import rules_c02
from mirlite import callee, callee_res, ty_str
from expr import show, walk, strip_ref
from discharge import make_prover, CONTRACTED, INDEX, LEN_CALLS, unq

EXPLANATION = (
    "Structural rules on every framing implementation of deserialize_tagged (trait default and the raw-bytes override) "
    "plus contract and layout rules. Decided: (a) the value decoder is applied to exactly `&payload[..length]` where "
    "(length, payload) is the Ok result of L::deserialize on the bytes after the tag, and that slice expression is "
    "in bounds (false edge of length > payload.len(), discharged as in C02); (b) the returned remainder is exactly "
    "`&payload[length - r.len()..]` with r the value decoder's own remainder, i.e. everything after the announced "
    "length is handed back untouched; (c) the suffix contracts K1-K3 hold for every decoder impl in zvt_builder and zvt "
    "(a decoder can only return a suffix of what it was given) and no `unsafe` is written in the library crates, so a "
    "decoder cannot read outside the slice it receives (Rust's borrow rules); (d) layout nesting: every greedy row "
    "(no length prefix and a value decoder that consumes its whole input, or a struct that contains such a row or a "
    "tag loop) is the last row of its struct, and no tagged row is greedy, so no field can swallow its successor; "
    "(e) in every Length::deserialize impl the announced length returned on Ok is data-flow independent of the length "
    "of the input slice (it is a constant or computed from the prefix bytes), so appending bytes cannot change it.")
RULE = ("expression equality of E::decode's argument with Index(payload, RangeTo{length}); of the Ok remainder with "
        "Index(payload, RangeFrom{length - len(decode remainder)}); K-suffix on all impls; unsafe-site list empty "
        "(external macro expansions excepted); greedy-row placement over the extracted layout tables.")

ALLOWED_UNSAFE_EXPANSIONS = ("try_stream", "stream", "tokio::pin", "$crate::__private::try_stream_inner", "$crate::__private::stream_inner")
GREEDY_VALUES = ("cp437", "hex", "utf8", "bcd", "raw", "datetime")


def run(ctx, chk):
    crates = [ctx.crate("zvt_builder"), ctx.crate("zvt")]
    framing(chk, crates)
    # the bounded view is established in `deserialize_tagged`: a packet decoder that does its own framing (peels the
    # control field and the length by hand and hands the *rest* to the field decoder) bypasses it.  Necessary
    # condition, shared with C03-c: command and container decoders delegate to deserialize_tagged.
    import rules_c03
    from report import Sub
    sub = Sub(chk, "C14-a", lambda r: r in ("C03-c/framing", "C03-c/payload", "C03-c/tag", "C03-c/result"))
    rules_c03.framing(ctx, sub)
    chk.floor("packet decoders that delegate their framing (shared with C03-c)", sub.count, 4)
    # (c) contracts: reuse the C02 machinery restricted to the contract part
    crates2, sc = rules_c02.in_scope(ctx, rules_c02.thorough_extra(ctx, chk))
    n_k = 0
    for bid, b in sorted(sc.items()):
        r = b.raw
        tr = r.get("impl_trait") or r.get("in_trait")
        if r["defkind"] != "AssocFn" or r.get("name") not in ("decode", "deserialize", "deserialize_tagged", "zvt_deserialize"):
            continue
        if tr not in ("zvt_builder::encoding::Encoding", "zvt_builder::length::Length", "zvt_builder::ZvtSerializerImpl",
                      "zvt_builder::ZvtSerializer"):
            continue
        if bid in rules_c02.NOT_INSTANTIATED:
            continue
        pr = make_prover(b, crates2)
        n_k += contracts.check_suffix_contract(chk, pr, "C14-c/K-suffix", rules_c02.short(bid))
    chk.floor("decoder Ok-returns checked against the suffix contract", n_k, 85)
    # unsafe
    n_unsafe = 0
    for cname in ("zvt_builder", "zvt", "zvt_derive"):
        c = ctx.crate(cname, kind="procmacro" if cname == "zvt_derive" else None)
        for u in c.data.get("unsafe", []):
            x = u.get("x", "")
            ok = bool(x) and any(a in x for a in ALLOWED_UNSAFE_EXPANSIONS)
            n_unsafe += 1
            chk.require(ok, "C14-c/no-unsafe", "%s in %s" % (u["kind"], u["in"]),
                        "`unsafe` written in a library crate: slices could be read outside their bounds", "expansion of %s" % x[:40],
                        u.get("sp"), nontrivial=False)
        chk.require("unsafe" in c.data, "C14-c/unsafe-facts", cname, "driver produced no unsafe-site list", "", nontrivial=False)
    nesting(ctx, chk)
    announced(chk, crates2, sc)
    length_used(chk, crates2, sc)


def length_used(chk, crates, sc):
    """Where a decoder reads a length prefix itself, the announced length is what bounds the value: the length component of
    every `L::deserialize(..)` result is used (compared, or taken as a slice bound).  A reader that takes only the
    remainder (`let (_, data) = Tlv::deserialize(data)?`) and then decodes a width of its own choosing ignores the
    announcement - shorter and longer elements are then read across their borders."""
    n = 0
    for bid, b in sorted(sc.items()):
        calls = [(bb, t) for bb, t in b.calls() if callee(t) == "zvt_builder::length::Length::deserialize"]
        if not calls:
            continue
        pr = make_prover(b, crates)
        vx = pr.vx
        exprs = []
        for i in sorted(b.reachable(0)):
            for st in b.blocks[i]["stmts"]:
                if st["s"] == "assign":
                    exprs.append(vx.rvalue(st["rv"], i))
            t = b.blocks[i]["term"]
            if t["t"] == "call":
                exprs.extend(vx.operand(a, i) for a in t["args"])
            elif t["t"] == "switch":
                exprs.append(vx.operand(t["d"], i))
            elif t["t"] == "assert":
                exprs.extend(vx.operand(a, i) for a in t.get("ops", []))
        for bb, t in calls:
            style = ty_str((t["f"].get("a") or [{}])[0])
            if style.startswith(("zvt_builder::length::Fixed", "zvt_builder::length::Empty")):
                continue
            n += 1
            used = False
            for e in exprs:
                for x in walk(e):
                    if x[0] == "proj" and x[1][0] == "call" and x[1][1] == "zvt_builder::length::Length::deserialize" and \
                            len(x[1]) > 3 and x[1][3] == bb:
                        f = tuple(y for y in x[2] if not str(y).startswith("@"))
                        if f[:2] == ("0", "0") or f == ("0",) and False:
                            used = True
                    if used:
                        break
                if used:
                    break
            chk.require(used, "C14-e/length-used", "%s bb%d" % (rules_c02.short(bid), bb),
                        "the length announced by the %s prefix is read and dropped: what follows is decoded with a width of the "
                        "decoder's own choosing" % style.rsplit("::", 1)[-1], "length bounds the value", t.get("sp"))
    chk.floor("length prefixes whose announced length is used", n, 2)


def depends_on_len(pr, e, seen=None, depth=0):
    """Does the value expression e depend on the *length* of some slice/vector (transitively through
    multiply-assigned locals)?  Control dependence is deliberately not followed: `if data.len() < N
    {Err}` guards are exactly how a decoder is supposed to use the length."""
    seen = seen if seen is not None else set()
    for x in walk(e):
        if x[0] == "call" and x[1] in LEN_CALLS:
            return x
        if x[0] == "un" and x[1] == "PtrMetadata":
            return x
        if x[0] == "var" and x[2] not in seen and depth < 20:
            seen.add(x[2])
            for d in pr.tr.defs.get(x[2], []):
                if d[2] == "assign":
                    r = depends_on_len(pr, pr.vx.rvalue(d[3]["rv"], d[0]), seen, depth + 1)
                    if r:
                        return r
                elif d[2] == "call":
                    for a in d[3]["args"]:
                        r = depends_on_len(pr, pr.vx.operand(a, d[0]), seen, depth + 1)
                        if r:
                            return r
    return None


def announced(chk, crates, sc):
    """(e) the announced length is a function of the prefix bytes only."""
    n = 0
    for bid, b in sorted(sc.items()):
        r = b.raw
        tr = r.get("impl_trait") or r.get("in_trait")
        if r["defkind"] != "AssocFn" or r.get("name") != "deserialize" or tr != "zvt_builder::length::Length":
            continue
        pr = make_prover(b, crates)
        inst = rules_c02.short(bid)
        for i in sorted(b.reachable(0)):
            for st in b.blocks[i]["stmts"]:
                if st["s"] == "assign" and st["p"]["l"] == 0 and not st["p"]["p"]:
                    e = pr.vx.rvalue(st["rv"], i)
                    if e[0] == "agg" and e[1] == "core::result::Result::Ok" and e[2] and e[2][0][0] == "agg" and \
                            e[2][0][1] == "tuple" and len(e[2][0][2]) == 2:
                        n += 1
                        ln = e[2][0][2][0]
                        rest = strip_ref(e[2][0][2][1])
                        if rest[0] == "path" and rest[1] == pr.vx.root_name(1) and not rest[2]:
                            # prefix-less style (Empty, Temperature): nothing is consumed, the value takes what
                            # the enclosing bound leaves - its placement is what clause (d) checks
                            chk.ok("C14-e/length-from-prefix", inst, "prefix-less style (rest == input): governed by (d)",
                                   st.get("sp") or b.sp(), nontrivial=False)
                            continue
                        bad = depends_on_len(pr, ln)
                        chk.require(bad is None, "C14-e/length-from-prefix", inst,
                                    "the announced length %s is computed from the number of bytes that follow (%s): the decoded "
                                    "value then depends on trailing data" % (show(ln)[:70], show(bad)[:50] if bad else ""),
                                    "length derives from the prefix bytes / a constant only", st.get("sp") or b.sp())
    chk.floor("Length::deserialize Ok-returns checked for prefix-only lengths", n, 8)


def framing(chk, crates):
    n = 0
    for c in crates:
        for b in c.bodies.values():
            r = b.raw
            tr = r.get("impl_trait") or r.get("in_trait")
            if tr != "zvt_builder::ZvtSerializerImpl" or r.get("name") != "deserialize_tagged" or r["defkind"] != "AssocFn":
                continue
            lend = [(bb, t) for bb, t in b.calls() if callee(t) == "zvt_builder::length::Length::deserialize"]
            if not lend:
                continue      # delegating impls (Option, Vec)
            n += 1
            inst = rules_c02.short(b.id)
            pr = make_prover(b, crates)
            vx = pr.vx
            vald = [(bb, t) for bb, t in b.calls() if callee(t) == "zvt_builder::encoding::Encoding::decode"
                    and ty_str(t["f"]["a"][1]) != "zvt_builder::Tag"]
            if not chk.require(len(lend) == 1 and len(vald) == 1, "C14-a/shape", inst,
                               "expected one L::deserialize and one E::decode, found %d/%d" % (len(lend), len(vald)), "", b.sp()):
                continue
            lbb, lt = lend[0]
            vbb, vt = vald[0]
            arg = strip_ref(unq(vx.operand(vt["args"][0], vbb)))
            good = False
            why = show(arg)[:120]
            # `&payload[..length]` or the payload of `payload.get(..length)` (total: no guard needed)
            if arg[0] == "proj" and arg[1][0] == "call" and arg[1][1].endswith("<impl [T]>::get") and tuple(arg[2]) == ("@Some", "0"):
                arg = ("call", INDEX[0], arg[1][2])
            if arg[0] == "call" and arg[1] in INDEX:
                base, rng = strip_ref(arg[2][0]), strip_ref(arg[2][1])
                if rng[0] == "agg" and rng[1].endswith("RangeTo::RangeTo"):
                    ln = rng[2][0]
                    p_ok = base[0] == "proj" and base[1][0] == "call" and base[1][1] == "zvt_builder::length::Length::deserialize" \
                        and base[1][3] == lbb and tuple(base[2]) == ("@Ok", "0", "1")
                    l_ok = ln[0] == "proj" and ln[1][0] == "call" and ln[1][3] == lbb and tuple(ln[2]) == ("@Ok", "0", "0")
                    good = p_ok and l_ok
            chk.require(good, "C14-a/bounded-view", inst,
                        "the value decoder is applied to %s instead of &payload[..length]: it could read (or be influenced by) "
                        "bytes beyond the announced length" % why, "E::decode(&payload[..length])", vt.get("sp"))
            # (b) remainder
            rems = contracts.ok_remainders(pr)
            okr = len(rems) == 1
            if okr:
                rem = strip_ref(unq(rems[0][1]))
                okr = False
                if rem[0] == "proj" and rem[1][0] == "call" and rem[1][1].endswith("<impl [T]>::get") and tuple(rem[2]) == ("@Some", "0"):
                    rem = ("call", INDEX[0], rem[1][2])
                if rem[0] == "call" and rem[1] in INDEX:
                    base, rng = strip_ref(rem[2][0]), strip_ref(rem[2][1])
                    if rng[0] == "agg" and rng[1].endswith("RangeFrom::RangeFrom"):
                        st = rng[2][0]
                        p_ok = base[0] == "proj" and base[1][0] == "call" and base[1][3] == lbb and tuple(base[2]) == ("@Ok", "0", "1")
                        # start == announced length - len(decoder's own remainder), as linear forms (so
                        # `length - r.len()`, `view.len() - r.len()` and a named temporary are the same thing)
                        from discharge import Lin, len_of
                        length_e = ("proj", ("call", "zvt_builder::length::Length::deserialize", tuple(vx.operand(a_, lbb) for a_ in lt["args"]),
                                             lbb, tuple(ty_str(x) for x in lt["f"]["a"])), ("@Ok", "0", "0"))
                        dec_rem = ("proj", ("call", "zvt_builder::encoding::Encoding::decode", tuple(vx.operand(a_, vbb) for a_ in vt["args"]),
                                            vbb, tuple(ty_str(x) for x in vt["f"]["a"])), ("@Ok", "0", "1"))
                        want = pr.lin(length_e).add(len_of(pr, ("ref", dec_rem)), -1)
                        got = pr.lin(st)
                        diff = got.add(want, -1)
                        s_ok = diff.c == 0 and not any(v != 0 for v in diff.t.values())
                        okr = p_ok and s_ok
            chk.require(okr, "C14-b/remainder", inst,
                        "the remainder is %s, not &payload[length - decoder_remainder.len()..]: bytes after the announced length are not "
                        "returned untouched" % ([show(r[1])[:100] for r in rems]), "&payload[length - r.len()..]", b.sp())
            # the length source is the input after the tag
            larg = strip_ref(vx.operand(lt["args"][0], lbb))
            chk.require(contracts.suffix_of_param(pr, larg), "C14-a/length-source", inst,
                        "the length prefix is read from %s, not from the input" % show(larg)[:80], "L::deserialize(input after tag)",
                        lt.get("sp"), nontrivial=False)
    chk.floor("framing deserialize_tagged impls", n, 2)


def nesting(ctx, chk):
    zvt = ctx.crate("zvt")
    impls = layout.codec_impl_bodies(zvt)
    tables = {}
    for sname, d in impls.items():
        try:
            tables[sname] = [layout.descriptor(r) for r in layout.extract_encode(d["encode"])]
        except layout.ShapeError as e:
            chk.fail("C14-d/shape", sname, "encoder not analysable: %s" % e.msg, d["encode"].sp())
    memo = {}

    def struct_greedy(s, depth=0):
        if s in memo:
            return memo[s]
        memo[s] = True
        rows = tables.get(s)
        if rows is None:
            return True
        g = False
        for d in rows:
            if d["tag"] is not None:
                g = True
            elif row_greedy(d, depth + 1):
                g = True
        memo[s] = g
        return g

    def row_greedy(d, depth=0):
        if d["prefix"] != "none":
            return False
        v = d["value"]
        if v.split(":")[0] in GREEDY_VALUES:
            return True
        if v.startswith("struct:"):
            return struct_greedy(v[len("struct:"):], depth)
        if v.startswith("custom:"):
            return True
        return False
    n = 0
    for sname, rows in sorted(tables.items()):
        for i, d in enumerate(rows):
            n += 1
            g = row_greedy(d)
            inst = "%s.%s" % (sname, d["field"])
            if d["tag"] is not None:
                chk.require(not g, "C14-d/greedy-tagged", inst,
                            "tagged row without length prefix whose value decoder consumes the rest of the input: it would swallow "
                            "every following field", "bounded", nontrivial=g)
            else:
                last_pos = all(r["tag"] is not None for r in rows[i + 1:])
                has_tagged_after = any(r["tag"] is not None for r in rows[i + 1:])
                chk.require(not g or (last_pos and not has_tagged_after), "C14-d/greedy-not-last", inst,
                            "greedy positional row (%s/%s) is followed by other rows, which it would swallow" % (d["prefix"], d["value"]),
                            "last row" if g else "bounded", nontrivial=g)
    chk.floor("layout rows checked for nesting", n, 162)
