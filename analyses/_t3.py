import sys, facts, mirlite
from mirlite import *
from expr import *
out, idx = facts.build()
c = mirlite.Crate(facts.load(out, idx, 'zvt_feig_terminal'))
pat = sys.argv[1]
for b in c.bodies.values():
    if pat not in b.id: continue
    ex = Ex(b)
    print("fn", b.id)
    for i in sorted(b.reachable(0)):
        t = b.blocks[i]["term"]
        x = t.get("x","")
        if "Await" in x or "log" in x or "format_args" in x: continue
        if t["t"] == "switch":
            print("  bb%d switch %s -> %s else %s" % (i, show(ex.operand(t["d"])), t["targets"], t["else"]))
        elif t["t"] == "call":
            n = callee(t)
            if n.startswith(("core::future","core::pin","core::fmt","log::","anyhow::kind","core::hint","alloc::fmt")): continue
            print("  bb%d call %s = %s(%s)" % (i, place_str(t["dest"], b.raw), n, ", ".join(show(ex.operand(a)) for a in t["args"])))
        elif t["t"] == "return":
            print("  bb%d return" % i)
    for i in sorted(b.reachable(0)):
        for st in b.blocks[i]["stmts"]:
            if st["s"]=="assign" and st["p"]["l"]==0: print("  bb%d _0 = %s" % (i, show(ex.rvalue(st["rv"]))))
