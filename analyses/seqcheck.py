"""Shared driver: run the protocol monitor over every sequence body."""
import events
from mirlite import ty_str

SEQ = "zvt::sequences::Sequence"


def sequences(zvt):
    """name -> dict(input, output, body (coroutine Body), default(bool))"""
    out = {}
    default_body = None
    for b in zvt.bodies.values():
        if b.raw.get("root") == "zvt::sequences::Sequence::into_stream" and b.raw["defkind"] == "Closure" \
                and b.raw.get("coroutine_kind"):
            default_body = b
    for im in zvt.impls:
        if im.get("trait") != SEQ:
            continue
        name = ty_str(im["self"])
        types = {t["name"]: ty_str(t["ty"]) for t in im["types"]}
        ent = dict(input=types.get("Input"), output=types.get("Output"), default="into_stream" not in im["fns"],
                   body=None, sp=im.get("sp"))
        if ent["default"]:
            ent["body"] = default_body
        else:
            for b in zvt.bodies.values():
                r = b.raw
                if r["defkind"] == "Closure" and r.get("coroutine_kind") and r.get("impl_trait") == SEQ and \
                        ty_str(r.get("impl_self")) == name and r.get("name") == "into_stream":
                    ent["body"] = b
        out[name] = ent
    # inherent WriteFile::into_stream
    for b in zvt.bodies.values():
        r = b.raw
        if r["defkind"] == "Closure" and r.get("coroutine_kind") and r.get("root") == "zvt::feig::sequences::WriteFile::into_stream":
            out["zvt::feig::sequences::WriteFile"] = dict(input="zvt::feig::packets::WriteFile",
                                                         output="zvt::feig::sequences::WriteFileResponse",
                                                         default=False, body=b, sp=r.get("sp"))
    return out, default_body


def run_all(ctx):
    zvt = ctx.crate("zvt")
    spec = ctx.spec("sequences.json")
    replies = ctx.spec("replies.json")
    seqs, default_body = sequences(zvt)
    cmds = {}
    for im in zvt.impls:
        if im.get("trait") == "zvt_builder::ZvtCommand":
            c = {x["name"]: x.get("v") for x in im["consts"]}
            cmds[ty_str(im["self"])] = (c.get("CLASS"), c.get("INSTR"))
    results = {}
    for name, ent in sorted(seqs.items()):
        res = dict(findings=[], stats={}, ent=ent, spec=spec.get(name))
        results[name] = res
        sp = spec.get(name)
        if ent["body"] is None:
            res["findings"].append(events.Finding("C05", "body", "no stream body found for the sequence", ent["sp"], ""))
            continue
        if sp is None:
            res["skipped"] = "sequence not in spec/sequences.json"
            continue
        out_enum = ent["output"]
        adt = zvt.adts.get(out_enum)
        if adt is None:
            res["findings"].append(events.Finding("C05", "reply-enum", "reply enum %s not found" % out_enum, ent["sp"], ""))
            continue
        variants = [v["name"] for v in adt["variants"]]
        # variant -> control field, read off the enum itself (payload type's CLASS / INSTR): the specification tables are keyed
        # by the name the reply enum has on the pinned tree, the enum a sequence parses may be a shared one under another name
        rep = {}
        for v in adt["variants"]:
            pty = ty_str(v["fields"][0]["ty"]) if len(v.get("fields", [])) == 1 else None
            if pty in cmds and None not in cmds[pty]:
                rep[v["name"]] = list(cmds[pty])
        if not rep:
            rep = replies.get(out_enum, {}).get("variants", {})
        res["reply_fields"] = rep
        if sp["final"] == "all":
            final = list(variants)
        else:
            final = [v for v in variants if rep.get(v) in sp["final"]]
        dreq = None
        if sp.get("data_request"):
            dreq = [v for v in variants if rep.get(v) == sp["data_request"]]
            dreq = dreq[0] if dreq else None
        # spec agreement on the wiring of the impl
        if ent["input"] != sp["input"]:
            res["findings"].append(events.Finding("C05", "command-type", "sequence sends %s, specification table says %s"
                                                  % (ent["input"], sp["input"]), ent["sp"], ""))
        if ent["output"] != sp["output"]:
            # another enum than the table names: the same reply set (by control fields) is the same thing
            want_set = sorted(map(tuple, replies.get(sp["output"], {}).get("variants", {}).values()))
            got_set = sorted(map(tuple, rep.values()))
            if not want_set or want_set != got_set:
                res["findings"].append(events.Finding("C05", "reply-type", "sequence parses %s (control fields %s), specification table "
                                                      "says %s (%s)" % (ent["output"], got_set, sp["output"], want_set), ent["sp"], ""))
        if ent["default"] and not sp.get("single_reply"):
            res["findings"].append(events.Finding("C05", "stop-at-final", "the sequence uses the single-reply default body but "
                                                  "the command has intermediate replies", ent["sp"], ""))
        eg = events.EventGraph(ent["body"], zvt.adts)
        in_ty = ent["input"]
        o_ty = out_enum
        if ent["default"]:
            # the shared default body is generic: types appear as associated-type projections
            in_ty = "alias zvt::sequences::Sequence::Input<Self>"
            o_ty = "alias zvt::sequences::Sequence::Output<Self>"
        f, st = events.monitor(eg, in_ty, o_ty, final, variants, data_request=dreq,
                               data_answer=sp.get("data_answer"), single_reply=sp.get("single_reply"))
        res["findings"].extend(f)
        res["stats"] = st
        res["stats"]["events"] = len(eg.event)
        res["final"] = final
    return results, spec
