#!/usr/bin/env python3
"""Generator of user-defined structs over the derive attribute grammar, together with the layout
each struct's attributes *describe* (written down by this generator from the attribute grammar,
independently of the macro's parser).  Programs are only type-checked, never run.

usage: gen.py <out_dir> <mode: quick|thorough> <seed>
writes <out_dir>/Cargo.toml, <out_dir>/src/lib.rs, <out_dir>/expected.json
"""
import json
import os
import random
import sys

INTS = ["u8", "u16", "u32", "u64", "usize"]
INT_SIZE = {"u8": 1, "u16": 2, "u32": 4, "u64": 8, "usize": 8}
# (encoding path or None for the default, rust type, canonical value name)
LEAVES = []
for t in INTS:
    LEAVES.append((None, t, "int1" if INT_SIZE[t] == 1 else "le%d" % INT_SIZE[t]))
    LEAVES.append(("encoding::Default", t, "int1" if INT_SIZE[t] == 1 else "le%d" % INT_SIZE[t]))
    LEAVES.append(("encoding::BigEndian", t, "int1" if INT_SIZE[t] == 1 else "be%d" % INT_SIZE[t]))
    LEAVES.append(("encoding::Bcd", t, "bcd"))
LEAVES += [(None, "String", "cp437"), ("encoding::Default", "String", "cp437"), ("encoding::Hex", "String", "hex"),
           ("encoding::Utf8", "String", "utf8"), (None, "chrono::NaiveDateTime", "datetime")]
LENGTHS = [(None, "none"), ("length::Empty", "none"), ("length::Fixed<1>", "fixed1"), ("length::Fixed<2>", "fixed2"),
           ("length::Fixed<4>", "fixed4"), ("length::Fixed<9>", "fixed9"), ("length::Llv", "LL"), ("length::Lllv", "LLL"),
           ("length::Tlv", "BER"), ("length::Adpu", "APDU")]
WRAPS = [("one", "{}"), ("optional", "Option<{}>"), ("repeated", "Vec<{}>")]
# other spellings of the same types (the macro classifies fields by looking at the written path)
SPELLINGS = {"optional": ["Option<{}>", "std::option::Option<{}>", "core::option::Option<{}>", "::std::option::Option<{}>"],
             "repeated": ["Vec<{}>", "std::vec::Vec<{}>", "::std::vec::Vec<{}>"],
             "one": ["{}"]}
LEAF_SPELLINGS = {"String": ["String", "std::string::String"]}
ONE_BYTE_TAGS = [t for t in range(1, 0xff) if t != 0x1f]
TWO_BYTE_TAGS = [0x1f00 + i for i in range(0, 256, 7)] + [0xff00 + i for i in range(1, 256, 11)]


def canon_prefix(prefix, value):
    if prefix.startswith("fixed") and value[:2] in ("in", "le", "be"):
        n = int(prefix[5:])
        k = int(value.lstrip("intleb"))
        if n == k:
            return "none"
    return prefix


class Gen:
    def __init__(self, seed):
        self.rnd = random.Random(seed)
        self.structs = []       # (name, rust source, expected rows, control field)
        self.nested = []        # names of structs usable as nested field types: (name, greedy?)

    def field(self, idx, kind, tag, length, leaf, wrap, attr_order, spell="random"):
        """kind: pos | bmp | tlv ; returns (rust lines, expected row)"""
        enc, ty, value = leaf
        lpath, prefix = length
        card, wfmt = wrap
        name = "f%d" % idx
        if spell == "random":
            # mostly the plain spelling, sometimes a path-qualified one
            if self.rnd.random() < 0.2:
                wfmt = self.rnd.choice(SPELLINGS[card])
            if ty in LEAF_SPELLINGS and self.rnd.random() < 0.1:
                ty = self.rnd.choice(LEAF_SPELLINGS[ty])
        elif spell is not None:
            wfmt = spell
        rty = wfmt.format(ty)
        parts = []
        if kind == "tlv":
            parts.append(("tag", "tag = 0x%x" % tag))
            if enc:
                parts.append(("encoding", "encoding = %s" % enc))
            prefix = "BER"
        else:
            if kind == "bmp":
                parts.append(("number", "number = 0x%x" % tag))
            if lpath:
                parts.append(("length", "length = %s" % lpath))
            if enc:
                parts.append(("encoding", "encoding = %s" % enc))
        if attr_order == "rev":
            parts = parts[::-1]
        elif attr_order == "shuffle":
            self.rnd.shuffle(parts)
        lines = []
        if parts:
            lines.append("    #[zvt_%s(%s)]" % ("tlv" if kind == "tlv" else "bmp", ", ".join(p[1] for p in parts)))
        lines.append("    pub %s: %s," % (name, rty))
        row = [name, tag if kind != "pos" else None, canon_prefix(prefix, value), value, card]
        return lines, row

    def add_struct(self, name, fields, control=None):
        src = ["#[derive(Zvt, Default)]"]
        if control:
            src.append("#[zvt_control_field(class = 0x%02x, instr = 0x%02x)]" % control)
        src.append("pub struct %s {" % name)
        rows = []
        for lines, row in fields:
            src.extend(lines)
            rows.append(row)
        src.append("}")
        self.structs.append((name, "\n".join(src), rows, control))

    def single_field_grid(self, sample=None):
        combos = []
        for kind in ("pos", "bmp1", "bmp2", "tlv1", "tlv2"):
            lens = LENGTHS if not kind.startswith("tlv") else [(None, "BER")]
            for length in lens:
                for leaf in LEAVES:
                    for wrap in WRAPS:
                        combos.append((kind, length, leaf, wrap))
        if sample is not None and sample < len(combos):
            combos = self.rnd.sample(combos, sample)
        for i, (kind, length, leaf, wrap) in enumerate(combos):
            tag = None
            k = "pos"
            if kind in ("bmp1", "tlv1"):
                tag = self.rnd.choice(ONE_BYTE_TAGS)
                k = kind[:3]
            elif kind in ("bmp2", "tlv2"):
                tag = self.rnd.choice(TWO_BYTE_TAGS)
                k = kind[:3]
            order = self.rnd.choice(["fwd", "rev", "shuffle"])
            self.add_struct("S%d" % len(self.structs), [self.field(0, k, tag, length, leaf, wrap, order)])

    def spelling_structs(self):
        """Every spelling of Option/Vec on positional, bmp- and tlv-tagged fields (always included)."""
        for card, wfmt in WRAPS[1:]:
            for sp in SPELLINGS[card]:
                for kind in ("pos", "bmp", "tlv"):
                    tag = None if kind == "pos" else self.rnd.choice(ONE_BYTE_TAGS)
                    leaf = self.rnd.choice([l for l in LEAVES if l[1] in ("u8", "u16", "String")])
                    length = (None, "BER") if kind == "tlv" else self.rnd.choice(LENGTHS)
                    f0 = self.field(0, kind, tag, length, leaf, (card, wfmt), "fwd", spell=sp)
                    # a required tagged sibling, so that the required set is never trivially empty
                    t2 = self.rnd.choice([t for t in ONE_BYTE_TAGS if t != tag])
                    f1 = self.field(1, "bmp", t2, (None, "none"), (None, "u8", "int1"), WRAPS[0], "fwd", spell=None)
                    self.add_struct("P%d" % len(self.structs), [f0, f1])

    def nested_leaf(self):
        name = self.rnd.choice(self.nested)
        return (None, name, "struct:derive_grid::" + name)

    def random_structs(self, n, max_fields=8, max_depth=3):
        # depth levels: level 0 structs have only leaf fields; level k may nest level < k
        levels = {0: []}
        for i in range(n):
            depth = self.rnd.choice([0, 0, 1, 1, 2, 3][:max_depth + 3])
            nf = self.rnd.randint(1, max_fields)
            npos = self.rnd.randint(0, nf)
            fields = []
            used_tags = set()
            for j in range(nf):
                positional = j < npos          # positional fields first (the documented assumption)
                usable = [s for d in range(depth) for s in levels.get(d, [])]
                if usable and self.rnd.random() < 0.3:
                    nm = self.rnd.choice(usable)
                    leaf = (self.rnd.choice([None, "encoding::Default"]), nm, "struct:derive_grid::" + nm)
                else:
                    leaf = self.rnd.choice(LEAVES)
                wrap = self.rnd.choice(WRAPS)
                order = self.rnd.choice(["fwd", "rev", "shuffle"])
                if positional:
                    fields.append(self.field(j, "pos", None, self.rnd.choice(LENGTHS), leaf, wrap, order))
                else:
                    kind = self.rnd.choice(["bmp", "tlv"])
                    while True:
                        tag = self.rnd.choice(ONE_BYTE_TAGS + TWO_BYTE_TAGS)
                        if tag not in used_tags:
                            used_tags.add(tag)
                            break
                    fields.append(self.field(j, kind, tag, self.rnd.choice(LENGTHS), leaf, wrap, order))
            control = None
            if self.rnd.random() < 0.25:
                control = (self.rnd.randint(0, 255), self.rnd.randint(0, 255))
            name = "R%d" % len(self.structs)
            self.add_struct(name, fields, control)
            levels.setdefault(depth, []).append(name)

    def emit(self, out):
        os.makedirs(os.path.join(out, "src"), exist_ok=True)
        with open(os.path.join(out, "Cargo.toml"), "w") as fh:
            fh.write('[package]\nname = "derive_grid"\nversion = "0.0.0"\nedition = "2021"\n\n[lib]\npath = "src/lib.rs"\n\n'
                     '[dependencies]\nzvt = { path = "%s/zvt" }\nzvt_builder = { path = "%s/zvt_builder" }\nchrono = "0.4.24"\nlog = "0.4.19"\n\n[workspace]\n'
                     % ((os.environ.get("ZVT_REPO", "/repo"),) * 2))
        with open(os.path.join(out, "src", "lib.rs"), "w") as fh:
            fh.write("// generated by /verif/fixtures/derive_grid/gen.py - type-checked only, never executed\n"
                     "#![allow(dead_code)]\nuse zvt::{encoding, length, Zvt};\n\n")
            for name, src, rows, control in self.structs:
                fh.write(src + "\n\n")
        exp = {"derive_grid::" + name: {"rows": rows, "control_field": list(control) if control else None}
               for name, src, rows, control in self.structs}
        with open(os.path.join(out, "expected.json"), "w") as fh:
            json.dump(exp, fh)
        return len(self.structs)


def main():
    out, mode, seed = sys.argv[1], sys.argv[2], int(sys.argv[3])
    g = Gen(seed)
    if mode == "quick":
        g.single_field_grid(sample=100)
        g.spelling_structs()
        g.random_structs(40)
    else:
        g.single_field_grid()
        g.spelling_structs()
        g.random_structs(300)
    n = g.emit(out)
    print(n)


if __name__ == "__main__":
    main()
